#!/bin/sh
# Builds every harness binary offline from files on disk (cargo registry cache + /repo working tree).
set -e
cd "$(dirname "$0")"
export CARGO_NET_OFFLINE=true
mkdir -p evidence replays target
exec ./check --build
