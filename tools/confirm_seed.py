#!/usr/bin/env python3
"""Confirms a seeded change produced by a sub-agent and, if confirmed, stores it under
/verif/seeded/<name>/ (patch.diff, seed_demo.rs, meta.json).

  tools/confirm_seed.py <agent-worktree> <name> [--features F]

In a fresh scratch worktree of /repo (outside /repo and /verif):
  1. the patch applies to the current HEAD;
  2. `cargo test --offline` (default features = the 81-test baseline) passes with the patch;
  3. the demonstration test fails with the patch and passes without it.
The scratch worktree and its build output are removed afterwards.
"""
import json, os, re, shutil, subprocess, sys, time

VERIF = os.path.dirname(os.path.dirname(os.path.abspath(__file__)))


def sh(cmd, cwd, env=None, timeout=1800):
    r = subprocess.run(cmd, cwd=cwd, env=env, shell=True, stdout=subprocess.PIPE, stderr=subprocess.STDOUT, text=True, timeout=timeout)
    return r.returncode, r.stdout


def main():
    src, name = sys.argv[1], sys.argv[2]
    so = os.path.join(src, "seed_out")
    meta = json.load(open(os.path.join(so, "meta.json")))
    demo_cmd = meta.get("demo_cmd", "")
    m = re.search(r"--features\s+([\w,-]+)", demo_cmd)
    feats = m.group(1) if m else "backend-mmap,backend-atomic,backend-bitmap"
    if "--features" in sys.argv:
        feats = sys.argv[sys.argv.index("--features") + 1]
    wt = "/tmp/confirm/%s" % name
    shutil.rmtree(wt, ignore_errors=True)
    subprocess.run(["git", "-C", "/repo", "worktree", "prune"], check=False)
    os.makedirs("/tmp/confirm", exist_ok=True)
    rc, out = sh("git -C /repo worktree add --detach %s HEAD -q" % wt, "/")
    if rc != 0:
        print("cannot create worktree:", out)
        return 2
    env = dict(os.environ, CARGO_TARGET_DIR=os.path.join(wt, "target"), CARGO_NET_OFFLINE="true")
    result = {"name": name, "property": meta.get("property"), "features": feats}
    try:
        rc, out = sh("git apply --index %s" % os.path.join(so, "patch.diff"), wt)
        if rc != 0:
            rc, out = sh("patch -p1 -i %s" % os.path.join(so, "patch.diff"), wt)
        result["applies"] = rc == 0
        if rc != 0:
            print(json.dumps(result), out[-500:])
            return 1
        rc, out = sh("cargo test --offline 2>&1", wt, env)
        passed = re.findall(r"test result: ok\. (\d+) passed", out)
        result["baseline_with_patch"] = passed
        result["baseline_ok"] = rc == 0 and bool(passed) and passed[0] == "81"
        os.makedirs(os.path.join(wt, "tests"), exist_ok=True)
        shutil.copy(os.path.join(so, "seed_demo.rs"), os.path.join(wt, "tests", "seed_demo.rs"))
        demo = "cargo test --offline --features %s --test seed_demo 2>&1" % feats
        rc1, out1 = sh(demo, wt, env)
        result["demo_with_patch_fails"] = rc1 != 0 and "could not compile" not in out1 and ("test result: FAILED" in out1 or "SIGABRT" in out1 or "SIGSEGV" in out1 or "panicked" in out1)
        # revert the change
        sh("git reset -q --hard HEAD", wt)
        shutil.copy(os.path.join(so, "seed_demo.rs"), os.path.join(wt, "tests", "seed_demo.rs"))
        sh("find src -name '*.rs' -exec touch {} +", wt)
        rc2, out2 = sh(demo, wt, env)
        result["demo_without_patch_passes"] = rc2 == 0 and "test result: ok" in out2
        ok = result["baseline_ok"] and result["demo_with_patch_fails"] and result["demo_without_patch_passes"]
        result["confirmed"] = ok
        if ok:
            d = os.path.join(VERIF, "seeded", name)
            os.makedirs(d, exist_ok=True)
            shutil.copy(os.path.join(so, "patch.diff"), os.path.join(d, "patch.diff"))
            shutil.copy(os.path.join(so, "seed_demo.rs"), os.path.join(d, "seed_demo.rs"))
            json.dump({
                "property": meta.get("property"),
                "summary": meta.get("summary"),
                "needs": meta.get("needs"),
                "origin": "independent sub-agent (given only the property text and a scratch worktree)",
                "demo_cmd": "cargo test --offline --features %s --test seed_demo   (with seed_demo.rs copied to tests/)" % feats,
                "confirmed_by_me": {
                    "when": time.strftime("%Y-%m-%d"),
                    "patch_applies_to_repo_head": True,
                    "baseline_default_features_with_patch": "%s passed" % (passed[0] if passed else "?"),
                    "demo_with_patch": "fails",
                    "demo_without_patch": "passes",
                },
                "agent_report": meta.get("ran"),
            }, open(os.path.join(d, "meta.json"), "w"), indent=1)
        else:
            result["tail_with"] = out1[-400:]
            result["tail_without"] = out2[-400:]
        print(json.dumps(result, indent=1))
        return 0 if ok else 1
    finally:
        subprocess.run(["git", "-C", "/repo", "worktree", "remove", "--force", wt], check=False)
        shutil.rmtree(wt, ignore_errors=True)


if __name__ == "__main__":
    sys.exit(main())
