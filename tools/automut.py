#!/usr/bin/env python3
"""Mechanical mutation sweep: a test of the CHECKS, not a check.

  tools/automut.py [-j N] [--files a.rs,b.rs] [--ops rel,eq,...] [--stride K] [--offset O] [--max M] [--list]

Generates one-token mutants of the non-test part of /repo/src (relational operators, equality,
+1/-1, min/max, &&/||, + <-> -, negated conditions, deleted call statements, weakened memory
orderings), each in a scratch copy outside /repo and /verif. A mutant that does not compile for
every feature set, or that the pinned suite (cargo test --offline --lib, default features) kills,
is discarded. Every other mutant is run against all 20 quick checks (most relevant first, stopping
at the first VIOLATION). Survivors are written to <out>/survivors.jsonl for inspection: each is
either equivalent, outside the 20 properties, or a gap in a check.

Results: /var/tmp/automut/results.jsonl (one line per mutant).
"""
import json, os, re, shutil, subprocess, sys, time
from concurrent.futures import ThreadPoolExecutor

VERIF = os.path.dirname(os.path.dirname(os.path.abspath(__file__)))
OUT = os.environ.get("AUTOMUT_OUT", "/var/tmp/automut")
FILES = ["volatile_memory.rs", "guest_memory.rs", "mmap/mod.rs", "mmap/unix.rs", "mmap/xen.rs", "io.rs", "bytes.rs", "address.rs",
         "atomic.rs", "atomic_integer.rs", "endian.rs", "bitmap/mod.rs", "bitmap/backend/atomic_bitmap.rs", "bitmap/backend/atomic_bitmap_arc.rs",
         "bitmap/backend/slice.rs"]
ALL = ["C%02d" % i for i in range(1, 21)]
REL = {
    "address.rs": ["C19", "C07", "C02", "C10"],
    "atomic.rs": ["C11", "C12"],
    "atomic_integer.rs": ["C06"],
    "bitmap/": ["C09", "C08", "C05", "C16", "C07"],
    "bytes.rs": ["C04", "C20", "C03", "C13"],
    "endian.rs": ["C20"],
    "guest_memory.rs": ["C02", "C03", "C14", "C18", "C07", "C10", "C05", "C06"],
    "io.rs": ["C13", "C14", "C18", "C05", "C04", "C06"],
    "volatile_memory.rs": ["C01", "C04", "C06", "C05", "C17", "C18", "C07", "C03"],
    "mmap/mod.rs": ["C10", "C02", "C15", "C12", "C03", "C07", "C11"],
    "mmap/unix.rs": ["C15", "C12", "C02", "C01"],
    "mmap/xen.rs": ["C15", "C17", "C12", "C18"],
}

OPS = [
    ("rel", r" < ", " <= "), ("rel", r" <= ", " < "), ("rel", r" > ", " >= "), ("rel", r" >= ", " > "),
    ("eq", r" == ", " != "), ("eq", r" != ", " == "),
    ("one", r" \+ 1\b", ""), ("one", r" - 1\b", ""),
    ("minmax", r"\bmin\(", "max("), ("minmax", r"\bmax\(", "min("),
    ("logic", r" && ", " || "), ("logic", r" \|\| ", " && "),
    ("arith", r" \+ ", " - "), ("arith", r" - ", " + "),
    ("order", r"Ordering::Release", "Ordering::Relaxed"), ("order", r"Ordering::Acquire", "Ordering::Relaxed"), ("order", r"Ordering::SeqCst", "Ordering::Relaxed"),
    ("zero", r"\b0\b(?!\.)", "1"),
]


def code_lines(path):
    """(index, line) of mutable lines: before the test module, no comments/attributes/uses."""
    lines = open(path).read().split("\n")
    end = len(lines)
    for i, l in enumerate(lines):
        if re.match(r"^(pub\(crate\) )?mod tests \{", l) or (l.startswith("#[cfg(test)]") and i + 1 < len(lines) and re.match(r"^(pub\(crate\) )?mod tests", lines[i + 1])):
            end = i
            break
    out = []
    for i in range(end):
        s = lines[i].strip()
        if not s or s.startswith(("//", "#[", "#![", "use ", "pub use ", "*", "/*")):
            continue
        out.append(i)
    return lines, out


def sites(files, ops):
    res = []
    for f in files:
        path = os.path.join("/repo/src", f)
        lines, idx = code_lines(path)
        for i in idx:
            l = lines[i]
            code = l.split("//")[0]
            for (kind, pat, rep) in OPS:
                if ops and kind not in ops:
                    continue
                for m in re.finditer(pat, code):
                    if code[:m.start()].count('"') % 2 == 1:
                        continue  # inside a string literal
                    if kind in ("rel",) and ("fn " in code or "impl" in code or "where" in code):
                        continue
                    if kind == "zero" and not re.search(r"[=<>+\-(,] ?0\b|\b0 ?[,)\];]", code):
                        continue
                    new = l[:m.start()] + rep + l[m.end():]
                    res.append({"file": f, "line": i + 1, "op": kind, "before": l.strip(), "after": new.strip(), "new_line": new})
            # negated condition
            if (not ops or "neg" in ops):
                m = re.match(r"^(\s*(?:\} else )?if )(?!let )(.+)( \{)$", code.rstrip())
                if m and "if let" not in code:
                    new = m.group(1) + "!(" + m.group(2) + ")" + m.group(3)
                    res.append({"file": f, "line": i + 1, "op": "neg", "before": l.strip(), "after": new.strip(), "new_line": new})
            # deleted call statement
            if (not ops or "del" in ops):
                if re.match(r"^\s*[a-zA-Z_][a-zA-Z0-9_:\.]*(\(\))?(\.[a-zA-Z_][a-zA-Z0-9_]*(\(\))?)*\([^;]*\);$", code.rstrip()) and not re.match(r"^\s*(return|let|assert|debug_assert|panic|unreachable)", code):
                    res.append({"file": f, "line": i + 1, "op": "del", "before": l.strip(), "after": "(deleted)", "new_line": re.match(r"^\s*", l).group(0) + "{}"})
    for k, s in enumerate(res):
        s["id"] = "a%04d" % k
    return res


def sh(cmd, cwd, env=None, timeout=1800):
    # own process group: a test binary that never returns must die with its cargo
    import signal
    p = subprocess.Popen(cmd, cwd=cwd, env=env, stdout=subprocess.PIPE, stderr=subprocess.STDOUT, text=True, start_new_session=True)
    try:
        out, _ = p.communicate(timeout=timeout)
        return p.returncode, out
    except subprocess.TimeoutExpired:
        try:
            os.killpg(p.pid, signal.SIGKILL)
        except Exception:
            pass
        try:
            p.communicate(timeout=30)
        except Exception:
            pass
        return 124, "timeout"


def run_one(s):
    t0 = time.time()
    d = os.path.join(OUT, "work", s["id"])
    shutil.rmtree(d, ignore_errors=True)
    repo = os.path.join(d, "repo")
    os.makedirs(repo)
    for name in os.listdir("/repo"):
        if name in ("target", ".git"):
            continue
        subprocess.run(["cp", "-r", os.path.join("/repo", name), os.path.join(repo, name)], check=True)
    path = os.path.join(repo, "src", s["file"])
    lines = open(path).read().split("\n")
    lines[s["line"] - 1] = s["new_line"]
    open(path, "w").write("\n".join(lines))
    env = dict(os.environ)
    env["CARGO_TARGET_DIR"] = os.path.join(d, "target")
    env["CARGO_NET_OFFLINE"] = "true"
    res = dict((k, s[k]) for k in ("id", "file", "line", "op", "before", "after"))
    status = None
    for feats in ["backend-mmap,backend-atomic,backend-bitmap,verif-hooks", "xen,backend-atomic,backend-bitmap,verif-hooks"]:
        rc, out = sh(["cargo", "check", "--offline", "--quiet", "--features", feats], repo, env, 600)
        if rc != 0:
            status = "does-not-compile"
            break
    if status is None:
        rc, out = sh(["cargo", "test", "--offline", "--quiet", "--lib"], repo, env, 900)
        if rc != 0:
            status = "killed-by-the-pinned-suite"
    shutil.rmtree(os.path.join(d, "target"), ignore_errors=True)
    if status is None:
        order = []
        for k, v in REL.items():
            if s["file"].startswith(k):
                order = list(v)
        order += [p for p in ALL if p not in order]
        machinery = []
        for prop in order:
            env2 = dict(os.environ)
            env2.update({"VERIF_REPO": repo, "VERIF_OUT": os.path.join(d, "out"), "VERIF_SCRATCH": os.path.join(d, "scratch")})
            rc, out = sh([os.path.join(VERIF, "check"), prop, "--tier", "quick"], VERIF, env2, 1500)
            if rc == 1:
                status = "detected"
                res["by"] = prop
                keys = [l.strip()[:160] for l in out.splitlines() if l.startswith("  key=")]
                res["key"] = keys[0] if keys else ""
                break
            if rc != 0:
                machinery.append(prop)
        if status is None:
            status = "survived"
        if machinery:
            res["machinery"] = machinery
    res["status"] = status
    res["wall"] = round(time.time() - t0, 1)
    shutil.rmtree(d, ignore_errors=True)
    return res


def main():
    a = sys.argv[1:]
    jobs, files, ops, stride, offset, mx, only_list = 3, FILES, None, 1, 0, None, False
    i = 0
    while i < len(a):
        if a[i] == "-j":
            jobs = int(a[i + 1]); i += 2
        elif a[i] == "--files":
            files = a[i + 1].split(","); i += 2
        elif a[i] == "--ops":
            ops = a[i + 1].split(","); i += 2
        elif a[i] == "--stride":
            stride = int(a[i + 1]); i += 2
        elif a[i] == "--offset":
            offset = int(a[i + 1]); i += 2
        elif a[i] == "--max":
            mx = int(a[i + 1]); i += 2
        elif a[i] == "--list":
            only_list = True; i += 1
        else:
            i += 1
    ss = sites(files, ops)
    sel = ss[offset::stride]
    if mx:
        sel = sel[:mx]
    if only_list:
        from collections import Counter
        print(len(ss), "sites;", len(sel), "selected;", Counter((s["op"]) for s in ss))
        return 0
    os.makedirs(OUT, exist_ok=True)
    done = set()
    rp = os.path.join(OUT, "results.jsonl")
    if os.path.exists(rp):
        for l in open(rp):
            try:
                r = json.loads(l)
                done.add((r["file"], r["line"], r["op"], r["after"]))
            except Exception:
                pass
    sel = [s for s in sel if (s["file"], s["line"], s["op"], s["after"]) not in done]
    print("running %d mutants with %d jobs" % (len(sel), jobs))
    sys.stdout.flush()
    with ThreadPoolExecutor(max_workers=jobs) as ex:
        for r in ex.map(run_one, sel):
            open(rp, "a").write(json.dumps(r) + "\n")
            if r["status"] == "survived":
                open(os.path.join(OUT, "survivors.jsonl"), "a").write(json.dumps(r) + "\n")
            print("%s %-32s %-4d %-6s %-26s %s  %s -> %s" % (r["id"], r["file"], r["line"], r["op"], r["status"] + (":" + r.get("by", "") if r.get("by") else ""), r["wall"], r["before"][:60], r["after"][:60]))
            sys.stdout.flush()
    return 0


if __name__ == "__main__":
    sys.exit(main())
