#!/usr/bin/env python3
"""Generates /verif/MANIFEST.json from the table below (single source of truth)."""
import json, os, subprocess

VERIF = os.path.dirname(os.path.dirname(os.path.abspath(__file__)))

# property -> (level, engine, technique, level text, level note, design ref)
P = {
 "C01": ("model_checking", "E1-bfs", "explicit-state BFS to a fixpoint over the accessor-derivation graph of the real API, interval reference model, guard pages, canaries and the recorded load/store traffic (hook H1) of every new accessor",
         "Closure (empty frontier) of every derivation the API offers from roots of every small size and base alignment, all arguments 0..=L+1 plus extreme and pointer-overflowing values; each transition is executed on the real crate and compared with an interval model; each new accessor is exercised (fill/read-back) inside an arena with canaries and PROT_NONE guard pages; element accessors of arrays (ref_at, load, store) are probed with every index incl. out of range; the provided trait methods over a parent outside the crate whose get_slice clips.",
         "Container sizes <= 33 bytes (mmap regions: 1, 5, 4096, 4097); state canonicalisation = (kind, type, offset, length, bitmap offset), sound because the accessor structs are Copy records of exactly these fields.", "2/C01"),
 "C02": ("exploration", "exhaustive-inputs", "exhaustive enumeration of all region layouts over a small cell universe x all queries, against an interval-set model; mmap collection and a trait-default mock implementation",
         "Every set of disjoint regions over U cells (adjacent vs merged distinguished) at several bases including the top of the address space, every query method at every address/length of the universe plus extremes; huge layouts probed at boundaries through raw regions; the trait-default mock keeps its regions in an order of its own (as given, reversed, rotated); regions carved out of one host mapping (adjacent in the host too); layouts ending at 2^64 offered to the mmap collection as well.",
         "Small universe (6..8 cells) for exhaustive part (maps built by one call, by insertions, with outside regions removed again, or from a gap-free map whose hole-filling regions are removed); large layouts only at boundary addresses. len=0 ranges recorded, not judged.", "2/C02"),
 "C03": ("model_checking", "E1-bfs", "explicit-state BFS over operation histories on real guest memory with a sparse byte-map reference model; full-memory diff after every transition",
         "All layouts over a small universe x all (op, address, length) at depth 1 and all depth-2/3 histories over a reduced alphabet, on anonymous, file-backed and Xen-UNIX regions and a trait-default mock (unordered storage), short streams that also report Interrupted, regions beyond a MiB with single transfers up to 3 MiB, one region of 64 MiB with transfers beyond 2^26 bytes; after each step every byte of every region is compared with the model.",
         "Universe of 6..7 one-byte cells; object types up to 16 bytes; ample in-memory streams (short streams belong to C14); payloads are label patterns, on the large layout also all-zero, almost-zero and all-one buffers.", "2/C03"),
 "C04": ("model_checking", "E1-bfs", "explicit-state exploration of operation histories on one container against a Vec<u8> model, depth-1 full alphabet and depth-2 route pairs",
         "All accessors x all (offset, length, type) on containers of 0..24 bytes at every misalignment, every (src mod 8, dst mod 8, len<=9) class of the small-copy routine, depth-2 product of write route x read route, depth-3 on a reduced alphabet and write / nearly identical rewrite / read histories; single transfers of 2^24+1 bytes on a 16 MiB region; container (frame included) compared byte for byte after every operation.",
         "Containers <= 24 bytes plus MmapRegion of 24/4099 bytes; stream forms starting exactly at the end accept Ok(0) or Err.", "2/C04"),
 "C05": ("model_checking", "E1-bfs", "explicit-state exploration of derivation chains x write operations x page sizes x bitmap flavours x reset histories with a diff-driven dirtiness oracle",
         "Every write path through every derivation chain of up to 2..3 links, page sizes from 1 byte to larger than the container, plain/Arc/optional/sliced bitmaps (made at size or grown by enlarge), histories interleaved with resets (whole bitmap, ranges, single pages, harvests); oracle: every byte that changed is dirty in the owning region's bitmap at its own offset; all interleavings of one tracked write (20 paths, incl. reads from a real descriptor with read(2) as a scheduling point) with a fetch-and-clear consumer.",
         "Containers of 16..24 bytes; chain depth <= 3; raw-pointer writes exempt as documented.", "2/C05"),
 "C06": ("model_checking", "E3-sched + trace enumeration", "trace enumeration of the primitive accesses of every (len, src mod 8, dst mod 8) class per entry point, and controlled-scheduler enumeration of all writer/reader interleavings at primitive-access granularity",
         "Hook H1 records width and address of every primitive volatile access issued by the byte-copy helper; for all 576 classes x entry points the access sequence is checked (single access of the full width when aligned); the same rule with the guest bytes or the local buffer at host addresses with exactly 4..46 trailing zero bits and at every aligned position of a 4 KiB page, also through slices that start off the word grid, and through guest memory whose regions start off the word grid; Cursor sinks at every position; dirty-tracked slices after histories; all interleavings of a flipping writer and a reader are enumerated and the reader must see old or new. Ordering clause: src/atomic_integer.rs compiled with loom atomics, message-passing litmus for six integer types x four ordering pairs (acquire/release strength).",
         "One naturally aligned volatile access of <= 8 bytes is a single machine access (LLVM volatile semantics + x86-64 single-copy atomicity); SC interleavings; a SeqCst access carried out as acquire/release is not detectable by the engines present (DESIGN.md section 5).", "2/C06"),
 "C07": ("exploration", "exhaustive-inputs", "exhaustive enumeration of an extreme-value alphabet over every public entry point, two build profiles, every call under catch_unwind + fault handler + hang watchdog",
         "Every access/query entry point of slices, regions, guest memory, bitmaps and stream helpers x boundary and extreme addresses/lengths/counts x layouts at the bottom and top of the address space; each call under catch_unwind plus a SIGABRT/SIGSEGV/SIGFPE handler that attributes the fault to the call, with a watchdog for calls that do not return, in the overflow-checked and in the release profile.",
         "Alphabet of boundary/extreme values, not all 2^64; program-controlled arguments (types, enlarge amounts, non-power-of-two alignments, array indices) excluded as documented.", "2/C07"),
 "C08": ("model_checking", "E3-sched", "stateless DFS over all interleavings of real threads under a controlled scheduler (hooked atomics, multinomial self-check), plus loom exploration of the same bitmap code under the C11 memory model",
         "All interleavings (unbounded for the small harnesses, preemption-bounded where stated) of 2..3 real threads marking, resetting, harvesting and cloning one AtomicBitmap whose pages share a word or straddle two words (page sizes 1..4096 bytes, tracked ranges ending in a partial page, marks and resets running past the end, slice marks on page sizes that are not a power of two, pre-marked words with two interfering changes); harnesses explored smallest schedule space first; every schedule is an execution of the real code; per-page conservation oracle plus a real-time-order oracle from recorded call/return events (a mark must be visible at the end or accounted for by a harvest/reset that returned after the mark was called). A second engine, loom, enumerates every C11-consistent execution (interleavings and weak-memory reorderings) of smaller harnesses on the bitmap source compiled from the tree with loom's atomics.",
         "E3: SC interleavings of whole atomic operations, interception by type through hook H2. loom: its model of the C11 memory model; the bitmap source is copied from the tree with only the atomic import switched.", "2/C08"),
 "C09": ("model_checking", "E1-bfs", "explicit-state BFS to a fixpoint over all public bitmap operations on tiny bitmaps, BTreeSet page-set model; exhaustive ranges on word-boundary configurations",
         "Closure over all operation sequences on bitmaps of <= 6 pages (state = complete concrete bitmap state), plus every (start,len) from boundary alphabets on 63..129-page and non-power-of-two configurations; model comparison of every observable after every step; all histories of 3..4 operations over a reduced alphabet without merging states; geometries within a page of usize::MAX; clone_from into larger bitmaps.",
         "enlarge() bounded in total growth; page sizes {1,2,3} for the closure; on the huge geometries page numbers beyond the count (also those whose address overflows) are marked and cleared and must change nothing; marks and lookups through slice views whose base plus offset leaves the address space must agree.", "2/C09"),
 "C10": ("model_checking", "E1-bfs", "explicit-state BFS to a fixpoint over insert/remove/build on real mmap regions, interval-list model, ancestors kept alive and re-checked",
         "From every reachable map: every insert interval of the universe, every region handle already held by the map or an ancestor, every (base,size) removal, every ordered build list of <= 3 intervals and lists with a repeated handle, the same lists through from_ranges / from_ranges_with_files with shared-file windows; all constructors, file-backed too, agree at the top of the address space; documented error classes; parent and all ancestor maps re-read after every transition.",
         "Universe of 6 (quick) or 11 (thorough) cells at three bases; the map without regions (from new() and from removals) is a state of the search.", "2/C10"),
 "C11": ("model_checking", "E3-sched + E1-bfs", "controlled-scheduler enumeration of updater/reader interleavings at ArcSwap/Mutex-operation granularity, plus BFS over sequential handle histories",
         "All interleavings within a preemption bound (stated) of updaters (lock, derive, replace) and readers (snapshot, read, clone, convert, drop); snapshot == exactly one published map (maps identified by start and region instance; updates insert, remove - down to the empty map - or swap a region for a fresh one of the same range; an updater may panic while holding the update lock, updates also run from destructors during unwinding, updates may be given up; concurrent updates from destructors), no lost replacement, monotonic visibility, memory still mapped; sequential histories to depth 6.",
         "arc_swap internals execute for real but ArcSwap::load/store are treated as atomic steps; SC. Sequential BFS: histories of up to 3 (thorough 4) operations are expanded without merging.", "2/C11"),
 "C12": ("model_checking", "E1-bfs + interposed mmap log + compile-fail grid", "explicit-state BFS over create/share/drop histories with link-time interposed mmap/munmap log; compile-fail grid for lifetimes",
         "All histories to depth 6 (quick) or 8 (thorough) over 3 region kinds and all drop orders; mapped iff an owner is alive, munmap exactly once with the mapped (addr,len), external mappings never unmapped; the mapping log replayed as an address-space model (no page mapped for a region may outlive its owners); size sweep 1 byte .. 1 GiB (thorough 4 GiB, incl. exact multiples of 1 GiB) x drop orders of five owners; creations that fail half-way under one mmap / lseek fault leave nothing mapped; builder sweep over protections x flag words x sizes x backing (mlock/madvise/mprotect interposed and failed one at a time); std and Xen builds. A generated grid of escaping-accessor programs must be rejected by rustc while each non-escaping twin compiles.",
         "'All client programs' rests on the enumerated grid + Rust's borrow checker. Replace histories: shrinking and growing replacements and copies brought up to date with clone_from, all drop orders of the owners.", "2/C12"),
 "C13": ("exploration", "exhaustive-inputs", "exhaustive enumeration of (stream length, position, buffer length) x call sequences per adapter against the std::io twin",
         "Every adapter the crate provides x every stream length 0..20, cursor position incl. past-the-end and u64::MAX, buffer length 0..20 x sequences of up to 3 (thorough 4) calls, single transfers up to 2^21 (thorough 2^24) bytes, plain and exact forms; descriptor adapters also under short and EINTR-interrupted system calls, wrong access modes and datagram sockets; same count, bytes, remaining stream state and error kind as std.",
         "TcpStream/Stdout exercised only where the sandbox allows; stream state after a failed read_exact not compared (std leaves it open); after a failed write_all it is compared.", "2/C13"),
 "C14": ("fault_enumeration", "E2-choice-tree", "choice-tree DFS over all fault scripts (short/zero/EINTR*/error) of the underlying stream, scripted adapters and interposed read/write syscalls",
         "Every script of per-call behaviours up to the length bound for three targets (slice, region, guest memory spanning two regions and a hole), all four transfer forms plus the trait-level exact forms; transfer model: EINTR retried (also 33, 64 and 1000 times in a row), transfers of up to 3 MiB with short calls around 2^20 and failing calls, host byte buffers as readers, errors surface, no byte lost or duplicated.",
         "Scripts up to 5 calls, EINTR runs up to 3; counts {0,1,5,8,9,13}; host byte buffers as readers and as writers (room for fewer / as many / more bytes, second transfer into the same buffer).", "2/C14"),
 "C15": ("fault_enumeration", "exhaustive-inputs + fault injection", "exhaustive enumeration of construction requests (sizes x file lengths x offsets x flag words incl. all Xen flag bytes) with injected mmap/ioctl failures, interposed mapping log",
         "Acceptance predicate from the statement; attribute echo on success; nothing left mapped on failure (interposed log); sequences of file lengths through one FileOffset lineage; every length query answered with EIO / 0 / 2^40; shared file coherence byte by byte; file offsets around 2^31, 2^32, 2^33 in a sparse file; the descriptor's cursor left anywhere; explicit flag and protection words echoed for every Xen mapping type; anonymous builder x hugetlbfs hint x sizes around 2 MiB multiples, refusals compared with the kernel's own answer; Xen: all 256 low flag bytes and every high bit, emulated devices, injected failures.",
         "Emulated gntdev/privcmd; safe requests the OS refuses may fail. External pointers x hugetlbfs hint x every page of an arena; Xen UNIX-type ranges that name a file x anonymous flag words x file ranges.", "2/C15"),
 "C16": ("model_checking", "E1-bfs", "same exploration as C05 with the precision oracle (dirty set after == before U pages of written bytes)",
         "Same cases as C05; read-type operations, derivations, queries, rejected requests mark nothing; successful writes mark exactly the overlapping pages; reset / reset-range / fetch-and-clear clear exactly the named pages and report exactly what was dirty (also on bitmaps of two and three words); the failed-descriptor-read exception is encoded; descriptor reads through guest memory, the owning region and its slice.",
         "As C05; the expected page set is computed from the tracked byte size, never from the page count the bitmap reports.", "2/C05-C16"),
 "C17": ("model_checking", "exhaustive-inputs + histories on emulated grant device", "exhaustive enumeration of accessor kinds x types x counts (guards) and BFS over access histories on an emulated on-demand grant device (interposed ioctl/mmap)",
         "Guard len/ptr for every accessor kind, T of 1..16 bytes, counts 0..9; on the emulated device every access operation at page-crossing offsets must run inside windows covering all touched bytes and leave no window behind, also when any one mmap call or map-grant request of the operation fails (deviation bound 1); transfers to and from real descriptors issue read(2)/write(2) only on buffers inside a window that is live at that moment; the operations also run through slices derived by every derivation the API offers; copies from ordinary memory into the region.",
         "gntdev emulated at the ioctl contract level; one on-demand region of 2^16+3 pages (sparse) for guards spanning more than 2^16 pages; array copies from / to host buffers shorter and longer than the array.", "2/C17"),
 "C18": ("exploration", "exhaustive-inputs", "exhaustive enumeration of zero-length forms x layers x address classes x ZST types (std and Xen builds)",
         "All zero-length forms at slice, region and guest-memory level (maps of no, one, two and three regions) at mapped/last/one-past/hole/0/u64::MAX addresses, empty containers, zero-sized element types; must be Ok, no panic, memory and bitmap unchanged, no device window requested; zero-count transfers with streams that report Interrupted first or refuse every call (exact forms).",
         "Panics are caught per form; aborts and faults are attributed by the signal handler; zero-sized elements also through VolatileRef / VolatileArrayRef load, store and ref_at at every offset.", "2/C18"),
 "C19": ("exploration", "exhaustive-inputs", "exhaustive enumeration of all operand pairs at width 8 (macro re-instantiated from the tree) and boundary grids at width 64 against u128 arithmetic",
         "impl_address_ops! from the current tree instantiated at width 8 (all 2^16 pairs per operation) and 16 (thorough, all 2^32); GuestAddress/MemoryRegionAddress at width 64 on the +-4 grid around 0, 2^8.. 2^64 squared and all 64 alignments.",
         "Width 64 is covered by a boundary grid, not exhaustively; genericity of the macro over the width.", "2/C19"),
 "C20": ("exploration", "exhaustive-inputs", "exhaustive enumeration of all 16-bit values (and all 32-bit in thorough), structured byte alphabet for 64-bit, against to_le_bytes/to_be_bytes",
         "Round trip, in-memory bytes, equality both ways, size/alignment and bytes found in guest memory after write_obj for all eight wrappers; placement at every offset, objects across regions, records of wrappers, typed copies of 1..257 wrappers at every address mod 8, overlapping moves of stored wrappers, wire bytes through host byte buffers at every offset within a word and through std writers / readers that move a few bytes per call.",
         "64-bit coverage is a bounded alphabet (6^8 byte patterns + rotations + single bits).", "2/C20"),
}

IMPLEMENTED = os.environ.get("VERIF_IMPLEMENTED", "").split(",") if os.environ.get("VERIF_IMPLEMENTED") else None


def implemented():
    if IMPLEMENTED is not None:
        return IMPLEMENTED
    p = os.path.join(VERIF, "tools", "implemented.txt")
    return [l.strip() for l in open(p) if l.strip() and not l.startswith("#")]


def main():
    impl = implemented()
    hooks = subprocess.run(["git", "-C", "/repo", "log", "--format=%H %s", "--grep", "^verif-hooks:"],
                           stdout=subprocess.PIPE, text=True).stdout.strip().splitlines()
    checks = []
    for pid in sorted(P):
        if pid not in impl:
            continue
        level, engine, tech, text, note, ref = P[pid]
        checks.append({
            "property_id": pid,
            "quick_cmd": "./check %s --tier quick" % pid,
            "thorough_cmd": "./check %s --tier thorough" % pid,
            "evidence_file": "/verif/evidence/%s.json" % pid,
            "replay_cmd_template": "./check %s --replay {path}" % pid,
            "engine": engine,
            "level_claimed": {"category": level, "text": text, "design_ref": "DESIGN.md section " + ref},
            "level_note": note,
            "technique": tech,
        })
    na = [{"property_id": pid, "reason": "check not built yet in this round (planned, see DESIGN.md section 2); nothing is claimed for it"}
          for pid in sorted(P) if pid not in impl]
    m = {
        "version": 1,
        "setup_cmd": "./setup.sh",
        "hooks": {
            "guard": "cargo feature `verif-hooks` of vm-memory (default off)",
            "enable": "the harness crate depends on vm-memory by path with features [rawfd, backend-mmap, backend-atomic, backend-bitmap, verif-hooks] (+ xen for the Xen binary); ./check runs cargo build, which recompiles /repo's working tree",
            "baseline_off_cmd": "cd /repo && cargo test --workspace --no-fail-fast --offline",
            "source_commits": [h.split()[0] for h in hooks],
            "add_only": True,
        },
        "engines": [
            {"name": "E1-bfs", "path": "harness/src/props (per-property BFS loops)", "serves_properties": ["C01", "C03", "C04", "C05", "C09", "C10", "C11", "C12", "C16", "C17"],
             "kind_free_text": "explicit-state breadth-first search; transitions call the real API, every transition compared with a reference model, states deduplicated by canonical form"},
            {"name": "E2-choice-tree", "path": "harness/src/explore.rs", "serves_properties": ["C14", "C08", "C11", "C06"],
             "kind_free_text": "stateless choice-tree DFS by re-execution with a deviation bound (preemptions / non-default environment answers)"},
            {"name": "E3-sched", "path": "harness/src/sched.rs", "serves_properties": ["C08", "C11", "C06"],
             "kind_free_text": "controlled scheduler over real OS threads; scheduling points at every hooked atomic / lock / swap / volatile access"},
            {"name": "loom", "path": "harness/loomcheck", "serves_properties": ["C08", "C06"],
             "kind_free_text": "loom 0.7 (C11 memory model) over src/bitmap/backend/atomic_bitmap.rs and src/atomic_integer.rs copied from the tree with loom atomics"},
            {"name": "exhaustive-inputs", "path": "harness/src/props", "serves_properties": ["C02", "C07", "C13", "C15", "C18", "C19", "C20"],
             "kind_free_text": "complete enumeration of a stated finite input space against a reference model"},
        ],
        "checks": checks,
        "not_applicable": na,
        "notes": "All checks execute the real crate code; see DESIGN.md. known_findings.json lists recorded defects and fix: commits.",
    }
    if not na:
        m.pop("not_applicable")
    json.dump(m, open(os.path.join(VERIF, "MANIFEST.json"), "w"), indent=1)
    open(os.path.join(VERIF, "MANIFEST.json"), "a").write("\n")
    print("MANIFEST.json: %d checks, %d not claimed" % (len(checks), len(na)))


if __name__ == "__main__":
    main()
