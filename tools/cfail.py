#!/usr/bin/env python3
"""C12, 'programs' half: a generated grid of client programs that would let an accessor outlive
the memory it came from. Every escaping cell must be rejected by the borrow checker of rustc,
compiled against the vm-memory rlib built from the current tree; its non-escaping twin (same
statements, the use moved before the drop/move/return) must compile, so that a rejection is not
vacuous.

  tools/cfail.py <deps-dir> <out-dir> <evidence-part-path> [--tier quick|thorough]
"""
import glob, hashlib, json, os, re, subprocess, sys, time
from concurrent.futures import ThreadPoolExecutor

PRELUDE = """#![allow(unused, unused_mut, unused_unsafe)]
use std::sync::atomic::{AtomicU32, Ordering};
use vm_memory::volatile_memory::VolatileMemory;
use vm_memory::{ByteValued, Bytes, GuestAddress, GuestAddressSpace, GuestMemory, GuestMemoryAtomic, GuestMemoryMmap,
                GuestMemoryRegion, GuestRegionMmap, MemoryRegionAddress, MmapRegion, VolatileSlice};
"""

# owner: (name, setup statements, owner variable)
OWNERS = {
    "buffer": ("let mut owner = vec![0u8; 64];", "owner"),
    "region": ("let owner = MmapRegion::<()>::new(4096).unwrap();", "owner"),
    "guest_region": ("let owner = GuestRegionMmap::<()>::from_range(GuestAddress(0), 4096, None).unwrap();", "owner"),
    "guest_memory": ("let owner = GuestMemoryMmap::<()>::from_ranges(&[(GuestAddress(0), 4096)]).unwrap();", "owner"),
    "atomic": ("let owner = GuestMemoryAtomic::new(GuestMemoryMmap::<()>::from_ranges(&[(GuestAddress(0), 4096)]).unwrap());", "owner"),
    "snapshot": ("let atomic = GuestMemoryAtomic::new(GuestMemoryMmap::<()>::from_ranges(&[(GuestAddress(0), 4096)]).unwrap()); let owner = atomic.memory();", "owner"),
}

SL = "VolatileSlice::from(&mut owner[..])"
# (producer name, owner, accessor expression, use expression on `acc`)
CELLS = [
    ("VolatileSlice::from(&mut [u8])", "buffer", SL, "acc.len()"),
    ("VolatileSlice::subslice", "buffer", SL + ".subslice(0, 8).unwrap()", "acc.len()"),
    ("VolatileSlice::offset", "buffer", SL + ".offset(4).unwrap()", "acc.len()"),
    ("VolatileSlice::split_at", "buffer", SL + ".split_at(8).unwrap().1", "acc.len()"),
    ("VolatileRef::to_slice", "region", "owner.get_ref::<u32>(0).unwrap().to_slice()", "acc.len()"),
    ("VolatileArrayRef from slice", "buffer", "vm_memory::VolatileArrayRef::<u8, ()>::from(" + SL + ")", "acc.len()"),
    ("MmapRegion::get_slice", "region", "owner.get_slice(0, 8).unwrap()", "acc.len()"),
    ("MmapRegion::as_volatile_slice", "region", "owner.as_volatile_slice()", "acc.len()"),
    ("MmapRegion::get_ref", "region", "owner.get_ref::<u32>(0).unwrap()", "acc.load()"),
    ("MmapRegion::get_array_ref", "region", "owner.get_array_ref::<u16>(0, 4).unwrap()", "acc.len()"),
    ("MmapRegion::get_atomic_ref", "region", "owner.get_atomic_ref::<AtomicU32>(0).unwrap()", "acc.load(Ordering::SeqCst)"),
    ("MmapRegion::aligned_as_ref", "region", "unsafe { owner.aligned_as_ref::<u32>(0).unwrap() }", "*acc"),
    ("MmapRegion::aligned_as_mut", "region", "unsafe { owner.aligned_as_mut::<u32>(0).unwrap() }", "*acc"),
    ("VolatileArrayRef::ref_at", "region", "owner.get_array_ref::<u16>(0, 4).unwrap().ref_at(1)", "acc.load()"),
    ("VolatileArrayRef::to_slice", "region", "owner.get_array_ref::<u16>(0, 4).unwrap().to_slice()", "acc.len()"),
    ("MmapRegion::bitmap", "region", "owner.bitmap()", "*acc"),
    ("GuestRegionMmap::get_slice", "guest_region", "GuestMemoryRegion::get_slice(&owner, MemoryRegionAddress(0), 8).unwrap()", "acc.len()"),
    ("GuestRegionMmap::as_volatile_slice", "guest_region", "GuestMemoryRegion::as_volatile_slice(&owner).unwrap()", "acc.len()"),
    ("GuestRegionMmap::bitmap", "guest_region", "GuestMemoryRegion::bitmap(&owner)", "*acc"),
    ("GuestMemory::find_region", "guest_memory", "owner.find_region(GuestAddress(0)).unwrap()", "acc.len()"),
    ("GuestMemory::to_region_addr", "guest_memory", "owner.to_region_addr(GuestAddress(8)).unwrap()", "acc.0.len()"),
    ("GuestMemory::get_slice", "guest_memory", "owner.get_slice(GuestAddress(0), 8).unwrap()", "acc.len()"),
    ("GuestMemory::iter", "guest_memory", "owner.iter()", "acc.count()"),
    ("GuestMemoryAtomic::lock guard", "atomic", "owner.lock().unwrap()", "drop(acc)"),
    ("GuestMemoryLoadGuard deref", "snapshot", "&*owner", "acc.num_regions()"),
    ("snapshot region", "snapshot", "owner.find_region(GuestAddress(0)).unwrap()", "acc.len()"),
]

BORROW_CODES = {"E0505", "E0515", "E0597", "E0716", "E0506", "E0499", "E0502", "E0503", "E0521", "E0713", "E0712", "E0310", "E0759"}


def programs(cell):
    name, owner, acc, use = cell
    setup, var = OWNERS[owner]
    out = []
    # 2: drop the owner while the accessor is used afterwards
    out.append(("drop-owner", f"fn main() {{ {setup} let acc = {acc}; drop({var}); let _x = {use}; }}",
                f"fn main() {{ {setup} let acc = {acc}; let _x = {use}; drop({var}); }}"))
    # 3: move the owner while the accessor is used afterwards
    out.append(("move-owner", f"fn main() {{ {setup} let acc = {acc}; let _moved = {var}; let _x = {use}; }}",
                f"fn main() {{ {setup} let acc = {acc}; let _x = {use}; let _moved = {var}; }}"))
    # 1: let the accessor leave the scope that owns the memory
    out.append(("leave-scope", f"fn main() {{ let acc; {{ {setup} acc = {acc}; }} let _x = {use}; }}",
                f"fn main() {{ {{ {setup} let acc = {acc}; let _x = {use}; }} }}"))
    # 1': return it from the function that owns the memory
    out.append(("return-from-owner", f"fn escape() -> impl Sized + 'static {{ {setup} let acc = {acc}; acc }} fn main() {{ let _ = escape(); }}",
                f"fn keep() -> usize {{ {setup} let acc = {acc}; let _x = {use}; 0 }} fn main() {{ let _ = keep(); }}"))
    return [(name, pat, esc, twin) for (pat, esc, twin) in out]


def compile_one(src, deps, rlib, workdir, tag):
    path = os.path.join(workdir, tag + ".rs")
    open(path, "w").write(PRELUDE + src + "\n")
    cmd = ["rustc", "--edition", "2021", "--crate-type", "bin", "--emit=metadata", "-L", "dependency=" + deps,
           "--extern", "vm_memory=" + rlib, path, "--out-dir", workdir, "--error-format=short", "-Awarnings"]
    r = subprocess.run(cmd, stdout=subprocess.PIPE, stderr=subprocess.STDOUT, text=True)
    codes = set(re.findall(r"error\[(E\d+)\]", r.stdout))
    return r.returncode, codes, r.stdout[-600:], path


def main():
    deps, out, evpath = sys.argv[1], sys.argv[2], sys.argv[3]
    tier = "quick"
    if "--tier" in sys.argv:
        tier = sys.argv[sys.argv.index("--tier") + 1]
    t0 = time.time()
    rlibs = sorted(glob.glob(os.path.join(deps, "libvm_memory-*.rlib")), key=os.path.getmtime)
    if not rlibs:
        print("MACHINERY: no vm_memory rlib in %s" % deps)
        return 2
    rlib = rlibs[-1]
    workdir = os.path.join(out, "cfail-work")
    os.makedirs(workdir, exist_ok=True)
    jobs = []
    for cell in CELLS:
        for (name, pat, esc, twin) in programs(cell):
            tag = hashlib.sha1((name + pat).encode()).hexdigest()[:10]
            jobs.append((name, pat, esc, twin, tag))
    results = []
    with ThreadPoolExecutor(max_workers=16) as ex:
        futs = [(j, ex.submit(compile_one, j[2], deps, rlib, workdir, "esc_" + j[4]), ex.submit(compile_one, j[3], deps, rlib, workdir, "twin_" + j[4])) for j in jobs]
        for j, fe, ft in futs:
            results.append((j, fe.result(), ft.result()))
    violations, machinery, samples = [], [], []
    rejected = 0
    os.makedirs(os.path.join(out, "replays"), exist_ok=True)
    for (name, pat, esc, twin, tag), (rc_e, codes_e, out_e, path_e), (rc_t, codes_t, out_t, _) in results:
        if rc_t != 0:
            machinery.append("twin of (%s, %s) does not compile: %s" % (name, pat, out_t.strip().splitlines()[:3]))
            continue
        if rc_e == 0:
            rp = os.path.join(out, "replays", "C12-cfail-%s.rs" % tag)
            open(rp, "w").write(PRELUDE + esc + "\n")
            violations.append((name, pat, rp))
        elif not (codes_e & BORROW_CODES) and "lifetime may not live long enough" not in out_e and "does not live long enough" not in out_e:
            machinery.append("(%s, %s) is rejected, but not by the borrow checker: %s" % (name, pat, sorted(codes_e)))
        else:
            rejected += 1
            if len(samples) < 4:
                samples.append({"producer": name, "pattern": pat, "program": esc, "rejected_with": sorted(codes_e)})
    for name, pat, rp in violations:
        print("  key=C12/programs/%s/%s detail=a program that lets the accessor outlive its memory compiles" % (name, pat))
        print("VIOLATION property=C12 replay=%s" % rp)
    for m in machinery:
        print("MACHINERY: " + m)
    ev = {
        "property_id": "C12", "tier": tier, "seed": int(os.environ.get("VERIF_SEED", "0") or 0), "level": "model_checking",
        "coverage": {"programs": 2 * len(jobs), "compile_fail_cells": len(jobs), "cells_rejected_by_borrow_checker": rejected,
                     "producers": len(CELLS), "patterns": ["drop-owner", "move-owner", "leave-scope", "return-from-owner"],
                     "states": 0, "transitions": 0, "traces_validated_against_impl": 0,
                     "rule": "compile-fail grid: %d accessor producers x 4 escape patterns, each with a compiling non-escaping twin, against the rlib built from the current tree" % len(CELLS),
                     "samples": samples, "violation_keys": ["C12/programs/%s/%s" % (n, p) for n, p, _ in violations]},
        "assumptions": ["rejection by rustc's borrow checker of the enumerated grid stands for 'no client program'; pointer guards hand out raw pointers and are exempt by the statement"],
        "wall_s": round(time.time() - t0, 3), "violations": len(violations), "_part": "cfail",
    }
    json.dump(ev, open(evpath, "w"), indent=1)
    print("SUMMARY property=C12 part=compile-fail-grid cells=%d rejected=%d violations=%d wall_s=%.1f" % (len(jobs), rejected, len(violations), time.time() - t0))
    for f in glob.glob(os.path.join(workdir, "*")):
        try:
            os.remove(f)
        except OSError:
            pass
    if machinery:
        return 2
    return 1 if violations else 0


if __name__ == "__main__":
    sys.exit(main())
