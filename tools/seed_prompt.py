#!/usr/bin/env python3
"""Writes the prompt files for a round of seeded-change sub-agents.

  tools/seed_prompt.py <round-dir> <Cxx>=<what earlier rounds changed> ...

Each agent gets only the text of one property and its own scratch worktree <round-dir>/<Cxx>
(create it first: git -C /repo worktree add --detach <round-dir>/<Cxx> HEAD); nothing from /verif.
"""
import json, sys

T = '''You are helping to test a verification harness for the Rust crate rust-vmm/vm-memory (a library for safe volatile access to VM guest memory). Your job: produce ONE realistic source change ("seeded defect") to the crate that BREAKS the property stated below, while the crate still compiles and its existing test suite still passes.

Work ONLY inside your own scratch git worktree of the repository: {WT}  (it is a checkout of the crate; do not touch /repo, do not read or use anything under /verif, do not commit anything, and NEVER use `git stash` - other agents work in sibling worktrees and the stash is shared).

Requirements for the change:
1. It must break the stated property, and it must be HARD to expose: it should need a history of at least three operations, or one particular interleaving / fault point, or a rare combination of two or three parameters (sizes, alignments, counts, flags, types), or two cooperating sites that each look fine alone. A check that tries each operation once from a fresh state, with small regular sizes, should NOT see it. Do NOT make a change that ordinary use would expose at once.
2. It must look like a plausible refactoring slip, optimisation, caching or "simplification" a real contributor could make (a few lines, in the crate's src/ directory; do not touch tests, Cargo.toml or src/verif_hooks.rs).
   Earlier rounds already changed {AVOID}; choose a DIFFERENT function / mechanism that the property also depends on.
3. The crate must still compile with every feature set:  cargo build --offline ; cargo build --offline --features backend-mmap,backend-atomic,backend-bitmap ; cargo build --offline --features xen,backend-atomic,backend-bitmap
4. The existing tests must still pass with the change:  `cargo test --offline` (default features, 81 unit tests) must be all green. Also run `cargo test --offline --features backend-mmap,backend-atomic,backend-bitmap --lib` and report its result (it should pass too; if a test there fails, choose a different change).
5. Provide a DEMONSTRATION: a self-contained Rust integration test file that FAILS with your change and PASSES on the unmodified tree. Put it at {WT}/tests/seed_demo.rs while you work, and give the exact cargo command to run it. Verify both directions yourself: save your change with `git diff -- src > {WT}.mychange.diff`, revert with `git checkout -- src`, re-apply with `git apply {WT}.mychange.diff`.
The network is unavailable: always pass --offline to cargo. Use a private target dir: export CARGO_TARGET_DIR={WT}/target

Deliverables (create the directory {WT}/seed_out/):
- {WT}/seed_out/patch.diff : output of `git diff -- src` for your change only (the demo test must NOT be part of this diff)
- {WT}/seed_out/seed_demo.rs : the demonstration test file (a copy of tests/seed_demo.rs)
- {WT}/seed_out/meta.json : JSON with keys "property" (the id), "summary" (one sentence: what the change does), "needs" (what specific input/schedule/history/fault is required for the breakage to manifest), "demo_cmd" (command to run the demo, of the form `cargo test --offline --features <features> --test seed_demo`), "ran" (what you ran and the results).
Finish by leaving the worktree with your src change APPLIED (uncommitted) and tests/seed_demo.rs present. In your final answer summarise the change in 3-5 lines.

The property to break:
'''


def main():
    rd = sys.argv[1]
    props = {}
    for l in open('/verif/properties.jsonl'):
        p = json.loads(l)
        props[p['id']] = p
    for a in sys.argv[2:]:
        pid, avoid = a.split('=', 1)
        p = props[pid]
        t = T.replace('{WT}', '%s/%s' % (rd, pid)).replace('{AVOID}', avoid)
        t += "Property %s: %s\n\nStatement: %s\n\nQuantification: %s\n" % (pid, p['title'], p['statement'], p['quantifier']['text'])
        open('%s/%s.full.txt' % (rd, pid), 'w').write(t)
        print('%s/%s.full.txt' % (rd, pid))


main()
