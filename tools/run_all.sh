#!/bin/sh
# Runs every registered check once (tier $1, default quick) and prints one line per check.
cd "$(dirname "$0")/.."
tier=${1:-quick}
rc=0
for p in $(cat tools/implemented.txt); do
  start=$(date +%s)
  out=$(./check $p --tier $tier 2>&1); code=$?
  end=$(date +%s)
  echo "$p exit=$code $((end-start))s $(echo "$out" | grep -c '^KNOWN-FINDING') known $(echo "$out" | grep -c '^VIOLATION') violations"
  [ $code -ne 0 ] && { rc=1; echo "$out" | grep -E "VIOLATION|MACHINERY|key=" | head -5; }
done
exit $rc
