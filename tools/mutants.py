#!/usr/bin/env python3
"""Runs checks against property-breaking (and equivalent-control) patches in scratch copies.

  tools/mutants.py [-j N] [--tier quick] [--props C08,C09] [ids...]

For every selected mutant: copy /repo (without target/.git) to a scratch dir outside /repo and
/verif, apply the patch, run ./check <property> with VERIF_REPO/VERIF_OUT pointing at the
scratch, record exit status and verdict lines, remove the scratch dir (sources + build output).
Expected: breaking mutants -> exit 1 with a VIOLATION line; equivalent controls -> exit 0.
Also accepts seeded changes under /verif/seeded/<id>/ (patch.diff + meta.json).
"""
import json, os, shutil, subprocess, sys, time
from concurrent.futures import ThreadPoolExecutor

VERIF = os.path.dirname(os.path.dirname(os.path.abspath(__file__)))
SCRATCH = os.environ.get("VERIF_MUT_SCRATCH", "/var/tmp/verif-mut")


def load_index():
    out = []
    for l in open(os.path.join(VERIF, "mutants", "index.jsonl")):
        l = l.strip()
        if l:
            m = json.loads(l)
            m["patch"] = os.path.join(VERIF, "mutants", m["id"] + ".patch")
            out.append(m)
    sd = os.path.join(VERIF, "seeded")
    if os.path.isdir(sd):
        for d in sorted(os.listdir(sd)):
            mp = os.path.join(sd, d, "meta.json")
            if os.path.exists(mp):
                meta = json.load(open(mp))
                out.append({"id": d, "property": meta["property"], "kind": "undetected-limit" if meta.get("expected_undetected") else "breaking",
                            "description": meta.get("summary", ""), "patch": os.path.join(sd, d, "patch.diff"),
                            "also": meta.get("also_checks", [])})
    return out


def run_one(m, tier, props_override=None):
    mid = m["id"]
    d = os.path.join(SCRATCH, mid)
    shutil.rmtree(d, ignore_errors=True)
    repo = os.path.join(d, "repo")
    os.makedirs(repo)
    for name in os.listdir("/repo"):
        if name in ("target", ".git"):
            continue
        src = os.path.join("/repo", name)
        # cp -r gives fresh mtimes (see memory note on stale cargo builds)
        subprocess.run(["cp", "-r", src, os.path.join(repo, name)], check=True)
    r = subprocess.run(["patch", "-p1", "--no-backup-if-mismatch", "-i", m["patch"]], cwd=repo,
                       stdout=subprocess.PIPE, stderr=subprocess.STDOUT, text=True)
    if r.returncode != 0:
        shutil.rmtree(d, ignore_errors=True)
        return {"id": mid, "error": "patch failed: " + r.stdout[-300:]}
    results = {}
    props = props_override or [m["property"]] + m.get("also", [])
    for prop in props:
        env = dict(os.environ)
        env["VERIF_REPO"] = repo
        env["VERIF_OUT"] = os.path.join(d, "out")
        env["VERIF_SCRATCH"] = os.path.join(d, "scratch")
        t0 = time.time()
        try:
            r = subprocess.run([os.path.join(VERIF, "check"), prop, "--tier", tier], env=env,
                               stdout=subprocess.PIPE, stderr=subprocess.STDOUT, text=True, timeout=1800)
        except subprocess.TimeoutExpired as te:
            class R: pass
            r = R(); r.returncode = 2; r.stdout = "MACHINERY: check did not finish within 1800 s\n" + (te.stdout or "")[-300:] if isinstance(te.stdout, str) else "MACHINERY: check did not finish within 1800 s\n"
        lines = [l for l in r.stdout.splitlines() if l.startswith(("VIOLATION", "KNOWN-FINDING", "MACHINERY", "  key="))]
        results[prop] = {"exit": r.returncode, "lines": lines[:6], "wall": round(time.time() - t0, 1),
                         "tail": r.stdout[-400:] if r.returncode == 2 else ""}
    shutil.rmtree(d, ignore_errors=True)
    return {"id": mid, "kind": m["kind"], "property": m["property"], "description": m["description"], "results": results}


def main():
    args = sys.argv[1:]
    jobs, tier, props, ids, override = 3, "quick", None, [], None
    i = 0
    while i < len(args):
        if args[i] == "-j":
            jobs = int(args[i + 1]); i += 2
        elif args[i] == "--tier":
            tier = args[i + 1]; i += 2
        elif args[i] == "--props":
            props = args[i + 1].split(","); i += 2
        elif args[i] == "--run-props":
            override = args[i + 1].split(","); i += 2
        else:
            ids.append(args[i]); i += 1
    ms = load_index()
    if ids:
        ms = [m for m in ms if m["id"] in ids]
    if props:
        ms = [m for m in ms if m["property"] in props]
    os.makedirs(SCRATCH, exist_ok=True)
    bad = 0
    with ThreadPoolExecutor(max_workers=jobs) as ex:
        for res in ex.map(lambda m: run_one(m, tier, override), ms):
            if "error" in res:
                print("%-6s ERROR %s" % (res["id"], res["error"]))
                bad += 1
                continue
            for prop, r in res["results"].items():
                want = 1 if res["kind"] == "breaking" else 0
                primary = prop == res["property"]
                ok = (r["exit"] == want) if primary else (r["exit"] in (0, 1))
                verdict = "ok  " if ok else "MISS" if want == 1 else "FALSE-ALARM"
                if res["kind"] == "undetected-limit":
                    verdict = "LIMIT (documented, not detected)" if r["exit"] == 0 else "ok (detected after all)"
                    ok = True
                if r["exit"] == 2:
                    verdict = "MACHINERY"
                if not ok and res["kind"] != "undetected-limit":
                    bad += 1
                print("%-6s %-4s %-18s exit=%d %-11s %5.1fs  %s" % (res["id"], prop, res["kind"], r["exit"], verdict, r["wall"], res["description"][:70]))
                for l in r["lines"][:3]:
                    print("         " + l[:200])
                if r["tail"]:
                    print("         " + r["tail"].replace("\n", "\n         "))
            sys.stdout.flush()
    print("unexpected results: %d" % bad)
    return 1 if bad else 0


if __name__ == "__main__":
    sys.exit(main())
