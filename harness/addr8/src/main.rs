//! C19 at width 8 and 16 (see Cargo.toml). Writes its own evidence part and VIOLATION lines.

#[path = "../../src/report.rs"]
mod report;

use report::{Ctx, Tier};
use serde_json::json;

#[allow(dead_code, unused_imports, clippy::all)]
mod copy {
    include!(concat!(env!("OUT_DIR"), "/address_copy.rs"));

    #[derive(Clone, Copy, Debug, Eq, PartialEq, Ord, PartialOrd)]
    pub struct A8(pub u8);
    impl_address_ops!(A8, u8);

    #[derive(Clone, Copy, Debug, Eq, PartialEq, Ord, PartialOrd)]
    pub struct A16(pub u16);
    impl_address_ops!(A16, u16);
}


use copy::{A16, A8};

/// Checks every operation for one operand pair at width `bits`, given closures over the real ops.
macro_rules! check_pair {
    ($ctx:expr, $name:expr, $T:ident, $V:ty, $bits:expr, $a:expr, $b:expr, $tr:path) => {{
        use $tr as Tr;
        let a: $V = $a;
        let b: $V = $b;
        let (wa, wb) = (a as u128, b as u128);
        let modulus: u128 = 1u128 << $bits;
        let x = $T(a);
        let mut bad: Option<(&str, String)> = None;
        let judged = std::panic::catch_unwind(std::panic::AssertUnwindSafe(|| {
        let mut bad: Option<(&str, String)> = None;
        // checked / overflowing add
        let sum = wa + wb;
        let want = (sum < modulus).then(|| sum);
        if Tr::checked_add(&x, b).map(|r| r.0 as u128) != want {
            bad = Some(("checked_add", format!("{:?}", Tr::checked_add(&x, b))));
        }
        let (r, o) = Tr::overflowing_add(&x, b);
        if r.0 as u128 != sum % modulus || o != (sum >= modulus) {
            bad = Some(("overflowing_add", format!("({:?}, {})", r, o)));
        }
        if sum < modulus && Tr::unchecked_add(&x, b).0 as u128 != sum {
            bad = Some(("unchecked_add", "".into()));
        }
        // checked / overflowing sub, distance
        let want = (wa >= wb).then(|| wa - wb);
        if Tr::checked_sub(&x, b).map(|r| r.0 as u128) != want {
            bad = Some(("checked_sub", format!("{:?}", Tr::checked_sub(&x, b))));
        }
        let (r, o) = Tr::overflowing_sub(&x, b);
        if r.0 as u128 != (wa + modulus - wb) % modulus || o != (wa < wb) {
            bad = Some(("overflowing_sub", format!("({:?}, {})", r, o)));
        }
        if wa >= wb {
            if Tr::unchecked_sub(&x, b).0 as u128 != wa - wb {
                bad = Some(("unchecked_sub", "".into()));
            }
            if Tr::unchecked_offset_from(&x, $T(b)) as u128 != wa - wb {
                bad = Some(("unchecked_offset_from", "".into()));
            }
        }
        if Tr::checked_offset_from(&x, $T(b)).map(|r| r as u128) != want {
            bad = Some(("checked_offset_from", format!("{:?}", Tr::checked_offset_from(&x, $T(b)))));
        }
        // mask and bit operations act on the raw value
        if Tr::mask(&x, b) != a & b || (x & b).0 != a & b || (x | b).0 != a | b {
            bad = Some(("mask/bitand/bitor", "".into()));
        }
        // ordering and equality follow the raw values
        let y = $T(b);
        if (x < y) != (a < b) || (x == y) != (a == b) || (x <= y) != (a <= b) || x.cmp(&y) != a.cmp(&b) || x.max(y).0 != a.max(b) {
            bad = Some(("ordering", "".into()));
        }
        if Tr::raw_value(&x) != a || <$T as Tr>::new(a) != x {
            bad = Some(("new/raw_value", "".into()));
        }
        // align up for every power of two (b's low bits select the exponent)
        let e = (b as u32) % $bits;
        let p: u128 = 1u128 << e;
        let up = (wa + p - 1) / p * p;
        let want = (up < modulus).then(|| up);
        if Tr::checked_align_up(&x, p as $V).map(|r| r.0 as u128) != want {
            bad = Some(("checked_align_up", format!("align {} -> {:?}, expected {:?}", p, Tr::checked_align_up(&x, p as $V), want)));
        }
        if up < modulus && wa + p - 1 < modulus && Tr::unchecked_align_up(&x, p as $V).0 as u128 != up {
            bad = Some(("unchecked_align_up", "".into()));
        }
        bad
        }));
        match judged {
            Ok(b) => bad = b,
            Err(_) => bad = Some(("panic", "an operation panicked on operands inside its documented domain".into())),
        }
        if let Some((op, d)) = bad {
            let key = format!("C19/{}/{}", $name, op);
            $ctx.fail(&key, &format!("a={:#x} b={:#x}: {}", a, b, d), json!({"type": $name, "a": format!("{:#x}", a), "b": format!("{:#x}", b), "op": op}));
        }
    }};
}


fn main() {
    let args: Vec<String> = std::env::args().collect();
    let tier = if args.iter().any(|a| a == "thorough") { Tier::Thorough } else { Tier::Quick };
    let ctx = Ctx::new("C19", tier, "exploration");
    std::panic::set_hook(Box::new(|_| {}));
    ctx.set_rule("impl_address_ops! and the Address default methods compiled from the current tree's src/address.rs, instantiated at width 8 (all 2^16 operand pairs) and width 16 (boundary grid in the quick tier, all 2^32 pairs in the thorough tier) x every operation against u128 arithmetic");
    ctx.assume("the operations are width-generic (one macro, one trait)");
    for a in 0..=u8::MAX {
        for b in 0..=u8::MAX {
            ctx.case(a as u32 + b as u32 > 255 || a < b);
            check_pair!(ctx, "width8", A8, u8, 8, a, b, copy::Address);
        }
    }
    if tier.thorough() {
        std::thread::scope(|s| {
            let ctx = &ctx;
            for t in 0..16u32 {
                s.spawn(move || {
                    let (mut n, mut nt) = (0u64, 0u64);
                    for a in (t * 4096)..((t + 1) * 4096) {
                        for b in 0..=u16::MAX {
                            let (a, b) = (a as u16, b);
                            n += 1;
                            nt += (a as u32 + b as u32 > 65535 || a < b) as u64;
                            check_pair!(ctx, "width16", A16, u16, 16, a, b, copy::Address);
                        }
                    }
                    ctx.evaluations.fetch_add(n, std::sync::atomic::Ordering::Relaxed);
                    ctx.nontrivial.fetch_add(nt, std::sync::atomic::Ordering::Relaxed);
                });
            }
        });
    } else {
        let g: Vec<u16> = (0..=20).chain(120..=136).chain(250..=262).chain(32760..=32776).chain(65515..=65535).collect();
        for &a in &g {
            for &b in &g {
                ctx.case(a as u32 + b as u32 > 65535 || a < b);
                check_pair!(ctx, "width16", A16, u16, 16, a, b, copy::Address);
            }
        }
    }
    ctx.sample(json!({"type": "width8", "a": "0xf9", "b": "0x08", "checks": "checked_add -> None, overflowing_add -> (0x01, true), checked_align_up(2^3) -> None (0x100 does not fit)"}));
    ctx.set_exhaustive(true);
    std::process::exit(ctx.finish());
}
