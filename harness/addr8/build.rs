// Copies src/address.rs of the repository under test into OUT_DIR (inner doc comments removed so
// that it can be include!d into a module), so that C19 can re-instantiate `impl_address_ops!`
// from the current tree at widths 8 and 16.
use std::io::Write;

fn main() {
    let repo = std::env::var("VERIF_REPO_DIR").unwrap_or_else(|_| "/repo".to_string());
    let src = format!("{}/src/address.rs", repo);
    println!("cargo:rerun-if-changed={}", src);
    println!("cargo:rerun-if-env-changed=VERIF_REPO_DIR");
    let text = std::fs::read_to_string(&src).expect("read address.rs");
    let out = std::path::Path::new(&std::env::var("OUT_DIR").unwrap()).join("address_copy.rs");
    let mut f = std::fs::File::create(out).unwrap();
    for line in text.lines() {
        if line.trim_start().starts_with("//!") {
            continue;
        }
        writeln!(f, "{}", line).unwrap();
    }
}
