//! Link-time interposition of mmap/munmap/ioctl/read/write.
//!
//! The harness binary defines these symbols itself, so every call the `libc` crate makes from
//! vm-memory (and from std) lands here. Unless the calling thread has switched recording or
//! scripting on, the call is forwarded unchanged with a raw syscall.

use libc::{c_int, c_long, c_ulong, c_void, off_t, size_t, ssize_t};
use std::cell::{Cell, RefCell};

#[derive(Clone, Debug, PartialEq)]
pub enum MapEvent {
    Map {
        addr: usize,
        len: usize,
        prot: i32,
        flags: i32,
        fd: i32,
        offset: i64,
        ok: bool,
    },
    Unmap {
        addr: usize,
        len: usize,
        ret: i32,
    },
}

pub struct IoReq {
    pub is_read: bool,
    pub fd: i32,
    pub buf: *mut u8,
    pub count: usize,
}

pub enum IoAnswer {
    /// forward to the kernel
    Pass,
    /// return this many bytes (the handler moved the data itself)
    Ret(usize),
    /// fail with this errno
    Err(i32),
}

type IoHandler = Box<dyn FnMut(&IoReq) -> IoAnswer>;
type IoctlHandler = Box<dyn FnMut(i32, u64, *mut c_void) -> Option<(i32, i32)>>;
/// (fd, offset, len) -> None: forward unchanged; Some(Ok(o)): map file offset o instead;
/// Some(Err(e)): fail with errno e. Used by the emulated gntdev, whose mmap offsets are device
/// indexes, not file positions.
type MmapXlate = Box<dyn FnMut(i32, i64, usize) -> Option<Result<i64, i32>>>;

thread_local! {
    static MAP_RECORD: Cell<bool> = const { Cell::new(false) };
    static MAP_FAIL_IN: Cell<i64> = const { Cell::new(-1) };
    static MAP_FAIL_FD_ONLY: Cell<bool> = const { Cell::new(false) };
    static IO_ACTIVE: Cell<bool> = const { Cell::new(false) };
    static IOCTL_ACTIVE: Cell<bool> = const { Cell::new(false) };
    static MAP_LOG: RefCell<Vec<MapEvent>> = const { RefCell::new(Vec::new()) };
    static IO_HANDLER: RefCell<Option<IoHandler>> = const { RefCell::new(None) };
    static IOCTL_HANDLER: RefCell<Option<IoctlHandler>> = const { RefCell::new(None) };
    static XLATE_ACTIVE: Cell<bool> = const { Cell::new(false) };
    static MMAP_XLATE: RefCell<Option<MmapXlate>> = const { RefCell::new(None) };
}

static GLOBAL_RECORD: std::sync::atomic::AtomicBool = std::sync::atomic::AtomicBool::new(false);
static GLOBAL_LOG: std::sync::Mutex<Vec<MapEvent>> = std::sync::Mutex::new(Vec::new());

unsafe fn set_errno(e: i32) {
    *libc::__errno_location() = e;
}

/// Records mmap/munmap calls of the calling thread while `f` runs.
pub fn record_maps<R>(f: impl FnOnce() -> R) -> (R, Vec<MapEvent>) {
    let prev = MAP_RECORD.with(|r| r.replace(true));
    let start = MAP_LOG.with(|l| l.borrow().len());
    let r = f();
    MAP_RECORD.with(|r| r.set(prev));
    let log = MAP_LOG.with(|l| l.borrow_mut().split_off(start));
    (r, log)
}

/// Switches recording on for the calling thread until `stop_recording` (log kept thread-local).
pub fn start_recording() {
    MAP_RECORD.with(|r| r.set(true));
    MAP_LOG.with(|l| l.borrow_mut().clear());
}

/// Resumes recording on the calling thread without clearing the log collected so far.
pub fn record_resume() {
    MAP_RECORD.with(|r| r.set(true));
}

pub fn take_log() -> Vec<MapEvent> {
    MAP_LOG.with(|l| std::mem::take(&mut *l.borrow_mut()))
}

/// Copy of the calling thread's log so far (recording goes on).
pub fn peek_log() -> Vec<MapEvent> {
    MAP_LOG.with(|l| l.borrow().clone())
}

pub fn stop_recording() -> Vec<MapEvent> {
    MAP_RECORD.with(|r| r.set(false));
    take_log()
}

/// Process-wide recording (for mappings released on scheduler threads).
pub fn global_recording(on: bool) {
    GLOBAL_RECORD.store(on, std::sync::atomic::Ordering::SeqCst);
}

pub fn take_global_log() -> Vec<MapEvent> {
    std::mem::take(&mut *GLOBAL_LOG.lock().unwrap())
}

/// The n-th (0-based) recorded mmap call of this thread from now on fails with ENOMEM.
pub fn fail_mmap_in(n: i64) {
    MAP_FAIL_FD_ONLY.with(|c| c.set(false));
    MAP_FAIL_IN.with(|c| c.set(n));
}

/// Like `fail_mmap_in`, counting only mappings of a file descriptor (the allocator's anonymous
/// mappings neither count nor fail).
pub fn fail_fd_mmap_in(n: i64) {
    MAP_FAIL_FD_ONLY.with(|c| c.set(true));
    MAP_FAIL_IN.with(|c| c.set(n));
}

pub fn with_io_handler<R>(h: IoHandler, f: impl FnOnce() -> R) -> R {
    IO_HANDLER.with(|c| *c.borrow_mut() = Some(h));
    IO_ACTIVE.with(|c| c.set(true));
    let r = f();
    IO_ACTIVE.with(|c| c.set(false));
    IO_HANDLER.with(|c| *c.borrow_mut() = None);
    r
}

pub fn set_ioctl_handler(h: Option<IoctlHandler>) {
    IOCTL_ACTIVE.with(|c| c.set(h.is_some()));
    IOCTL_HANDLER.with(|c| *c.borrow_mut() = h);
}

/// Address ranges [start, end) that are still mapped after replaying `log` on an empty address
/// space (page granularity; a munmap may release part of a mapping or several at once).
pub fn net_mapped(log: &[MapEvent]) -> Vec<(usize, usize)> {
    let pg = |x: usize| (x + 4095) / 4096 * 4096;
    let mut space: Vec<(usize, usize)> = Vec::new();
    let cut = |space: &mut Vec<(usize, usize)>, a: usize, b: usize| {
        let mut out = Vec::with_capacity(space.len() + 1);
        for &(s, e) in space.iter() {
            if e <= a || b <= s {
                out.push((s, e));
            } else {
                if s < a {
                    out.push((s, a));
                }
                if b < e {
                    out.push((b, e));
                }
            }
        }
        *space = out;
    };
    for e in log {
        match e {
            MapEvent::Map { addr, len, ok: true, .. } => {
                cut(&mut space, *addr, pg(*addr + *len));
                space.push((*addr, pg(*addr + *len)));
            }
            MapEvent::Unmap { addr, len, ret: 0 } => cut(&mut space, *addr, pg(*addr + *len)),
            _ => {}
        }
    }
    space
}

/// Answer of a scripted lseek: forward, fail with an errno, or report this position / length.
pub enum SeekAnswer {
    Pass,
    Err(i32),
    Ret(i64),
}
type SeekHandler = Box<dyn FnMut(i32, i64, i32) -> SeekAnswer>;
thread_local! {
    static SEEK_ACTIVE: Cell<bool> = const { Cell::new(false) };
    static SEEK_HANDLER: RefCell<Option<SeekHandler>> = const { RefCell::new(None) };
}

/// Runs `f` with every lseek of the calling thread answered by `h` (fd, offset, whence).
pub fn with_seek_handler<R>(h: SeekHandler, f: impl FnOnce() -> R) -> R {
    SEEK_HANDLER.with(|c| *c.borrow_mut() = Some(h));
    SEEK_ACTIVE.with(|c| c.set(true));
    let r = f();
    SEEK_ACTIVE.with(|c| c.set(false));
    SEEK_HANDLER.with(|c| *c.borrow_mut() = None);
    r
}

#[no_mangle]
pub unsafe extern "C" fn lseek64(fd: c_int, offset: i64, whence: c_int) -> i64 {
    if SEEK_ACTIVE.try_with(|c| c.get()).unwrap_or(false) {
        let ans = SEEK_HANDLER
            .try_with(|h| match h.try_borrow_mut() {
                Ok(mut g) => g.as_mut().map(|f| f(fd, offset, whence)),
                Err(_) => None,
            })
            .ok()
            .flatten();
        match ans {
            Some(SeekAnswer::Err(e)) => {
                set_errno(e);
                return -1;
            }
            Some(SeekAnswer::Ret(v)) => return v,
            _ => {}
        }
    }
    libc::syscall(libc::SYS_lseek, fd as c_long, offset, whence as c_long) as i64
}

#[no_mangle]
pub unsafe extern "C" fn lseek(fd: c_int, offset: off_t, whence: c_int) -> off_t {
    lseek64(fd, offset as i64, whence) as off_t
}

pub fn set_mmap_xlate(h: Option<MmapXlate>) {
    XLATE_ACTIVE.with(|c| c.set(h.is_some()));
    MMAP_XLATE.with(|c| *c.borrow_mut() = h);
}

fn log_event(ev: MapEvent) {
    let local = MAP_RECORD.try_with(|r| r.get()).unwrap_or(false);
    if local {
        let _ = MAP_LOG.try_with(|l| l.borrow_mut().push(ev));
    } else if GLOBAL_RECORD.load(std::sync::atomic::Ordering::Relaxed) {
        if let Ok(mut g) = GLOBAL_LOG.try_lock() {
            g.push(ev);
        }
    }
}

// ---- placement arena -------------------------------------------------------------------------
// While a thread has placement switched on, its mmap(NULL, ...) requests are placed inside one
// large reserved PROT_NONE arena, 8 MiB apart, and munmap inside the arena puts the reservation
// back instead of returning the pages to the kernel. A library that unmaps more than it mapped
// then hits reserved no-access pages instead of whatever the kernel happened to place next to
// the mapping (other regions, thread stacks, libc itself): the log shows the wrong call and the
// process stays alive to report it.
const ARENA_LEN: usize = 1 << 38;
const ARENA_GAP: usize = 8 << 20;
static ARENA_BASE: std::sync::atomic::AtomicUsize = std::sync::atomic::AtomicUsize::new(0);
static ARENA_NEXT: std::sync::atomic::AtomicUsize = std::sync::atomic::AtomicUsize::new(0);
thread_local! {
    static PLACE_ACTIVE: Cell<bool> = const { Cell::new(false) };
}

/// Switches arena placement on or off for the calling thread.
pub fn place_in_arena(on: bool) {
    use std::sync::atomic::Ordering;
    if on && ARENA_BASE.load(Ordering::SeqCst) == 0 {
        // SAFETY: reserves address space only
        let p = unsafe { libc::syscall(libc::SYS_mmap, 0usize, ARENA_LEN, libc::PROT_NONE as c_long, (libc::MAP_PRIVATE | libc::MAP_ANONYMOUS | libc::MAP_NORESERVE) as c_long, -1 as c_long, 0 as c_long) };
        if p as isize > 0 && ARENA_BASE.compare_exchange(0, p as usize, Ordering::SeqCst, Ordering::SeqCst).is_err() {
            // somebody else reserved first
            unsafe { libc::syscall(libc::SYS_munmap, p, ARENA_LEN) };
        }
    }
    PLACE_ACTIVE.with(|c| c.set(on && ARENA_BASE.load(Ordering::SeqCst) != 0));
}

fn arena_contains(addr: usize, len: usize) -> bool {
    let b = ARENA_BASE.load(std::sync::atomic::Ordering::Relaxed);
    b != 0 && addr >= b && addr.saturating_add(len) <= b + ARENA_LEN
}

fn arena_place(len: usize) -> usize {
    use std::sync::atomic::Ordering;
    let b = ARENA_BASE.load(Ordering::Relaxed);
    let need = (len + (2 << 20) - 1) / (2 << 20) * (2 << 20) + ARENA_GAP;
    loop {
        let off = ARENA_NEXT.fetch_add(need, Ordering::SeqCst);
        if off + need + ARENA_GAP <= ARENA_LEN {
            // (an odd number of pages into the slot, so that placed mappings are page aligned only)
            return b + off + ARENA_GAP / 2 + 4096;
        }
        // wrap around: everything placed that long ago has been released
        ARENA_NEXT.store(0, Ordering::SeqCst);
    }
}

fn recording() -> bool {
    MAP_RECORD.try_with(|r| r.get()).unwrap_or(false)
        || GLOBAL_RECORD.load(std::sync::atomic::Ordering::Relaxed)
}

#[no_mangle]
pub unsafe extern "C" fn mmap(
    addr: *mut c_void,
    len: size_t,
    prot: c_int,
    flags: c_int,
    fd: c_int,
    offset: off_t,
) -> *mut c_void {
    let rec = recording();
    if rec {
        let counted = fd >= 0 || !MAP_FAIL_FD_ONLY.try_with(|c| c.get()).unwrap_or(false);
        let fail = counted && MAP_FAIL_IN
            .try_with(|c| {
                let v = c.get();
                if v >= 0 {
                    c.set(v - 1);
                }
                v == 0
            })
            .unwrap_or(false);
        if fail {
            log_event(MapEvent::Map {
                addr: 0,
                len,
                prot,
                flags,
                fd,
                offset,
                ok: false,
            });
            set_errno(libc::ENOMEM);
            return libc::MAP_FAILED;
        }
    }
    let mut addr = addr;
    let mut real_flags = flags;
    if addr.is_null() && flags & libc::MAP_FIXED == 0 && len > 0 && len < ARENA_LEN / 4 && PLACE_ACTIVE.try_with(|c| c.get()).unwrap_or(false) {
        addr = arena_place(len) as *mut c_void;
        real_flags |= libc::MAP_FIXED;
    }
    let mut real_offset = offset;
    if fd >= 0 && XLATE_ACTIVE.try_with(|c| c.get()).unwrap_or(false) {
        let ans = MMAP_XLATE
            .try_with(|h| match h.try_borrow_mut() {
                Ok(mut g) => g.as_mut().and_then(|f| f(fd, offset as i64, len)),
                Err(_) => None,
            })
            .ok()
            .flatten();
        match ans {
            Some(Ok(o)) => real_offset = o as off_t,
            Some(Err(e)) => {
                if rec {
                    log_event(MapEvent::Map {
                        addr: 0,
                        len,
                        prot,
                        flags,
                        fd,
                        offset,
                        ok: false,
                    });
                }
                set_errno(e);
                return libc::MAP_FAILED;
            }
            None => {}
        }
    }
    let r = libc::syscall(
        libc::SYS_mmap,
        addr,
        len,
        prot as c_long,
        real_flags as c_long,
        fd as c_long,
        real_offset as c_long,
    );
    let p = r as *mut c_void;
    if rec {
        log_event(MapEvent::Map {
            addr: if p == libc::MAP_FAILED { 0 } else { p as usize },
            len,
            prot,
            flags,
            fd,
            offset,
            ok: p != libc::MAP_FAILED,
        });
    }
    p
}

#[no_mangle]
pub unsafe extern "C" fn mmap64(
    addr: *mut c_void,
    len: size_t,
    prot: c_int,
    flags: c_int,
    fd: c_int,
    offset: off_t,
) -> *mut c_void {
    mmap(addr, len, prot, flags, fd, offset)
}

#[no_mangle]
pub unsafe extern "C" fn munmap(addr: *mut c_void, len: size_t) -> c_int {
    let r = if len > 0 && (addr as usize) % 4096 == 0 && arena_contains(addr as usize, len) {
        // back to reserved, inaccessible address space
        let p = libc::syscall(libc::SYS_mmap, addr, (len + 4095) / 4096 * 4096, libc::PROT_NONE as c_long, (libc::MAP_PRIVATE | libc::MAP_ANONYMOUS | libc::MAP_NORESERVE | libc::MAP_FIXED) as c_long, -1 as c_long, 0 as c_long);
        if p as isize > 0 {
            0
        } else {
            -1
        }
    } else {
        libc::syscall(libc::SYS_munmap, addr, len) as c_int
    };
    if recording() {
        log_event(MapEvent::Unmap {
            addr: addr as usize,
            len,
            ret: r,
        });
    }
    r
}

#[no_mangle]
pub unsafe extern "C" fn ioctl(fd: c_int, req: c_ulong, arg: *mut c_void) -> c_int {
    if IOCTL_ACTIVE.try_with(|c| c.get()).unwrap_or(false) {
        let ans = IOCTL_HANDLER
            .try_with(|h| match h.try_borrow_mut() {
                Ok(mut g) => g.as_mut().and_then(|f| f(fd, req as u64, arg)),
                Err(_) => None,
            })
            .ok()
            .flatten();
        if let Some((ret, errno)) = ans {
            if ret != 0 {
                set_errno(errno);
            }
            return ret;
        }
    }
    libc::syscall(libc::SYS_ioctl, fd as c_long, req, arg) as c_int
}

unsafe fn scripted(is_read: bool, fd: c_int, buf: *mut u8, count: size_t) -> Option<ssize_t> {
    if !IO_ACTIVE.try_with(|c| c.get()).unwrap_or(false) {
        return None;
    }
    let ans = IO_HANDLER
        .try_with(|h| match h.try_borrow_mut() {
            Ok(mut g) => g.as_mut().map(|f| {
                f(&IoReq {
                    is_read,
                    fd,
                    buf,
                    count,
                })
            }),
            Err(_) => None,
        })
        .ok()
        .flatten()?;
    match ans {
        IoAnswer::Pass => None,
        IoAnswer::Ret(n) => Some(n as ssize_t),
        IoAnswer::Err(e) => {
            set_errno(e);
            Some(-1)
        }
    }
}

#[no_mangle]
pub unsafe extern "C" fn read(fd: c_int, buf: *mut c_void, count: size_t) -> ssize_t {
    if let Some(r) = scripted(true, fd, buf as *mut u8, count) {
        return r;
    }
    libc::syscall(libc::SYS_read, fd as c_long, buf, count) as ssize_t
}

#[no_mangle]
pub unsafe extern "C" fn write(fd: c_int, buf: *const c_void, count: size_t) -> ssize_t {
    if let Some(r) = scripted(false, fd, buf as *mut u8, count) {
        return r;
    }
    libc::syscall(libc::SYS_write, fd as c_long, buf, count) as ssize_t
}

// ---- auxiliary memory calls -------------------------------------------------------------------
// mlock / madvise / mprotect on a fresh mapping are steps of a creation that can fail on their
// own; they are forwarded, counted while the thread records, and the n-th can be made to fail.
thread_local! {
    static AUX_FAIL_IN: Cell<i64> = const { Cell::new(-1) };
    static AUX_CALLS: Cell<u64> = const { Cell::new(0) };
}

/// The n-th (0-based) mlock/madvise/mprotect call of this thread from now on fails with ENOMEM
/// (-1: none).
pub fn fail_aux_in(n: i64) {
    AUX_FAIL_IN.with(|c| c.set(n));
}

/// Number of mlock/madvise/mprotect calls this thread made while recording, since the last call.
pub fn take_aux_calls() -> u64 {
    AUX_CALLS.with(|c| c.replace(0))
}

unsafe fn aux_fails() -> bool {
    if !MAP_RECORD.try_with(|r| r.get()).unwrap_or(false) {
        return false;
    }
    let _ = AUX_CALLS.try_with(|c| c.set(c.get() + 1));
    let fail = AUX_FAIL_IN
        .try_with(|c| {
            let v = c.get();
            if v >= 0 {
                c.set(v - 1);
            }
            v == 0
        })
        .unwrap_or(false);
    if fail {
        set_errno(libc::ENOMEM);
    }
    fail
}

#[no_mangle]
pub unsafe extern "C" fn mlock(addr: *const c_void, len: size_t) -> c_int {
    if aux_fails() {
        return -1;
    }
    libc::syscall(libc::SYS_mlock, addr, len) as c_int
}

#[no_mangle]
pub unsafe extern "C" fn mlock2(addr: *const c_void, len: size_t, flags: libc::c_uint) -> c_int {
    if aux_fails() {
        return -1;
    }
    libc::syscall(libc::SYS_mlock2, addr, len, flags as c_long) as c_int
}

#[no_mangle]
pub unsafe extern "C" fn madvise(addr: *mut c_void, len: size_t, advice: c_int) -> c_int {
    if aux_fails() {
        return -1;
    }
    libc::syscall(libc::SYS_madvise, addr, len, advice as c_long) as c_int
}

#[no_mangle]
pub unsafe extern "C" fn mprotect(addr: *mut c_void, len: size_t, prot: c_int) -> c_int {
    if aux_fails() {
        return -1;
    }
    libc::syscall(libc::SYS_mprotect, addr, len, prot as c_long) as c_int
}

/// Self-test of the lseek hook (used by the checks that inject seek faults).
pub fn selftest_seek() -> Result<(), String> {
    use std::io::{Seek, SeekFrom};
    let mut f = crate::layouts::tempfile().map_err(|e| e.to_string())?;
    f.set_len(100).map_err(|e| e.to_string())?;
    let n = std::cell::Cell::new(0);
    let r = with_seek_handler(
        Box::new(|_, _, _| SeekAnswer::Ret(7)),
        || {
            n.set(n.get() + 1);
            f.seek(SeekFrom::End(0))
        },
    );
    match r {
        Ok(7) => Ok(()),
        other => Err(format!("lseek is not intercepted in this binary (std returned {:?})", other)),
    }
}

/// Self-test: verifies that the five symbols really are intercepted in this binary.
pub fn selftest() -> Result<(), String> {
    use std::os::fd::AsRawFd;
    // mmap / munmap through the libc crate
    let ((), log) = record_maps(|| unsafe {
        let p = libc::mmap(
            std::ptr::null_mut(),
            4096,
            libc::PROT_READ,
            libc::MAP_PRIVATE | libc::MAP_ANONYMOUS,
            -1,
            0,
        );
        libc::munmap(p, 4096);
    });
    if log.len() != 2 {
        return Err(format!("mmap/munmap not intercepted: {:?}", log));
    }
    // read / write
    let f = std::fs::File::open("/proc/self/cmdline").map_err(|e| e.to_string())?;
    let fd = f.as_raw_fd();
    let hits = std::rc::Rc::new(Cell::new(0));
    let h2 = hits.clone();
    let n = with_io_handler(
        Box::new(move |r: &IoReq| {
            if r.fd == fd {
                h2.set(h2.get() + 1);
                IoAnswer::Ret(3)
            } else {
                IoAnswer::Pass
            }
        }),
        || unsafe {
            let mut b = [0u8; 8];
            let a = libc::read(fd, b.as_mut_ptr() as *mut c_void, 8);
            let w = libc::write(fd, b.as_ptr() as *const c_void, 8);
            (a, w)
        },
    );
    if n != (3, 3) || hits.get() != 2 {
        return Err(format!("read/write not intercepted: {:?}", n));
    }
    // ioctl
    set_ioctl_handler(Some(Box::new(|_fd, req, _arg| {
        if req == 0x1234_5678 {
            Some((7, 0))
        } else {
            None
        }
    })));
    let r = unsafe { libc::ioctl(fd, 0x1234_5678 as _, 0usize) };
    set_ioctl_handler(None);
    if r != 7 {
        return Err("ioctl not intercepted".into());
    }
    Ok(())
}
