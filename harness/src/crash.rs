//! Turns panics, aborts and memory faults that happen *inside the code under test* into
//! findings attributed to the case being executed, instead of engine crashes.
//!
//! `guarded` runs one case under `catch_unwind`; a panic becomes `ctx.fail(<key>/panic)`. While
//! the case runs a thread-local points at a closure describing it; the signal handler for
//! SIGSEGV/SIGBUS/SIGABRT/SIGFPE/SIGILL uses it to write a replay file and the VIOLATION line and
//! then exits with status 1 (the process cannot continue after a fault). A fault outside a
//! guarded case is not ours to judge: the default action is restored and the signal re-raised,
//! which the wrapper reports as a machinery failure.

use crate::report::{fnv, Ctx};
use serde_json::{json, Value};
use std::cell::{Cell, RefCell};
use std::panic::{catch_unwind, AssertUnwindSafe};
use std::sync::OnceLock;

pub type Describe<'a> = &'a dyn Fn() -> (String, String, Value);

thread_local! {
    static CUR: Cell<Option<*const (dyn Fn() -> (String, String, Value) + 'static)>> = const { Cell::new(None) };
    static IN_GUARD: Cell<bool> = const { Cell::new(false) };
    static LAST_PANIC: RefCell<String> = const { RefCell::new(String::new()) };
}

struct Global {
    prop: String,
    out_dir: std::path::PathBuf,
    tier: String,
    level: String,
    build: String,
}

static GLOBAL: OnceLock<Global> = OnceLock::new();

/// Everything the fallback path of the signal handler needs, rendered when the handler is
/// installed: a fault inside a guarded case can leave the heap so damaged that describing the
/// case faults again; the second-level handler then only issues raw system calls on these bytes.
struct Fallback {
    replay_path: std::ffi::CString,
    replay_body: Vec<u8>,
    evidence_path: Option<std::ffi::CString>,
    evidence_body: Vec<u8>,
    line: Vec<u8>,
}
static FALLBACK: OnceLock<Fallback> = OnceLock::new();
/// set by the first-level handler once it knows the fault happened inside a guarded case
static FAULT_IN_CASE: std::sync::atomic::AtomicBool = std::sync::atomic::AtomicBool::new(false);

/// The last panic whose location lies in the crate under test (set by the panic hook).
pub static LAST_CRATE_PANIC: std::sync::Mutex<Option<String>> = std::sync::Mutex::new(None);

/// Safety net for a panic that escaped every guarded case: if it was raised by the crate under
/// test it is reported as a violation of the running property, otherwise it is a machinery error.
pub fn escaped_panic() -> i32 {
    let msg = LAST_CRATE_PANIC.lock().unwrap().clone();
    match (msg, GLOBAL.get()) {
        (Some(m), Some(g)) => {
            let key = format!("{}/unattributed-panic-in-crate-code", g.prop);
            let dir = g.out_dir.join("replays");
            let _ = std::fs::create_dir_all(&dir);
            let path = dir.join(format!("{}-{:016x}.json", g.prop, fnv(key.as_bytes())));
            let body = json!({"property": g.prop, "key": key, "detail": m, "tier": g.tier, "build": g.build, "case": {"note": "the crate under test panicked outside an attributed case; re-run the check to reproduce"}});
            let _ = std::fs::write(&path, serde_json::to_string_pretty(&body).unwrap_or_default());
            println!("  key={} detail={}", key, m);
            println!("VIOLATION property={} replay={}", g.prop, path.display());
            1
        }
        _ => 2,
    }
}

/// Runs `f`, catching a panic without printing it (the caller judges the outcome itself).
pub fn quiet_unwind<R>(f: impl FnOnce() -> R) -> std::thread::Result<R> {
    let prev = IN_GUARD.with(|g| g.replace(true));
    let r = std::panic::catch_unwind(std::panic::AssertUnwindSafe(f));
    IN_GUARD.with(|g| g.set(prev));
    r
}

pub fn install(ctx: &Ctx) {
    let out_dir = std::env::var("VERIF_OUT")
        .map(std::path::PathBuf::from)
        .unwrap_or_else(|_| ctx.verif_dir.clone());
    let _ = GLOBAL.set(Global {
        prop: ctx.prop.clone(),
        out_dir,
        tier: ctx.tier.name().to_string(),
        level: ctx.level.to_string(),
        build: std::env::var("VERIF_BUILD").unwrap_or_else(|_| "std-dev".into()),
    });
    if let Some(g) = GLOBAL.get() {
        let key = format!("{}/fault-inside-a-case-heap-damaged", g.prop);
        let dir = g.out_dir.join("replays");
        let _ = std::fs::create_dir_all(&dir);
        let path = dir.join(format!("{}-{:016x}.json", g.prop, fnv(key.as_bytes())));
        let detail = "a memory fault or abort happened while a case was executing the code under test, and describing the case faulted again (the heap is damaged: the code under test wrote outside its buffers); re-run the check to reproduce";
        let body = json!({"property": g.prop, "key": key, "detail": detail, "tier": g.tier, "build": g.build, "case": {"note": "unattributed; deterministic enumeration, re-run the check"}});
        let ev = json!({
            "property_id": g.prop, "tier": g.tier, "seed": 0, "level": g.level,
            "coverage": {"evaluations": 1, "distinct_nontrivial": 1, "states": 1, "transitions": 1, "traces_validated_against_impl": 1,
                         "rule": "run aborted by a memory fault / abort inside the code under test", "samples": [body], "exhaustive": false,
                         "violation_keys": [key]},
            "wall_s": 0.0, "violations": 1, "_part": g.build,
        });
        let _ = FALLBACK.set(Fallback {
            replay_path: std::ffi::CString::new(path.to_string_lossy().as_bytes()).unwrap_or_default(),
            replay_body: serde_json::to_string_pretty(&body).unwrap_or_default().into_bytes(),
            evidence_path: std::env::var("VERIF_EVIDENCE_PATH").ok().and_then(|p| std::ffi::CString::new(p).ok()),
            evidence_body: serde_json::to_string_pretty(&ev).unwrap_or_default().into_bytes(),
            line: format!("  key={} detail={}\nVIOLATION property={} replay={}\n", key, detail, g.prop, path.display()).into_bytes(),
        });
    }
    let prev = std::panic::take_hook();
    let repo_dir = std::env::var("VERIF_REPO_DIR").unwrap_or_else(|_| "/repo".into());
    std::panic::set_hook(Box::new(move |info| {
        if let Some(loc) = info.location() {
            if loc.file().starts_with(&repo_dir) {
                *LAST_CRATE_PANIC.lock().unwrap() = Some(format!("{}", info).replace('\n', " "));
            }
        }
        if IN_GUARD.with(|g| g.get()) {
            let msg = format!("{}", info);
            LAST_PANIC.with(|l| *l.borrow_mut() = msg);
        } else {
            prev(info);
        }
    }));
    // SAFETY: installing signal handlers
    unsafe {
        for sig in [libc::SIGSEGV, libc::SIGBUS, libc::SIGABRT, libc::SIGFPE, libc::SIGILL] {
            let mut sa: libc::sigaction = std::mem::zeroed();
            sa.sa_sigaction = handler as usize;
            sa.sa_flags = libc::SA_SIGINFO | libc::SA_ONSTACK | libc::SA_NODEFER;
            libc::sigemptyset(&mut sa.sa_mask);
            libc::sigaction(sig, &sa, std::ptr::null_mut());
        }
    }
}

/// Second-level path: no allocation, raw system calls only.
unsafe fn fallback_exit() -> ! {
    if let Some(f) = FALLBACK.get() {
        let put = |path: &std::ffi::CString, body: &[u8]| {
            let fd = libc::syscall(libc::SYS_open, path.as_ptr(), libc::O_CREAT | libc::O_WRONLY | libc::O_TRUNC, 0o644) as i32;
            if fd >= 0 {
                libc::syscall(libc::SYS_write, fd, body.as_ptr(), body.len());
                libc::syscall(libc::SYS_close, fd);
            }
        };
        put(&f.replay_path, &f.replay_body);
        if let Some(p) = &f.evidence_path {
            put(p, &f.evidence_body);
        }
        libc::syscall(libc::SYS_write, 1, f.line.as_ptr(), f.line.len());
        libc::_exit(1);
    }
    libc::_exit(2)
}

extern "C" fn handler(sig: libc::c_int, info: *mut libc::siginfo_t, _uc: *mut libc::c_void) {
    if FAULT_IN_CASE.load(std::sync::atomic::Ordering::SeqCst) {
        // a fault while describing a faulted case
        // SAFETY: raw system calls on pre-rendered bytes
        unsafe { fallback_exit() }
    }
    let cur = CUR.try_with(|c| c.get()).ok().flatten();
    let g = GLOBAL.get();
    match (cur, g) {
        (Some(p), Some(g)) => {
            // Not async-signal-safe in the strict sense, but the process is about to exit and
            // the faulting code is the code under test, not the allocator.
            CUR.with(|c| c.set(None));
            FAULT_IN_CASE.store(true, std::sync::atomic::Ordering::SeqCst);
            // SAFETY: the closure outlives the guarded call that is still on this stack
            let (key, detail, replay) = unsafe { (*p)() };
            let signame = match sig {
                libc::SIGSEGV => "SIGSEGV",
                libc::SIGBUS => "SIGBUS",
                libc::SIGABRT => "SIGABRT (abort / non-unwinding panic)",
                libc::SIGFPE => "SIGFPE",
                libc::SIGILL => "SIGILL",
                _ => "signal",
            };
            // SAFETY: info is valid in a SA_SIGINFO handler
            let addr = unsafe { (*info).si_addr() } as usize;
            let last = LAST_PANIC.try_with(|l| l.borrow().clone()).unwrap_or_default();
            let key = format!("{}/fault", key);
            let detail = format!("{} at address {:#x} while executing the case; {} {}", signame, addr, detail, last);
            let dir = g.out_dir.join("replays");
            let _ = std::fs::create_dir_all(&dir);
            let path = dir.join(format!("{}-{:016x}.json", g.prop, fnv(key.as_bytes())));
            let body = json!({"property": g.prop, "key": key, "detail": detail, "tier": g.tier, "build": g.build, "case": replay, "fault": signame});
            let _ = std::fs::write(&path, serde_json::to_string_pretty(&body).unwrap_or_default());
            let ev = json!({
                "property_id": g.prop, "tier": g.tier, "seed": 0, "level": g.level,
                "coverage": {"evaluations": 1, "distinct_nontrivial": 1, "states": 1, "transitions": 1, "traces_validated_against_impl": 1,
                             "rule": "run aborted by a memory fault / abort inside the code under test", "samples": [body], "exhaustive": false,
                             "violation_keys": [key]},
                "wall_s": 0.0, "violations": 1, "_part": g.build,
            });
            if let Ok(p) = std::env::var("VERIF_EVIDENCE_PATH") {
                let _ = std::fs::write(p, serde_json::to_string_pretty(&ev).unwrap_or_default());
            }
            let line = format!("  key={} detail={}\nVIOLATION property={} replay={}\n", key, detail, g.prop, path.display());
            // SAFETY: plain write(2)
            unsafe {
                libc::syscall(libc::SYS_write, 1, line.as_ptr(), line.len());
                libc::_exit(1);
            }
        }
        _ => unsafe {
            // not inside a guarded case: restore the default action and re-raise
            let mut sa: libc::sigaction = std::mem::zeroed();
            sa.sa_sigaction = libc::SIG_DFL;
            libc::sigaction(sig, &sa, std::ptr::null_mut());
            libc::raise(sig);
        },
    }
}

static PROGRESS: std::sync::atomic::AtomicU64 = std::sync::atomic::AtomicU64::new(0);
static WATCH_LABEL: std::sync::Mutex<String> = std::sync::Mutex::new(String::new());

/// Heartbeat for `watchdog`: call once per case.
#[inline]
pub fn beat() {
    PROGRESS.fetch_add(1, std::sync::atomic::Ordering::Relaxed);
}

/// Names what is running now (shown when the watchdog fires).
pub fn beat_label(s: &str) {
    if let Ok(mut g) = WATCH_LABEL.try_lock() {
        if *g != s {
            *g = s.to_string();
        }
    }
}

/// A call of the code under test that never returns is a finding, not a hung check: when the
/// heartbeat does not move for `secs` seconds the process reports a violation and exits 1.
/// Returns a flag the caller sets when the monitored phase is over.
pub fn watchdog(secs: u64) -> std::sync::Arc<std::sync::atomic::AtomicBool> {
    use std::sync::atomic::Ordering;
    let done = std::sync::Arc::new(std::sync::atomic::AtomicBool::new(false));
    let d2 = done.clone();
    std::thread::spawn(move || {
        let mut last = PROGRESS.load(Ordering::Relaxed);
        let mut stalled = 0u64;
        while !d2.load(Ordering::Relaxed) {
            std::thread::sleep(std::time::Duration::from_secs(1));
            let now = PROGRESS.load(Ordering::Relaxed);
            if now == last {
                stalled += 1;
            } else {
                stalled = 0;
                last = now;
            }
            if stalled >= secs && !d2.load(Ordering::Relaxed) {
                if let Some(g) = GLOBAL.get() {
                    let label = WATCH_LABEL.lock().map(|l| l.clone()).unwrap_or_default();
                    let key = format!("{}/call-did-not-return", g.prop);
                    let dir = g.out_dir.join("replays");
                    let _ = std::fs::create_dir_all(&dir);
                    let path = dir.join(format!("{}-{:016x}.json", g.prop, fnv(key.as_bytes())));
                    let detail = format!("no case completed for {} s while running: {} (a call into the code under test does not return)", secs, label);
                    let body = json!({"property": g.prop, "key": key, "detail": detail, "tier": g.tier, "build": g.build, "case": {"running": label}});
                    let _ = std::fs::write(&path, serde_json::to_string_pretty(&body).unwrap_or_default());
                    let ev = json!({
                        "property_id": g.prop, "tier": g.tier, "seed": 0, "level": g.level,
                        "coverage": {"evaluations": 1, "distinct_nontrivial": 1, "states": 1, "transitions": 1, "traces_validated_against_impl": 1,
                                     "rule": "run stopped by the watchdog: a call into the code under test did not return", "samples": [body], "exhaustive": false,
                                     "violation_keys": [key]},
                        "wall_s": 0.0, "violations": 1, "_part": g.build,
                    });
                    if let Ok(p) = std::env::var("VERIF_EVIDENCE_PATH") {
                        let _ = std::fs::write(p, serde_json::to_string_pretty(&ev).unwrap_or_default());
                    }
                    println!("  key={} detail={}", key, detail);
                    println!("VIOLATION property={} replay={}", g.prop, path.display());
                }
                std::process::exit(1);
            }
        }
    });
    done
}

/// Runs one case. `describe` returns (key prefix, human detail, replay JSON) and is only called
/// when the case panics or faults.
pub fn guarded<R>(ctx: &Ctx, describe: Describe<'_>, f: impl FnOnce() -> R) -> Option<R> {
    // SAFETY: the pointer is cleared before `describe` goes out of scope
    let p: *const (dyn Fn() -> (String, String, Value) + 'static) = unsafe { std::mem::transmute(describe as *const _) };
    let prev = CUR.with(|c| c.replace(Some(p)));
    let prev_guard = IN_GUARD.with(|g| g.replace(true));
    let r = catch_unwind(AssertUnwindSafe(f));
    IN_GUARD.with(|g| g.set(prev_guard));
    CUR.with(|c| c.set(prev));
    match r {
        Ok(v) => Some(v),
        Err(_) => {
            let (key, detail, replay) = describe();
            let msg = LAST_PANIC.with(|l| l.borrow().clone());
            let key = format!("{}/panic", key);
            let rp = if ctx.has_failed(&key) { Value::Null } else { replay };
            ctx.fail(&key, &format!("panicked: {} ({})", msg.replace('\n', " "), detail), rp);
            None
        }
    }
}

/// Result of running a closure in a forked child process.
#[derive(Debug, PartialEq)]
pub enum Child {
    Exited(i32),
    Signaled(i32),
    ForkFailed,
}

/// Runs `f` in a forked child (default signal dispositions, no case attribution) and reports how
/// the child ended. Only call from a single-threaded phase.
pub fn in_child(f: impl FnOnce() -> i32) -> Child {
    let _ = std::io::Write::flush(&mut std::io::stdout());
    // SAFETY: fork + immediate _exit in the child
    unsafe {
        let pid = libc::fork();
        if pid < 0 {
            return Child::ForkFailed;
        }
        if pid == 0 {
            for sig in [libc::SIGSEGV, libc::SIGBUS, libc::SIGABRT, libc::SIGFPE, libc::SIGILL] {
                let mut sa: libc::sigaction = std::mem::zeroed();
                sa.sa_sigaction = libc::SIG_DFL;
                libc::sigaction(sig, &sa, std::ptr::null_mut());
            }
            CUR.with(|c| c.set(None));
            IN_GUARD.with(|g| g.set(true)); // silence the panic hook
            let code = match catch_unwind(AssertUnwindSafe(f)) {
                Ok(c) => c,
                Err(_) => 101,
            };
            libc::_exit(code);
        }
        let mut status = 0;
        libc::waitpid(pid, &mut status, 0);
        if libc::WIFSIGNALED(status) {
            Child::Signaled(libc::WTERMSIG(status))
        } else {
            Child::Exited(libc::WEXITSTATUS(status))
        }
    }
}
