//! Emulated Xen gntdev / privcmd devices (Xen build only), from the ioctl structs in
//! src/mmap/xen.rs. Grant reference r is backed by offset r*4096 of one in-memory file, so
//! windows mapped on demand really map the right guest pages and data is coherent across windows.
//! The production ioctl path of the crate runs (the ioctl symbol is interposed at link time).

use crate::interpose::{set_ioctl_handler, set_mmap_xlate};
use crate::layouts::tempfile;
use std::cell::RefCell;
use std::os::fd::AsRawFd;
use std::rc::Rc;
use vm_memory::{FileOffset, GuestAddress, GuestRegionMmap, MmapRange, MmapRegion, MmapXenFlags};

pub const PAGE: u64 = 4096;
/// first device index handed out, in pages
pub const INDEX_BASE: u64 = 0x10_0000;

#[derive(Clone, Debug, PartialEq)]
pub enum DevEvent {
    MapGrant { first_ref: u32, count: u32, index: u64, ok: bool },
    UnmapGrant { index: u64, count: u32, ok: bool },
    PrivcmdBatch { num: u32, first_pfn: u64, ok: bool },
}

#[derive(Default)]
pub struct EmuState {
    /// live windows as (device index in bytes, pages)
    pub live: Vec<(u64, u32)>,
    /// first grant reference of each live window, by device index
    pub refs: std::collections::HashMap<u64, u32>,
    pub log: Vec<DevEvent>,
    pub protocol_errors: Vec<String>,
    /// fail the n-th map-grant ioctl from now (0 = next)
    pub fail_map_in: Option<u32>,
    pub fail_privcmd: bool,
    /// refuse every map-grant request (EINVAL)
    pub fail_all_maps: bool,
    /// answer a map request for 0 grants with EINVAL (like the kernel) or with success
    pub zero_count_einval: bool,
    pub max_live: usize,
    /// first guest frame named by the last privcmd batch
    pub last_foreign_first_pfn: Option<u64>,
}

pub struct Emu {
    pub file: std::fs::File,
    pub pages: usize,
    pub state: Rc<RefCell<EmuState>>,
}

impl Emu {
    pub fn new(pages: usize) -> Emu {
        let file = tempfile().unwrap();
        file.set_len(pages as u64 * PAGE).unwrap();
        let state = Rc::new(RefCell::new(EmuState {
            zero_count_einval: true,
            ..Default::default()
        }));
        let fd = file.as_raw_fd();
        let st = state.clone();
        let handler = Box::new(move |ifd: i32, req: u64, arg: *mut libc::c_void| -> Option<(i32, i32)> {
            // The library works on dup()ed descriptors of the device file, so requests are
            // recognised by their ioctl type, not by the descriptor number.
            let _ = (ifd, fd);
            let ty = ((req >> 8) & 0xff) as u8;
            let nr = (req & 0xff) as u8;
            if ty != b'G' && ty != b'P' {
                return None;
            }
            let mut s = st.borrow_mut();
            // the request numbers of the kernel ABI (_IOC(_IOC_NONE, type, nr, size of the
            // argument struct)): a request with another size field is not the one the driver knows
            let expected: u64 = match (ty, nr) {
                (b'G', 0) => (24 << 16) | ((b'G' as u64) << 8),
                (b'G', 1) => (16 << 16) | ((b'G' as u64) << 8) | 1,
                (b'P', 4) => (32 << 16) | ((b'P' as u64) << 8) | 4,
                _ => req,
            };
            if req & 0xffff_ffff != expected {
                s.protocol_errors.push(format!("ioctl request {:#x} is not the driver's request number {:#x}", req, expected));
                return Some((-1, libc::ENOTTY));
            }
            match (ty, nr) {
                (b'G', 0) => {
                    // SAFETY: layout of ioctl_gntdev_map_grant_ref
                    let (count, first) = unsafe {
                        let count = *(arg as *const u32);
                        let first = if count > 0 { *((arg as *const u8).add(16 + 4) as *const u32) } else { 0 };
                        // references must be consecutive
                        for i in 0..count as usize {
                            let r = *((arg as *const u8).add(16 + 8 * i + 4) as *const u32);
                            if r != first + i as u32 {
                                s.protocol_errors.push(format!("map-grant refs not consecutive: {} at {}", r, i));
                            }
                        }
                        (count, first)
                    };
                    let mut fail = false;
                    if let Some(n) = s.fail_map_in {
                        if n == 0 {
                            s.fail_map_in = None;
                            fail = true;
                        } else {
                            s.fail_map_in = Some(n - 1);
                        }
                    }
                    if count == 0 && s.zero_count_einval {
                        fail = true;
                    }
                    if s.fail_all_maps {
                        fail = true;
                    }
                    // like gntdev_add_map: first fit among the live windows, in pages; the indexes
                    // start at INDEX_BASE so that they coincide with no file position, guest
                    // address or zero
                    let mut idx_pages = INDEX_BASE;
                    let mut wins: Vec<(u64, u32)> = s.live.clone();
                    wins.sort();
                    for (i, c) in wins {
                        let ip = i / PAGE;
                        if idx_pages + count as u64 <= ip {
                            break;
                        }
                        idx_pages = idx_pages.max(ip + c as u64);
                    }
                    let index = idx_pages * PAGE;
                    s.log.push(DevEvent::MapGrant { first_ref: first, count, index, ok: !fail });
                    if fail {
                        return Some((-1, libc::EINVAL));
                    }
                    // SAFETY: index field at offset 8
                    unsafe { *((arg as *mut u8).add(8) as *mut u64) = index };
                    s.live.push((index, count));
                    s.refs.insert(index, first);
                    s.max_live = s.max_live.max(s.live.len());
                    Some((0, 0))
                }
                (b'G', 1) => {
                    // SAFETY: layout of ioctl_gntdev_unmap_grant_ref
                    let (index, count) = unsafe { (*(arg as *const u64), *((arg as *const u8).add(8) as *const u32)) };
                    let pos = s.live.iter().position(|w| *w == (index, count));
                    s.log.push(DevEvent::UnmapGrant { index, count, ok: pos.is_some() });
                    match pos {
                        Some(p) => {
                            s.live.remove(p);
                            s.refs.remove(&index);
                            Some((0, 0))
                        }
                        None => {
                            s.protocol_errors.push(format!("unmap of a window that is not live: index {:#x} count {}", index, count));
                            Some((-1, libc::EINVAL))
                        }
                    }
                }
                (b'P', 4) => {
                    // SAFETY: num is the first field of privcmd_mmapbatch_v2
                    let num = unsafe { *(arg as *const u32) };
                    // SAFETY: layout of privcmd_mmapbatch_v2 (num, domid, addr, arr, err); the
                    // frame array holds `num` entries
                    let first_pfn = unsafe {
                        let arr = *((arg as *const u8).add(16) as *const *const u64);
                        let mut first = 0u64;
                        for i in 0..num as usize {
                            let f = *arr.add(i);
                            if i == 0 {
                                first = f;
                            } else if f != first + i as u64 {
                                s.protocol_errors.push(format!("privcmd batch: frame {} is {:#x}, expected {:#x}", i, f, first + i as u64));
                                break;
                            }
                        }
                        first
                    };
                    let ok = !s.fail_privcmd;
                    s.last_foreign_first_pfn = Some(first_pfn);
                    s.log.push(DevEvent::PrivcmdBatch { num, first_pfn, ok });
                    if ok {
                        Some((0, 0))
                    } else {
                        Some((-1, libc::EFAULT))
                    }
                }
                _ => {
                    s.protocol_errors.push(format!("unknown ioctl type {} nr {}", ty as char, nr));
                    Some((-1, libc::ENOTTY))
                }
            }
        });
        set_ioctl_handler(Some(handler));
        // mmap on the device: an offset in the index range must name a live window exactly
        // (gntdev_find_map_index); it is served from the pages of the window's grant references
        let st = state.clone();
        let ino = {
            use std::os::unix::fs::MetadataExt;
            file.metadata().unwrap().ino()
        };
        set_mmap_xlate(Some(Box::new(move |mfd: i32, off: i64, len: usize| -> Option<Result<i64, i32>> {
            if (off as u64) < INDEX_BASE * PAGE {
                return None;
            }
            // SAFETY: fstat on a descriptor number
            let same = unsafe {
                let mut stt: libc::stat = std::mem::zeroed();
                libc::fstat(mfd, &mut stt) == 0 && stt.st_ino as u64 == ino
            };
            if !same {
                return None;
            }
            let mut s = st.borrow_mut();
            let pages = (len as u64 + PAGE - 1) / PAGE;
            let hit = s.live.iter().any(|w| w.0 == off as u64 && w.1 as u64 == pages);
            if !hit {
                let msg = format!("mmap of device offset {:#x} ({} pages) names no live window {:x?}", off, pages, s.live);
                s.protocol_errors.push(msg);
                return Some(Err(libc::EINVAL));
            }
            let first = s.refs[&(off as u64)];
            Some(Ok((first as u64 * PAGE) as i64))
        })));
        Emu { file, pages, state }
    }

    pub fn file_offset(&self, start: u64) -> FileOffset {
        FileOffset::new(self.file.try_clone().unwrap(), start)
    }

    /// Grant region of `size` bytes whose first byte is guest page `first_page`.
    pub fn grant_region(&self, first_page: u64, size: usize, on_demand: bool) -> Result<GuestRegionMmap<()>, String> {
        let base = GuestAddress(first_page * PAGE);
        let flags = if on_demand { MmapXenFlags::GRANT.bits() | MmapXenFlags::NO_ADVANCE_MAP.bits() } else { MmapXenFlags::GRANT.bits() };
        let range = MmapRange::new(size, Some(self.file_offset(0)), base, flags, 0);
        let r = MmapRegion::<()>::from_range(range).map_err(|e| format!("{:?}", e))?;
        GuestRegionMmap::new(r, base).map_err(|e| format!("{:?}", e))
    }

    pub fn foreign_region(&self, base: u64, size: usize) -> Result<GuestRegionMmap<()>, String> {
        let range = MmapRange::new(size, Some(self.file_offset(0)), GuestAddress(base), MmapXenFlags::FOREIGN.bits(), 0);
        self.state.borrow_mut().last_foreign_first_pfn = None;
        let r = MmapRegion::<()>::from_range(range).map_err(|e| format!("{:?}", e))?;
        let named = self.state.borrow().last_foreign_first_pfn;
        if named != Some(base / PAGE) {
            self.state.borrow_mut().protocol_errors.push(format!("foreign region at guest address {:#x}: the privcmd batch names frame {:x?}, expected {:#x}", base, named, base / PAGE));
        }
        GuestRegionMmap::new(r, GuestAddress(base)).map_err(|e| format!("{:?}", e))
    }

    /// Direct view of the backing file (independent of the library).
    pub fn read_backing(&self, off: u64, len: usize) -> Vec<u8> {
        use std::os::unix::fs::FileExt;
        let mut b = vec![0u8; len];
        self.file.read_exact_at(&mut b, off).unwrap();
        b
    }
    pub fn write_backing(&self, off: u64, data: &[u8]) {
        use std::os::unix::fs::FileExt;
        self.file.write_all_at(data, off).unwrap();
    }

    pub fn take_log(&self) -> Vec<DevEvent> {
        std::mem::take(&mut self.state.borrow_mut().log)
    }
    pub fn live(&self) -> Vec<(u64, u32)> {
        self.state.borrow().live.clone()
    }
}

impl Drop for Emu {
    fn drop(&mut self) {
        set_ioctl_handler(None);
        set_mmap_xlate(None);
    }
}
