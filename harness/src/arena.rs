//! A read/write area flanked by PROT_NONE guard pages. Buffers are placed at chosen offsets so
//! that an access before or after the area faults, and everything around a buffer inside the
//! area is a canary that is compared after every operation.

pub struct Arena {
    map: *mut u8,
    map_len: usize,
    rw: *mut u8,
    rw_len: usize,
}

unsafe impl Send for Arena {}

pub const PAGE: usize = 4096;

impl Arena {
    pub fn new(pages: usize) -> Arena {
        let map_len = (pages + 2) * PAGE;
        // SAFETY: plain anonymous mapping
        unsafe {
            let map = libc::mmap(
                std::ptr::null_mut(),
                map_len,
                libc::PROT_NONE,
                libc::MAP_PRIVATE | libc::MAP_ANONYMOUS,
                -1,
                0,
            );
            assert!(map != libc::MAP_FAILED);
            let rw = (map as *mut u8).add(PAGE);
            assert_eq!(libc::mprotect(rw as *mut _, pages * PAGE, libc::PROT_READ | libc::PROT_WRITE), 0);
            Arena {
                map: map as *mut u8,
                map_len,
                rw,
                rw_len: pages * PAGE,
            }
        }
    }

    pub fn len(&self) -> usize {
        self.rw_len
    }

    pub fn ptr(&self) -> *mut u8 {
        self.rw
    }

    /// pointer `back` bytes before the trailing guard page
    pub fn ptr_from_end(&self, back: usize) -> *mut u8 {
        assert!(back <= self.rw_len);
        unsafe { self.rw.add(self.rw_len - back) }
    }

    pub fn bytes(&self) -> &[u8] {
        unsafe { std::slice::from_raw_parts(self.rw, self.rw_len) }
    }

    #[allow(clippy::mut_from_ref)]
    pub fn bytes_mut(&self) -> &mut [u8] {
        unsafe { std::slice::from_raw_parts_mut(self.rw, self.rw_len) }
    }

    pub fn fill_pattern(&self, salt: u8) {
        for (i, b) in self.bytes_mut().iter_mut().enumerate() {
            *b = pattern(i, salt);
        }
    }
}

#[inline]
pub fn pattern(i: usize, salt: u8) -> u8 {
    ((i as u32).wrapping_mul(167).wrapping_add(13) as u8) ^ salt
}

impl Drop for Arena {
    fn drop(&mut self) {
        unsafe {
            libc::munmap(self.map as *mut _, self.map_len);
        }
    }
}
