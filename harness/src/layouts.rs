//! Region layouts over a small universe of one-byte cells, the interval reference model, and a
//! second `GuestMemory` implementation (linear search, trait defaults only) next to the mmap one.

use std::sync::atomic::Ordering;
use vm_memory::bitmap::BS;
use vm_memory::guest_memory::{Error as GmError, Result as GmResult};
use vm_memory::{
    AtomicAccess, Bytes, GuestAddress, GuestMemory, GuestMemoryMmap, GuestMemoryRegion,
    GuestRegionMmap, GuestUsize, MemoryRegionAddress, ReadVolatile, VolatileMemory, VolatileSlice,
    WriteVolatile,
};

/// All sets of disjoint non-empty regions over `u` cells; adjacent regions are distinct from a
/// merged one. Each layout is a sorted list of (first cell, number of cells).
pub fn cell_layouts(u: usize) -> Vec<Vec<(usize, usize)>> {
    fn rec(i: usize, u: usize, cur: &mut Vec<(usize, usize)>, out: &mut Vec<Vec<(usize, usize)>>) {
        if i >= u {
            out.push(cur.clone());
            return;
        }
        // cell i is a hole
        rec(i + 1, u, cur, out);
        // a region starts at i
        for l in 1..=(u - i) {
            cur.push((i, l));
            rec(i + l, u, cur, out);
            cur.pop();
        }
    }
    let mut out = Vec::new();
    rec(0, u, &mut Vec::new(), &mut out);
    out.retain(|l| !l.is_empty());
    out
}

#[derive(Clone, Debug, PartialEq, Eq, Hash)]
pub struct Layout {
    /// sorted, disjoint (start, len), len >= 1, start + len <= 2^64
    pub regs: Vec<(u64, u64)>,
}

impl Layout {
    pub fn from_cells(base: u64, cells: &[(usize, usize)]) -> Layout {
        Layout {
            regs: cells
                .iter()
                .map(|(s, l)| (base.wrapping_add(*s as u64), *l as u64))
                .collect(),
        }
    }
    pub fn find(&self, a: u64) -> Option<(usize, u64)> {
        for (i, (s, l)) in self.regs.iter().enumerate() {
            if a >= *s && (a - *s) < *l {
                return Some((i, a - *s));
            }
        }
        None
    }
    pub fn mapped(&self, a: u64) -> bool {
        self.find(a).is_some()
    }
    /// number of consecutively mapped addresses from `a`, capped at `cap`, never past 2^64-1
    pub fn run(&self, a: u64, cap: u128) -> u128 {
        let mut n: u128 = 0;
        let mut cur = a as u128;
        while n < cap && cur <= u64::MAX as u128 {
            match self.find(cur as u64) {
                Some((i, off)) => {
                    let left = (self.regs[i].1 - off) as u128;
                    n += left;
                    cur += left;
                }
                None => break,
            }
        }
        n.min(cap)
    }
    pub fn last_addr(&self) -> u64 {
        self.regs.iter().map(|(s, l)| s + (l - 1)).max().unwrap_or(0)
    }
    pub fn describe(&self) -> String {
        self.regs
            .iter()
            .map(|(s, l)| format!("[{:#x},+{})", s, l))
            .collect::<Vec<_>>()
            .join(" ")
    }
    pub fn total(&self) -> usize {
        self.regs.iter().map(|r| r.1 as usize).sum()
    }
}

/// Builds a real mmap-backed guest memory for the layout (anonymous regions).
pub fn build_mmap(l: &Layout) -> Result<GuestMemoryMmap<()>, String> {
    if l.regs.is_empty() {
        // the map without regions (what is left when everything was unplugged)
        return Ok(GuestMemoryMmap::new());
    }
    let ranges: Vec<(GuestAddress, usize)> = l.regs.iter().map(|(s, n)| (GuestAddress(*s), *n as usize)).collect();
    GuestMemoryMmap::<()>::from_ranges(&ranges).map_err(|e| format!("{:?}", e))
}

/// Builds the same memory through a history of map updates instead of one constructor call:
/// route 0 = `from_ranges`; route 1 = a map of the last region, the others inserted one by one
/// from the back; route 2 = built together with extra one-byte regions below and above the
/// layout (where the address space has room), which are then removed again, lowest first.
/// Every intermediate map is asked all address queries before the next update (an answer remembered
/// by one map must not leak into the maps derived from it). The resulting map must be
/// indistinguishable from route 0.
/// Asks an intermediate map every query whose answer an implementation might remember, so
/// that a map derived from it starts from "warm" state.
fn touch_queries(m: &GuestMemoryMmap<()>) {
    use vm_memory::{GuestMemory, GuestMemoryRegion};
    let _ = m.last_addr();
    let _ = m.num_regions();
    let starts: Vec<GuestAddress> = m.iter().map(|r| r.start_addr()).collect();
    for a in starts {
        let _ = m.find_region(a);
        let _ = m.to_region_addr(a);
        let _ = m.check_range(a, 1);
        let _ = m.get_host_address(a);
    }
    let _ = m.address_in_range(m.last_addr());
    let _ = m.checked_offset(GuestAddress(0), usize::MAX);
}

pub fn build_mmap_route(l: &Layout, route: usize) -> Result<GuestMemoryMmap<()>, String> {
    if route == 0 || l.regs.is_empty() {
        return build_mmap(l);
    }
    let mk = |s: u64, n: u64| GuestRegionMmap::<()>::from_range(GuestAddress(s), n as usize, None).map_err(|e| format!("{:?}", e));
    if route == 1 {
        let (s, n) = *l.regs.last().unwrap();
        let mut m = GuestMemoryMmap::from_regions(vec![mk(s, n)?]).map_err(|e| format!("{:?}", e))?;
        for (s, n) in l.regs.iter().rev().skip(1) {
            touch_queries(&m);
            m = m.insert_region(std::sync::Arc::new(mk(*s, *n)?)).map_err(|e| format!("{:?}", e))?;
        }
        return Ok(m);
    }
    if route >= 3 {
        // every hole of the layout filled by one region, so that the map starts out without any
        // gap, and the fillers removed again one by one (from the middle of the map)
        let mut fillers: Vec<(u64, u64)> = Vec::new();
        for w in l.regs.windows(2) {
            let end = w[0].0 + w[0].1;
            if w[1].0 > end {
                fillers.push((end, w[1].0 - end));
            }
        }
        if !fillers.is_empty() && fillers.iter().all(|f| f.1 <= 1 << 16) {
            let mut all: Vec<(u64, u64)> = l.regs.clone();
            all.extend(fillers.iter().cloned());
            all.sort();
            let mut regions = Vec::new();
            for (s, n) in &all {
                regions.push(mk(*s, *n)?);
            }
            let mut m = GuestMemoryMmap::from_regions(regions).map_err(|e| format!("{:?}", e))?;
            for (s, n) in fillers {
                touch_queries(&m);
                m = m.remove_region(GuestAddress(s), n).map_err(|e| format!("{:?}", e))?.0;
            }
            return Ok(m);
        }
    }
    let first = l.regs[0].0;
    let (ls, ln) = *l.regs.last().unwrap();
    let mut extra: Vec<u64> = Vec::new();
    if first >= 0x2000 {
        extra.push(first - 0x1800);
        extra.push(first - 0x1000);
    }
    if let Some(above) = (ls + (ln - 1)).checked_add(0x1001) {
        extra.push(above);
    }
    let mut all: Vec<(u64, u64)> = l.regs.clone();
    all.extend(extra.iter().map(|e| (*e, 1u64)));
    all.sort();
    let mut regions = Vec::new();
    for (s, n) in &all {
        regions.push(mk(*s, *n)?);
    }
    let mut m = GuestMemoryMmap::from_regions(regions).map_err(|e| format!("{:?}", e))?;
    for e in extra {
        touch_queries(&m);
        m = m.remove_region(GuestAddress(e), 1).map_err(|e| format!("{:?}", e))?.0;
    }
    Ok(m)
}

/// `build_mmap_route`, reporting a refusal: when the plain constructor accepts the layout, a
/// sequence of valid insertions / removals that leads to it may not be refused.
pub fn build_mmap_route_checked(ctx: &crate::report::Ctx, prop: &str, l: &Layout, route: usize) -> Option<GuestMemoryMmap<()>> {
    match build_mmap_route(l, route) {
        Ok(m) => {
            // an update that would make the map invalid must be refused (the queries below
            // rely on sorted, disjoint regions): a region covering the whole layout and more
            if let (Some(first), Some(last)) = (l.regs.first(), l.regs.last()) {
                let start = first.0.saturating_sub(1);
                let end = (last.0 + (last.1 - 1)).saturating_add(1);
                if end - start < (1 << 24) {
                    if let Ok(r) = GuestRegionMmap::<()>::from_range(GuestAddress(start), (end - start + 1) as usize, None) {
                        if m.insert_region(std::sync::Arc::new(r)).is_ok() {
                            ctx.fail(
                                &format!("{}/map-built-by-updates/overlapping-insertion-accepted", prop),
                                &format!("layout {}: inserting a region [{:#x},+{}) that covers every existing region was accepted", l.describe(), start, end - start + 1),
                                serde_json::json!({"layout": l.regs, "route": route}),
                            );
                        }
                    }
                }
            }
            Some(m)
        }
        Err(e) => {
            if route != 0 && build_mmap(l).is_ok() {
                ctx.fail(
                    &format!("{}/map-built-by-updates/valid-update-refused", prop),
                    &format!("layout {} built through construction route {} (1 = insertions from the back, 2 = extra regions outside the layout removed again, 3 = every hole filled by a region that is removed again): {}", l.describe(), route, e),
                    serde_json::json!({"layout": l.regs, "route": route}),
                );
            } else {
                ctx.machinery(&format!("cannot build {} (route {}): {}", l.describe(), route, e));
            }
            None
        }
    }
}

/// Builds a file-backed guest memory (one temp file, regions at consecutive file offsets rounded
/// to pages). Returns the memory and the file with each region's file offset.
pub fn build_mmap_file(l: &Layout) -> Result<(GuestMemoryMmap<()>, std::fs::File, Vec<u64>), String> {
    use vm_memory::FileOffset;
    let f = tempfile().map_err(|e| e.to_string())?;
    let n = l.regs.len();
    f.set_len((n as u64 + 1) * 4096).map_err(|e| e.to_string())?;
    let mut offs = Vec::new();
    let mut regions = Vec::new();
    for (i, (s, len)) in l.regs.iter().enumerate() {
        let off = i as u64 * 4096;
        offs.push(off);
        let fo = FileOffset::new(f.try_clone().map_err(|e| e.to_string())?, off);
        let r = GuestRegionMmap::<()>::from_range(GuestAddress(*s), *len as usize, Some(fo)).map_err(|e| format!("{:?}", e))?;
        regions.push(r);
    }
    let m = GuestMemoryMmap::from_regions(regions).map_err(|e| format!("{:?}", e))?;
    Ok((m, f, offs))
}

pub fn tempfile() -> std::io::Result<std::fs::File> {
    use std::os::fd::FromRawFd;
    // anonymous in-memory file: nothing to clean up, unique per call
    let name = std::ffi::CString::new("vmcheck").unwrap();
    // SAFETY: plain syscall
    let fd = unsafe { libc::memfd_create(name.as_ptr(), 0) };
    if fd < 0 {
        return Err(std::io::Error::last_os_error());
    }
    // SAFETY: fd is ours
    Ok(unsafe { std::fs::File::from_raw_fd(fd) })
}

// ---------------------------------------------------------------------------------------------
// A second implementation of the traits that relies on every provided default method.

pub struct MockRegion {
    start: u64,
    data: Box<[u8]>,
}

impl MockRegion {
    pub fn new(start: u64, len: usize) -> MockRegion {
        MockRegion {
            start,
            data: vec![0u8; len].into_boxed_slice(),
        }
    }
    pub fn ptr(&self) -> *mut u8 {
        self.data.as_ptr() as *mut u8
    }
    fn vs(&self) -> VolatileSlice<'_, ()> {
        // SAFETY: data lives as long as self; all accesses go through volatile accessors
        unsafe { VolatileSlice::new(self.ptr(), self.data.len()) }
    }
}

impl Bytes<MemoryRegionAddress> for MockRegion {
    type E = GmError;
    fn write(&self, buf: &[u8], addr: MemoryRegionAddress) -> GmResult<usize> {
        self.vs().write(buf, addr.0 as usize).map_err(Into::into)
    }
    fn read(&self, buf: &mut [u8], addr: MemoryRegionAddress) -> GmResult<usize> {
        self.vs().read(buf, addr.0 as usize).map_err(Into::into)
    }
    fn write_slice(&self, buf: &[u8], addr: MemoryRegionAddress) -> GmResult<()> {
        self.vs().write_slice(buf, addr.0 as usize).map_err(Into::into)
    }
    fn read_slice(&self, buf: &mut [u8], addr: MemoryRegionAddress) -> GmResult<()> {
        self.vs().read_slice(buf, addr.0 as usize).map_err(Into::into)
    }
    fn read_volatile_from<F: ReadVolatile>(&self, addr: MemoryRegionAddress, src: &mut F, count: usize) -> GmResult<usize> {
        self.vs().read_volatile_from(addr.0 as usize, src, count).map_err(Into::into)
    }
    fn read_exact_volatile_from<F: ReadVolatile>(&self, addr: MemoryRegionAddress, src: &mut F, count: usize) -> GmResult<()> {
        self.vs().read_exact_volatile_from(addr.0 as usize, src, count).map_err(Into::into)
    }
    fn write_volatile_to<F: WriteVolatile>(&self, addr: MemoryRegionAddress, dst: &mut F, count: usize) -> GmResult<usize> {
        self.vs().write_volatile_to(addr.0 as usize, dst, count).map_err(Into::into)
    }
    fn write_all_volatile_to<F: WriteVolatile>(&self, addr: MemoryRegionAddress, dst: &mut F, count: usize) -> GmResult<()> {
        self.vs().write_all_volatile_to(addr.0 as usize, dst, count).map_err(Into::into)
    }
    fn store<T: AtomicAccess>(&self, val: T, addr: MemoryRegionAddress, order: Ordering) -> GmResult<()> {
        self.vs().store(val, addr.0 as usize, order).map_err(Into::into)
    }
    fn load<T: AtomicAccess>(&self, addr: MemoryRegionAddress, order: Ordering) -> GmResult<T> {
        self.vs().load(addr.0 as usize, order).map_err(Into::into)
    }
}

impl GuestMemoryRegion for MockRegion {
    type B = ();
    fn len(&self) -> GuestUsize {
        self.data.len() as u64
    }
    fn start_addr(&self) -> GuestAddress {
        GuestAddress(self.start)
    }
    fn bitmap(&self) -> &() {
        &()
    }
    fn get_host_address(&self, addr: MemoryRegionAddress) -> GmResult<*mut u8> {
        self.check_address(addr)
            .ok_or(GmError::InvalidBackendAddress)
            .map(|a| self.ptr().wrapping_add(a.0 as usize))
    }
    fn get_slice(&self, offset: MemoryRegionAddress, count: usize) -> GmResult<VolatileSlice<BS<()>>> {
        // SAFETY: see vs()
        let whole = unsafe { VolatileSlice::new(self.ptr(), self.data.len()) };
        Ok(whole.subslice(offset.0 as usize, count)?)
    }
}

pub struct MockMemory {
    /// in storage (= iteration) order, which is not the address order: the trait promises none
    pub regions: Vec<MockRegion>,
    /// storage index of the layout's i-th region
    order: Vec<usize>,
}

impl MockMemory {
    /// The storage order rotates with the layout: as given, reversed, or rotated by one (a slot
    /// table filled in registration order).
    pub fn new(l: &Layout) -> MockMemory {
        let n = l.regs.len();
        let kind = (l.regs.iter().map(|r| (r.0 % 7) as usize + r.1 as usize % 5).sum::<usize>() + n) % 3;
        Self::with_order(l, kind)
    }

    pub fn with_order(l: &Layout, kind: usize) -> MockMemory {
        let n = l.regs.len();
        // layout index held by storage slot k
        let slots: Vec<usize> = match kind {
            0 => (0..n).collect(),
            1 => (0..n).rev().collect(),
            _ => (0..n).map(|k| (k + 1) % n.max(1)).collect(),
        };
        let mut order = vec![0usize; n];
        for (k, li) in slots.iter().enumerate() {
            order[*li] = k;
        }
        MockMemory {
            regions: slots.iter().map(|li| MockRegion::new(l.regs[*li].0, l.regs[*li].1 as usize)).collect(),
            order,
        }
    }
}

impl GuestMemory for MockMemory {
    type R = MockRegion;
    fn num_regions(&self) -> usize {
        self.regions.len()
    }
    fn find_region(&self, addr: GuestAddress) -> Option<&MockRegion> {
        self.regions
            .iter()
            .find(|r| addr.0 >= r.start && addr.0 - r.start < r.data.len() as u64)
    }
    fn iter(&self) -> impl Iterator<Item = &MockRegion> {
        self.regions.iter()
    }
}

/// Host pointer of region `i` (independent of the lookup methods under test).
pub trait RegionPtrs {
    fn region_ptr(&self, i: usize) -> *mut u8;
}

impl RegionPtrs for GuestMemoryMmap<()> {
    fn region_ptr(&self, i: usize) -> *mut u8 {
        self.iter().nth(i).unwrap().as_ptr()
    }
}

impl RegionPtrs for MockMemory {
    fn region_ptr(&self, i: usize) -> *mut u8 {
        self.regions[self.order[i]].ptr()
    }
}
