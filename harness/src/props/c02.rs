//! C02 — guest address queries answer exactly according to the set of mapped regions.

use crate::layouts::{build_mmap, build_mmap_route_checked, cell_layouts, Layout, MockMemory, RegionPtrs};
use crate::report::{Ctx, Tier};
use serde_json::{json, Value};
use std::collections::BTreeSet;
use vm_memory::{Address, GuestAddress, GuestMemory, GuestMemoryRegion, MemoryRegionAddress};

const IMAX: usize = isize::MAX as usize;
const EXT: [usize; 5] = [IMAX - 1, IMAX, IMAX + 1, usize::MAX - 1, usize::MAX];

fn rp(imp: &str, l: &Layout, q: &str, a: u64, n: usize) -> Value {
    json!({"impl": imp, "layout": l.regs, "query": q, "addr": a, "len_or_offset": n})
}

fn fail(ctx: &Ctx, imp: &str, l: &Layout, q: &str, a: u64, n: usize, d: String) {
    let key = format!("C02/{}/{}", imp, q);
    let r = if ctx.has_failed(&key) { Value::Null } else { rp(imp, l, q, a, n) };
    ctx.fail(&key, &format!("layout {} addr {:#x} arg {}: {}", l.describe(), a, n, d), r);
}

/// All queries against one memory object. `wrap_known` = the layout has a region ending at
/// 2^64-1 (only the trait-default mock can be built like that).
fn check_queries_inner<M: GuestMemory + RegionPtrs>(
    ctx: &Ctx,
    imp: &str,
    mem: &M,
    l: &Layout,
    addrs: &[u64],
    lens: &[usize],
    touch: bool,
) {
    // collection-level
    ctx.case(true);
    if mem.num_regions() != l.regs.len() {
        fail(ctx, imp, l, "num_regions", 0, 0, format!("{} != {}", mem.num_regions(), l.regs.len()));
    }
    let it: Vec<(u64, u64)> = mem.iter().map(|r| (r.start_addr().0, r.len())).collect();
    // (the second implementation keeps its regions in an order of its own: the trait promises
    // no iteration order)
    let mut it_sorted = it.clone();
    it_sorted.sort();
    if (imp == "mmap" && it != l.regs) || it_sorted != l.regs {
        fail(ctx, imp, l, "iter", 0, 0, format!("iter() yields {:?}", it));
        return;
    }
    if mem.last_addr().0 != l.last_addr() {
        fail(ctx, imp, l, "last_addr", 0, 0, format!("{:#x} != {:#x}", mem.last_addr().0, l.last_addr()));
    }
    // per region defaults
    for r in mem.iter() {
        let i = l.regs.iter().position(|x| x.0 == r.start_addr().0).unwrap();
        let (s, n) = l.regs[i];
        if r.last_addr().0 != s + (n - 1) {
            fail(ctx, imp, l, "region.last_addr", s, 0, format!("{:#x}", r.last_addr().0));
        }
        let offs: Vec<u64> = (0..n + 3).chain([u64::MAX - 1, u64::MAX, 1 << 63]).collect();
        for &o in &offs {
            ctx.case(o <= n);
            let inside = o < n;
            if r.address_in_range(MemoryRegionAddress(o)) != inside {
                fail(ctx, imp, l, "region.address_in_range", s, o as usize, format!("offset {} -> {}", o, !inside));
            }
            if r.check_address(MemoryRegionAddress(o)).map(|a| a.0) != if inside { Some(o) } else { None } {
                fail(ctx, imp, l, "region.check_address", s, o as usize, format!("offset {}", o));
            }
            match r.get_host_address(MemoryRegionAddress(o)) {
                Ok(p) => {
                    if !inside || p != mem.region_ptr(i).wrapping_add(o as usize) {
                        fail(ctx, imp, l, "region.get_host_address", s, o as usize, format!("offset {} -> {:p}", o, p));
                    }
                }
                Err(_) => {
                    if inside {
                        fail(ctx, imp, l, "region.get_host_address", s, o as usize, format!("offset {} refused", o));
                    }
                }
            }
            for &k in lens {
                // checked_offset: the sum must fit and lie inside the region
                let want = (o as u128 + k as u128 <= u64::MAX as u128 && (o as u128 + k as u128) < n as u128).then(|| o.wrapping_add(k as u64));
                if r.checked_offset(MemoryRegionAddress(o), k).map(|a| a.0) != want {
                    fail(ctx, imp, l, "region.checked_offset", s, k, format!("offset {} + {} -> {:?}, expected {:?}", o, k, r.checked_offset(MemoryRegionAddress(o), k), want));
                }
                if k >= 1 {
                    let fits = (o as u128) + (k as u128) <= n as u128;
                    match r.get_slice(MemoryRegionAddress(o), k) {
                        Ok(sl) => {
                            if !fits || sl.len() != k || sl.ptr_guard().as_ptr() != mem.region_ptr(i).wrapping_add(o as usize) as *const u8 {
                                fail(ctx, imp, l, "region.get_slice", s, k, format!("offset {} count {} -> slice len {}", o, k, sl.len()));
                            }
                        }
                        Err(_) => {
                            if fits {
                                fail(ctx, imp, l, "region.get_slice", s, k, format!("offset {} count {} refused", o, k));
                            }
                        }
                    }
                }
            }
        }
        if touch {
            match r.as_volatile_slice() {
                Ok(sl) => {
                    if sl.len() as u64 != n {
                        fail(ctx, imp, l, "region.as_volatile_slice", s, 0, format!("len {}", sl.len()));
                    }
                }
                Err(e) => fail(ctx, imp, l, "region.as_volatile_slice", s, 0, format!("{:?}", e)),
            }
        }
        for &a in addrs {
            let want = (a >= s && a - s < n).then(|| a - s);
            if r.to_region_addr(GuestAddress(a)).map(|x| x.0) != want {
                fail(ctx, imp, l, "region.to_region_addr", a, 0, format!("-> {:?}, expected {:?}", r.to_region_addr(GuestAddress(a)), want));
            }
        }
    }
    // address-level
    for &a in addrs {
        let ga = GuestAddress(a);
        let m = l.find(a);
        ctx.case(true);
        match (mem.find_region(ga), m) {
            (Some(r), Some((i, _))) => {
                if (r.start_addr().0, r.len()) != l.regs[i] {
                    fail(ctx, imp, l, "find_region", a, 0, format!("resolved to region [{:#x},+{}) instead of {:?}", r.start_addr().0, r.len(), l.regs[i]));
                }
            }
            (None, None) => {}
            (Some(r), None) => fail(ctx, imp, l, "find_region", a, 0, format!("unmapped address resolved to region [{:#x},+{})", r.start_addr().0, r.len())),
            (None, Some(_)) => fail(ctx, imp, l, "find_region", a, 0, "mapped address resolved to nothing".into()),
        }
        match (mem.to_region_addr(ga), m) {
            (Some((r, off)), Some((i, o))) => {
                if r.start_addr().0 != l.regs[i].0 || off.0 != o {
                    fail(ctx, imp, l, "to_region_addr", a, 0, format!("-> region {:#x} offset {}", r.start_addr().0, off.0));
                }
            }
            (None, None) => {}
            (x, _) => fail(ctx, imp, l, "to_region_addr", a, 0, format!("-> {:?}, model {:?}", x.map(|(r, o)| (r.start_addr().0, o.0)), m)),
        }
        if mem.address_in_range(ga) != m.is_some() {
            fail(ctx, imp, l, "address_in_range", a, 0, format!("-> {}", !m.is_some()));
        }
        if mem.check_address(ga).map(|x| x.0) != m.map(|_| a) {
            fail(ctx, imp, l, "check_address", a, 0, format!("-> {:?}", mem.check_address(ga)));
        }
        match (mem.get_host_address(ga), m) {
            (Ok(p), Some((i, o))) => {
                if p != mem.region_ptr(i).wrapping_add(o as usize) {
                    fail(ctx, imp, l, "get_host_address", a, 0, format!("-> {:p}, expected region {} + {}", p, i, o));
                }
            }
            (Err(_), None) => {}
            (Ok(p), None) => fail(ctx, imp, l, "get_host_address", a, 0, format!("unmapped address -> {:p}", p)),
            (Err(e), Some(_)) => fail(ctx, imp, l, "get_host_address", a, 0, format!("mapped address refused: {:?}", e)),
        }
        for &k in lens {
            ctx.case(k >= 1);
            // checked_offset(base, off): base+off fits and is mapped (holes in between irrelevant)
            let sum = a as u128 + k as u128;
            let want = (sum <= u64::MAX as u128 && l.mapped(sum as u64)).then(|| sum as u64);
            let got = mem.checked_offset(ga, k).map(|x| x.0);
            if got != want {
                fail(ctx, imp, l, "checked_offset", a, k, format!("-> {:?}, expected {:?}", got, want));
            }
            if k >= 1 {
                let want = l.run(a, k as u128) >= k as u128;
                let got = mem.check_range(ga, k);
                if got != want {
                    let wraps = a as u128 + k as u128 > (1u128 << 64);
                    let q = if wraps { "check_range/wraps-past-2^64" } else { "check_range" };
                    fail(ctx, imp, l, q, a, k, format!("-> {}, but the run of mapped bytes from there is {}", got, l.run(a, k as u128)));
                }
                let fits = m.map_or(false, |(i, o)| o as u128 + k as u128 <= l.regs[i].1 as u128);
                match mem.get_slice(ga, k) {
                    Ok(sl) => {
                        let ok = fits
                            && sl.len() == k
                            && m.map_or(false, |(i, o)| sl.ptr_guard().as_ptr() == mem.region_ptr(i).wrapping_add(o as usize) as *const u8);
                        if !ok {
                            fail(ctx, imp, l, "get_slice", a, k, format!("granted a slice of len {} (range in one region: {})", sl.len(), fits));
                        }
                    }
                    Err(_) => {
                        if fits {
                            fail(ctx, imp, l, "get_slice", a, k, "refused a range contained in one region".into());
                        }
                    }
                }
            } else {
                // len 0: recorded, not judged
                let _ = mem.check_range(ga, 0);
                let _ = mem.get_slice(ga, 0);
            }
        }
    }
}

pub fn check_queries<M: GuestMemory + RegionPtrs>(ctx: &Ctx, imp: &str, mem: &M, l: &Layout, addrs: &[u64], lens: &[usize], touch: bool) {
    let describe = || (format!("C02/{}/query", imp), format!("layout {}", l.describe()), json!({"impl": imp, "layout": l.regs, "addr": addrs.first(), "len_or_offset": lens.first()}));
    crate::crash::guarded(ctx, &describe, || check_queries_inner(ctx, imp, mem, l, addrs, lens, touch));
}

fn probe_addrs(base: u64, u: usize, l: &Layout) -> Vec<u64> {
    let mut s: BTreeSet<u64> = BTreeSet::new();
    for d in -2i64..(u as i64 + 2) {
        s.insert(base.wrapping_add(d as u64));
    }
    for x in [0u64, 1, 1 << 63, u64::MAX - 1, u64::MAX] {
        s.insert(x);
    }
    for (st, n) in &l.regs {
        for d in [-1i64, 0, 1] {
            s.insert(st.wrapping_add(d as u64));
            s.insert(st.wrapping_add(*n).wrapping_add(d as u64));
        }
    }
    s.into_iter().collect()
}

/// `n` small regions from `base`: pattern 0 = all adjacent one-byte regions, 1 = one-byte regions
/// separated by one-byte holes, 2 = sizes 1,2,3,1,2,3.. alternating adjacent / hole.
pub fn many_regions(base: u64, n: usize, pattern: usize) -> Layout {
    let mut regs = Vec::new();
    let mut cur = base;
    for i in 0..n {
        let (len, gap) = match pattern {
            0 => (1u64, 0u64),
            1 => (1, 1),
            _ => ((i % 3) as u64 + 1, (i % 2) as u64),
        };
        regs.push((cur, len));
        cur += len + gap;
    }
    Layout { regs }
}

pub fn bases_mmap(u: usize) -> Vec<u64> {
    vec![0, 0x1000, (1u64 << 32) - 3, (1u64 << 63) - 3, u64::MAX - u as u64]
}

pub fn run(tier: Tier, replay: Option<String>) -> i32 {
    let ctx = crate::new_ctx("C02", tier, "exploration", &replay);
    ctx.set_rule("the map without regions (fresh, and emptied by removals) and every set of disjoint non-empty regions over U one-byte cells (adjacent distinguished from merged) x bases {0, 0x1000, 2^32-3, 2^63-3, top of the address space} x every query method at every address of [base-2, base+U+2) plus {0,1,2^63,2^64-2,2^64-1} x every length/offset 0..=U+2 plus values around isize::MAX/usize::MAX; for GuestMemoryMmap (real mmaps; built, rotating with the layout, by one constructor call, by insertions from the back, with extra regions outside the layout that are removed again, or from a gap-free map whose hole-filling regions are removed again) and for a linear-search implementation that inherits all default methods (regions may end at 2^64-1); huge layouts (2^20..2^62 bytes, 1-byte and 2^61-byte holes) through raw regions, probed at region starts/ends +-1. Oracle: sorted interval list. A case is one (layout, address[, length]) query group; non-trivial = length >= 1 or an address-level query; distinct by construction.");
    ctx.assume("ranges of length 0 are executed but not judged (the statement quantifies over the bytes of the range)");
    let u = if tier.thorough() { 12 } else { 7 };
    let cells = cell_layouts(u);
    let lens: Vec<usize> = (0..=u + 2).chain(EXT.iter().cloned()).collect();
    if let Some(r) = ctx.replay_of.clone() {
        let c = &r["case"];
        let regs: Vec<(u64, u64)> = c["layout"].as_array().map(|a| a.iter().filter_map(|p| Some((p[0].as_u64()?, p[1].as_u64()?))).collect()).unwrap_or_default();
        let l = Layout { regs };
        let a = c["addr"].as_u64().unwrap_or(0);
        let n = c["len_or_offset"].as_u64().unwrap_or(0) as usize;
        let imp = c["impl"].as_str().unwrap_or("mock");
        println!("replaying {} layout {} addr {:#x} arg {}", imp, l.describe(), a, n);
        if imp == "mmap" {
            match build_mmap(&l) {
                Ok(m) => check_queries(&ctx, "mmap", &m, &l, &[a], &[n], true),
                Err(e) => println!("cannot build: {}", e),
            }
        } else {
            let m = MockMemory::new(&l);
            check_queries(&ctx, "mock", &m, &l, &[a], &[n], true);
        }
        return ctx.finish();
    }
    let nlay = std::sync::atomic::AtomicU64::new(0);
    std::thread::scope(|s| {
        let ctx = &ctx;
        let cells = &cells;
        let lens = &lens;
        let nlay = &nlay;
        for t in 0..14usize {
            s.spawn(move || {
                for (ci, c) in cells.iter().enumerate() {
                    if ci % 14 != t {
                        continue;
                    }
                    for base in bases_mmap(u) {
                        let l = Layout::from_cells(base, c);
                        let addrs = probe_addrs(base, u, &l);
                        // the construction route rotates with the layout: one call, insertions,
                        // or extra regions removed again
                        if let Some(m) = build_mmap_route_checked(ctx, "C02", &l, (ci + (base % 7) as usize) % 4) {
                            check_queries(ctx, "mmap", &m, &l, &addrs, lens, true);
                            nlay.fetch_add(1, std::sync::atomic::Ordering::Relaxed);
                        }
                    }
                    // the mock may also hold a region that ends at 2^64-1
                    for base in [0u64, 0x1000, (1u64 << 63) - 3, u64::MAX - u as u64, (u64::MAX - u as u64).wrapping_add(1)] {
                        let l = Layout::from_cells(base, c);
                        let addrs = probe_addrs(base, u, &l);
                        let m = MockMemory::new(&l);
                        check_queries(ctx, "mock", &m, &l, &addrs, lens, true);
                        nlay.fetch_add(1, std::sync::atomic::Ordering::Relaxed);
                        // the mmap collection refuses a region that ends at 2^64 today; should it
                        // ever accept one, its queries have to be right for it as well
                        if l.regs.last().map_or(false, |r| r.0.checked_add(r.1).is_none()) {
                            if let Ok(mm) = build_mmap(&l) {
                                let r = crate::crash::quiet_unwind(|| check_queries(ctx, "mmap", &mm, &l, &addrs, lens, true));
                                if r.is_err() {
                                    fail(ctx, "mmap", &l, "panic", base, 0, "a query on a map whose last region ends at the top of the address space panicked".into());
                                }
                                nlay.fetch_add(1, std::sync::atomic::Ordering::Relaxed);
                            }
                        }
                    }
                }
            });
        }
    });
    // wrap-around layouts for the trait-default implementation: regions at 0 and ending at 2^64-1
    for lo in 1..=3u64 {
        for hi in 1..=3u64 {
            let l = Layout { regs: vec![(0, lo), (u64::MAX - hi + 1, hi)] };
            let m = MockMemory::new(&l);
            let addrs: Vec<u64> = (0..5).chain((0..6).map(|d| u64::MAX - d)).collect();
            check_queries(&ctx, "mock", &m, &l, &addrs, &lens, true);
            nlay.fetch_add(1, std::sync::atomic::Ordering::Relaxed);
        }
    }
    // no region at all: a fresh GuestMemoryMmap::new(), and a map emptied by removing its regions
    {
        use vm_memory::{GuestAddress, GuestMemoryMmap};
        let l = Layout { regs: vec![] };
        let addrs: Vec<u64> = vec![0, 1, 0x1000, 0x1005, 1 << 32, 1 << 63, u64::MAX - 1, u64::MAX];
        let lens2: Vec<usize> = vec![0, 1, 2, 4096, usize::MAX];
        let fresh = GuestMemoryMmap::<()>::new();
        check_queries(&ctx, "mmap", &fresh, &l, &addrs, &lens2, true);
        if let Ok(m) = GuestMemoryMmap::<()>::from_ranges(&[(GuestAddress(0x1000), 5), (GuestAddress(0x1005), 1), (GuestAddress(1 << 32), 4096)]) {
            let emptied = m
                .remove_region(GuestAddress(0x1005), 1)
                .and_then(|(m, _)| m.remove_region(GuestAddress(1 << 32), 4096))
                .and_then(|(m, _)| m.remove_region(GuestAddress(0x1000), 5));
            match emptied {
                Ok((m, _)) => check_queries(&ctx, "mmap", &m, &l, &addrs, &lens2, true),
                Err(e) => ctx.fail("C02/map-built-by-updates/valid-update-refused", &format!("removing every region one by one: {:?}", e), json!({"layout": "emptied"})),
            }
        }
        nlay.fetch_add(2, std::sync::atomic::Ordering::Relaxed);
    }
    // layouts with many regions (lookup strategies may change with the region count)
    for n in [9usize, 10, 12, 16, 17, 32, 33, 64, 65] {
        for pattern in 0..3 {
            let l = many_regions(0x1000, n, pattern);
            let span = (l.regs.last().unwrap().0 + l.regs.last().unwrap().1 - 0x1000) as usize;
            let addrs: Vec<u64> = (0..span as u64 + 3).map(|d| 0x0fff + d).chain([0, u64::MAX]).collect();
            let lens2: Vec<usize> = vec![0, 1, 2, 3, 4, span, span + 1, usize::MAX];
            for route in 0..4 {
                if let Some(m) = build_mmap_route_checked(&ctx, "C02", &l, route) {
                    check_queries(&ctx, "mmap", &m, &l, &addrs, &lens2, true);
                }
            }
            let mock = MockMemory::new(&l);
            check_queries(&ctx, "mock", &mock, &l, &addrs, &lens2, true);
            nlay.fetch_add(2, std::sync::atomic::Ordering::Relaxed);
        }
    }
    // huge layouts over raw regions (queries never touch memory)
    huge(&ctx, &nlay);
    carved(&ctx, &nlay);
    ctx.extra("universe_cells", json!(u));
    ctx.extra("cell_layouts", json!(cells.len()));
    ctx.extra("layouts_checked", json!(nlay.load(std::sync::atomic::Ordering::Relaxed)));
    ctx.sample(json!({"impl": "mmap", "layout": "[0xfffffffffffffff9,+2) [0xfffffffffffffffb,+1) (adjacent, at the top)", "queries": "find_region/to_region_addr/check_range/get_slice/... at every address of [base-2, base+U+2) and lengths 0..=U+2 + extremes"}));
    ctx.sample(json!({"impl": "mock (trait defaults)", "layout": "[0x0,+2) [0xfffffffffffffffe,+2)", "query": "check_range(0xfffffffffffffffe, 3)", "expected": false}));
    ctx.set_exhaustive(true);
    ctx.finish()
}

/// Regions carved out of ONE host mapping, so that regions adjacent in the guest are adjacent in
/// the host too (in ascending and in descending host order): a range is still granted as one
/// slice only inside one region, however the memory behind the regions happens to lie.
#[cfg(not(feature = "xen"))]
fn carved(ctx: &Ctx, nlay: &std::sync::atomic::AtomicU64) {
    use vm_memory::{GuestMemoryMmap, GuestRegionMmap, MmapRegion};
    const P: u64 = 4096;
    let arena = crate::arena::Arena::new(6);
    for descending in [false, true] {
        // guest: three adjacent regions of 1, 1 and 2 pages, a hole of one page, one more page
        let l = Layout { regs: vec![(0x10000, P), (0x11000, P), (0x12000, 2 * P), (0x15000, P)] };
        let host_page: [usize; 4] = if descending { [5, 4, 2, 0] } else { [0, 1, 2, 5] };
        let mut regions = Vec::new();
        for ((s, n), hp) in l.regs.iter().zip(host_page) {
            // SAFETY: the pages belong to the arena, which outlives the map
            let r = unsafe { MmapRegion::<()>::build_raw(arena.ptr().add(hp * P as usize), *n as usize, libc::PROT_READ | libc::PROT_WRITE, libc::MAP_PRIVATE | libc::MAP_ANONYMOUS) }.unwrap();
            regions.push(GuestRegionMmap::new(r, GuestAddress(*s)).unwrap());
        }
        let m = GuestMemoryMmap::from_regions(regions).unwrap();
        let mut addrs: BTreeSet<u64> = BTreeSet::new();
        for (s, n) in &l.regs {
            for d in [-2i64, -1, 0, 1, 2] {
                addrs.insert(s.wrapping_add(d as u64));
                addrs.insert((s + n).wrapping_add(d as u64));
            }
            addrs.insert(s + n / 2);
        }
        let lens: Vec<usize> = vec![0, 1, 2, 3, 4094, 4095, 4096, 4097, 4098, 8191, 8192, 8193, 12288, 16384, 16385, 24576, usize::MAX];
        let addrs: Vec<u64> = addrs.into_iter().collect();
        check_queries(ctx, "mmap", &m, &l, &addrs, &lens, true);
        nlay.fetch_add(1, std::sync::atomic::Ordering::Relaxed);
    }
}

#[cfg(feature = "xen")]
fn carved(_ctx: &Ctx, _nlay: &std::sync::atomic::AtomicU64) {}

#[cfg(not(feature = "xen"))]
fn huge(ctx: &Ctx, nlay: &std::sync::atomic::AtomicU64) {
    use vm_memory::{GuestMemoryMmap, GuestRegionMmap, MmapRegion};
    let arena = crate::arena::Arena::new(1);
    let sizes: [u64; 4] = [1 << 20, (1 << 32) + 5, 1 << 61, (1 << 62) - 1];
    let holes: [u64; 3] = [0, 1, 1 << 61];
    let starts: [u64; 3] = [0, 0x1000, 1 << 40];
    for &s0 in &starts {
        for &n0 in &sizes {
            for &h in &holes {
                for &n1 in &sizes {
                    let s1 = match s0.checked_add(n0).and_then(|x| x.checked_add(h)) {
                        Some(x) => x,
                        None => continue,
                    };
                    if s1.checked_add(n1).is_none() {
                        continue;
                    }
                    let l = Layout { regs: vec![(s0, n0), (s1, n1)] };
                    let mut regions = Vec::new();
                    for (s, n) in &l.regs {
                        // SAFETY: the region is never dereferenced by the queries below
                        let r = unsafe { MmapRegion::<()>::build_raw(arena.ptr(), *n as usize, libc::PROT_READ, libc::MAP_PRIVATE | libc::MAP_ANONYMOUS) }.unwrap();
                        regions.push(GuestRegionMmap::new(r, GuestAddress(*s)).unwrap());
                    }
                    let m = GuestMemoryMmap::from_regions(regions).unwrap();
                    let mut addrs: BTreeSet<u64> = BTreeSet::new();
                    for (s, n) in &l.regs {
                        for d in [-1i64, 0, 1] {
                            addrs.insert(s.wrapping_add(d as u64));
                            addrs.insert((s + n).wrapping_add(d as u64));
                        }
                    }
                    for x in [0u64, 1, 1 << 63, u64::MAX - 1, u64::MAX] {
                        addrs.insert(x);
                    }
                    let addrs: Vec<u64> = addrs.into_iter().collect();
                    let lens: Vec<usize> = [0usize, 1, 2, n0 as usize - 1, n0 as usize, n0 as usize + 1, (n0 + h) as usize, (n0 + h) as usize + 1, (n0 + h + n1) as usize, (n0 + h + n1) as usize + 1]
                        .into_iter()
                        .chain(EXT.iter().cloned())
                        .collect();
                    let describe = || ("C02/mmap-raw-huge/query".to_string(), format!("layout {}", l.describe()), json!({"impl": "mmap-raw-huge", "layout": l.regs}));
                    crate::crash::guarded(ctx, &describe, || check_queries_huge(ctx, &m, &l, &addrs, &lens));
                    nlay.fetch_add(1, std::sync::atomic::Ordering::Relaxed);
                }
            }
        }
    }
}

#[cfg(not(feature = "xen"))]
fn check_queries_huge(ctx: &Ctx, m: &vm_memory::GuestMemoryMmap<()>, l: &Layout, addrs: &[u64], lens: &[usize]) {
    // same oracle; region offsets are probed only at the ends (the generic routine walks 0..n)
    let imp = "mmap-raw-huge";
    if m.last_addr().0 != l.last_addr() {
        fail(ctx, imp, l, "last_addr", 0, 0, format!("{:#x}", m.last_addr().0));
    }
    for &a in addrs {
        let ga = GuestAddress(a);
        let f = l.find(a);
        ctx.case(true);
        if m.find_region(ga).map(|r| r.start_addr().0) != f.map(|(i, _)| l.regs[i].0) {
            fail(ctx, imp, l, "find_region", a, 0, "wrong region".into());
        }
        if m.to_region_addr(ga).map(|(_, o)| o.0) != f.map(|(_, o)| o) {
            fail(ctx, imp, l, "to_region_addr", a, 0, "wrong offset".into());
        }
        if m.address_in_range(ga) != f.is_some() {
            fail(ctx, imp, l, "address_in_range", a, 0, "".into());
        }
        for &k in lens {
            ctx.case(k >= 1);
            let sum = a as u128 + k as u128;
            let want = (sum <= u64::MAX as u128 && l.mapped(sum as u64)).then(|| sum as u64);
            if m.checked_offset(ga, k).map(|x| x.0) != want {
                fail(ctx, imp, l, "checked_offset", a, k, format!("expected {:?}", want));
            }
            if k >= 1 {
                let want = l.run(a, k as u128) >= k as u128;
                if m.check_range(ga, k) != want {
                    fail(ctx, imp, l, "check_range", a, k, format!("expected {}", want));
                }
                let fits = f.map_or(false, |(i, o)| o as u128 + k as u128 <= l.regs[i].1 as u128);
                if m.get_slice(ga, k).is_ok() != fits {
                    fail(ctx, imp, l, "get_slice", a, k, format!("expected ok={}", fits));
                }
            }
        }
    }
}

#[cfg(feature = "xen")]
fn huge(_ctx: &Ctx, _nlay: &std::sync::atomic::AtomicU64) {}
