//! C15 — region construction accepts exactly the safe requests and builds what was asked.

use crate::interpose::{fail_mmap_in, record_maps, MapEvent};
use crate::layouts::tempfile;
use crate::report::{Ctx, Tier};
use serde_json::{json, Value};
use std::os::fd::AsRawFd;
use std::os::unix::fs::FileExt;
use vm_memory::{Bytes, FileOffset, GuestAddress, GuestRegionMmap, MemoryRegionAddress, MmapRegion};

fn left_mapped(log: &[MapEvent]) -> Vec<(usize, usize)> {
    let mut live: Vec<(usize, usize)> = Vec::new();
    for e in log {
        match e {
            MapEvent::Map { addr, len, ok: true, .. } => live.push((*addr, *len)),
            MapEvent::Unmap { addr, len, .. } => {
                if let Some(p) = live.iter().position(|m| m.0 == *addr && m.1 == *len) {
                    live.remove(p);
                }
            }
            _ => {}
        }
    }
    live
}

fn fixed_attempted(log: &[MapEvent]) -> bool {
    log.iter().any(|e| matches!(e, MapEvent::Map { flags, .. } if flags & libc::MAP_FIXED != 0))
}

fn fail(ctx: &Ctx, key: &str, detail: String, rp: Value) {
    let r = if ctx.has_failed(key) { Value::Null } else { rp };
    ctx.fail(key, &detail, r);
}

#[cfg(not(feature = "xen"))]
fn std_part(ctx: &Ctx, thorough: bool) {
    let flag_bits = [libc::MAP_PRIVATE, libc::MAP_SHARED, libc::MAP_ANONYMOUS, libc::MAP_NORESERVE, libc::MAP_FIXED];
    let mut flag_words: Vec<i32> = Vec::new();
    for mask in 0u32..32 {
        let mut w = 0;
        for (i, b) in flag_bits.iter().enumerate() {
            if mask & (1 << i) != 0 {
                w |= b;
            }
        }
        flag_words.push(w);
    }
    let prots = [libc::PROT_READ | libc::PROT_WRITE, libc::PROT_READ, libc::PROT_NONE];
    let file_lens: [u64; 7] = [0, 1, 4095, 4096, 4097, 8192, 12288];
    let mut cursor_turn = 0usize;
    for &flen in &file_lens {
        let f = tempfile().unwrap();
        f.set_len(flen).unwrap();
        let mut offs: Vec<u64> = vec![0, 1, 4096, flen.saturating_sub(1), flen, flen + 1, u64::MAX - 4095, u64::MAX];
        offs.sort();
        offs.dedup();
        for &off in &offs {
            let rest = flen.saturating_sub(off);
            let mut sizes: Vec<usize> = vec![0, 1, 4096, rest.saturating_sub(1) as usize, rest as usize, rest as usize + 1, usize::MAX, isize::MAX as usize];
            sizes.sort();
            sizes.dedup();
            for &size in &sizes {
                for &flags in &flag_words {
                    if !thorough && flags & libc::MAP_NORESERVE != 0 && flags & libc::MAP_FIXED == 0 && (off > 4096 || size > 8192) {
                        continue;
                    }
                    for &prot in &prots[..if thorough { 3 } else { 1 }] {
                        ctx.case(true);
                        let end = off.checked_add(size as u64);
                        let must_fail = flags & libc::MAP_FIXED != 0 || end.is_none() || end.unwrap() > flen;
                        // where the descriptor's cursor happens to stand (left there by earlier
                        // reads, writes or seeks of the caller) has no say in what is safe to map
                        {
                            use std::io::{Seek, SeekFrom};
                            cursor_turn += 1;
                            let pos = match cursor_turn % 6 {
                                0 => 0,
                                1 => flen,
                                2 => end.unwrap_or(u64::MAX >> 1),
                                3 => end.unwrap_or(0).saturating_add(1),
                                4 => 1 << 40,
                                _ => off,
                            };
                            let _ = (&f).seek(SeekFrom::Start(pos.min(i64::MAX as u64)));
                        }
                        let fo = FileOffset::new(f.try_clone().unwrap(), off);
                        let rp = || json!({"api": "MmapRegion::build", "file_len": flen, "offset": off, "size": size, "prot": prot, "flags": flags});
                        let (res, log) = record_maps(|| MmapRegion::<()>::build(Some(fo), size, prot, flags));
                        judge_std(ctx, "MmapRegion::build(file)", res, &log, must_fail, size, prot, flags, Some((f.as_raw_fd(), off)), &rp);
                    }
                }
                // the builder with every option it has, incl. the hugetlbfs hint (a hint never
                // changes what is safe to map)
                for huge in [None, Some(false), Some(true)] {
                    use vm_memory::mmap::MmapRegionBuilder;
                    ctx.case(true);
                    let end = off.checked_add(size as u64);
                    let must_fail = end.is_none() || end.unwrap() > flen;
                    {
                        use std::io::{Seek, SeekFrom};
                        cursor_turn += 1;
                        let pos = if cursor_turn % 2 == 0 { end.unwrap_or(1 << 41).saturating_add(4096) } else { 0 };
                        let _ = (&f).seek(SeekFrom::Start(pos.min(i64::MAX as u64)));
                    }
                    let fo = FileOffset::new(f.try_clone().unwrap(), off);
                    let (prot, flags) = (libc::PROT_READ | libc::PROT_WRITE, libc::MAP_NORESERVE | libc::MAP_SHARED);
                    let rp = || json!({"api": "MmapRegionBuilder", "file_len": flen, "offset": off, "size": size, "hugetlbfs": huge});
                    let (res, log) = record_maps(|| {
                        let mut b = MmapRegionBuilder::<()>::new(size).with_file_offset(fo).with_mmap_prot(prot).with_mmap_flags(flags);
                        if let Some(h) = huge {
                            b = b.with_hugetlbfs(h);
                        }
                        b.build()
                    });
                    if let Ok(r) = &res {
                        if r.is_hugetlbfs() != huge {
                            fail(ctx, "C15/std/MmapRegionBuilder/attributes-do-not-echo-the-request", format!("hugetlbfs {:?} vs requested {:?}", r.is_hugetlbfs(), huge), rp());
                        }
                    }
                    judge_std(ctx, "MmapRegionBuilder", res, &log, must_fail, size, prot, flags, Some((f.as_raw_fd(), off)), &rp);
                }
                // the convenience constructor for shared file mappings
                ctx.case(true);
                let end = off.checked_add(size as u64);
                let must_fail = end.is_none() || end.unwrap() > flen;
                {
                    use std::io::{Seek, SeekFrom};
                    let _ = (&f).seek(SeekFrom::Start(end.unwrap_or(1 << 41).saturating_add(1).min(i64::MAX as u64)));
                }
                let fo = FileOffset::new(f.try_clone().unwrap(), off);
                let rp = || json!({"api": "MmapRegion::from_file", "file_len": flen, "offset": off, "size": size});
                let (res, log) = record_maps(|| MmapRegion::<()>::from_file(fo, size));
                judge_std(ctx, "MmapRegion::from_file", res, &log, must_fail, size, libc::PROT_READ | libc::PROT_WRITE, libc::MAP_NORESERVE | libc::MAP_SHARED, Some((f.as_raw_fd(), off)), &rp);
                let fo = FileOffset::new(f.try_clone().unwrap(), off);
                let (res, log) = record_maps(|| GuestRegionMmap::<()>::from_range(GuestAddress(0x1000), size, Some(fo)));
                match res {
                    Ok(r) => {
                        if must_fail {
                            fail(ctx, "C15/std/GuestRegionMmap::from_range/unsafe-request-accepted", format!("file_len {} offset {} size {}", flen, off, size), rp());
                        }
                        drop(r);
                    }
                    Err(_) => {
                        if !left_mapped(&log).is_empty() {
                            fail(ctx, "C15/std/GuestRegionMmap::from_range/left-mapped-after-failure", format!("{:?}", left_mapped(&log)), rp());
                        }
                    }
                }
            }
        }
    }
    // descriptors with restricted access modes (read-only, write-only): what the kernel refuses
    // stays refused - a region never claims a kind of mapping it did not get
    for (mode, write_mode) in [("read-only", false), ("write-only", true)] {
        let f0 = tempfile().unwrap();
        f0.set_len(8192).unwrap();
        let path = format!("/proc/self/fd/{}", f0.as_raw_fd());
        let f = if write_mode { std::fs::OpenOptions::new().write(true).open(&path) } else { std::fs::OpenOptions::new().read(true).open(&path) };
        let f = match f {
            Ok(f) => f,
            Err(_) => continue,
        };
        for &prot in &prots {
            for &flags in &[libc::MAP_SHARED, libc::MAP_PRIVATE, libc::MAP_SHARED | libc::MAP_NORESERVE, libc::MAP_PRIVATE | libc::MAP_NORESERVE] {
                for (off, size) in [(0u64, 4096usize), (4096, 4096), (0, 100), (0, 8192)] {
                    ctx.case(true);
                    let fo = FileOffset::new(f.try_clone().unwrap(), off);
                    let rp = || json!({"api": "MmapRegion::build", "descriptor": mode, "offset": off, "size": size, "prot": prot, "flags": flags});
                    let (res, log) = record_maps(|| MmapRegion::<()>::build(Some(fo), size, prot, flags));
                    judge_std(ctx, "MmapRegion::build(restricted descriptor)", res, &log, false, size, prot, flags, Some((f.as_raw_fd(), off)), &rp);
                }
            }
        }
        // the convenience constructors ask for a shared read-write mapping
        ctx.case(true);
        let fo = FileOffset::new(f.try_clone().unwrap(), 0);
        let rp = || json!({"api": "MmapRegion::from_file", "descriptor": mode});
        let (res, log) = record_maps(|| MmapRegion::<()>::from_file(fo, 4096));
        judge_std(ctx, "MmapRegion::from_file(restricted descriptor)", res, &log, false, 4096, libc::PROT_READ | libc::PROT_WRITE, libc::MAP_NORESERVE | libc::MAP_SHARED, Some((f.as_raw_fd(), 0)), &rp);
    }
    // anonymous requests
    for &size in &[0usize, 1, 4096, 4097, 1 << 30, usize::MAX, isize::MAX as usize] {
        for &flags in &flag_words {
            ctx.case(true);
            let must_fail = flags & libc::MAP_FIXED != 0;
            let rp = || json!({"api": "MmapRegion::build(anonymous)", "size": size, "flags": flags});
            let (res, log) = record_maps(|| MmapRegion::<()>::build(None, size, libc::PROT_READ | libc::PROT_WRITE, flags));
            judge_std(ctx, "MmapRegion::build(anonymous)", res, &log, must_fail, size, libc::PROT_READ | libc::PROT_WRITE, flags, None, &rp);
        }
        ctx.case(true);
        let (res, log) = record_maps(|| MmapRegion::<()>::new(size));
        let rp = || json!({"api": "MmapRegion::new", "size": size});
        judge_std(ctx, "MmapRegion::new", res, &log, false, size, libc::PROT_READ | libc::PROT_WRITE, libc::MAP_ANONYMOUS | libc::MAP_NORESERVE | libc::MAP_PRIVATE, None, &rp);
        // injected mmap failure: must surface as an error, nothing left behind
        ctx.case(true);
        let (res, log) = record_maps(|| {
            fail_mmap_in(0);
            let r = MmapRegion::<()>::new(size.max(1).min(4096));
            fail_mmap_in(-1);
            r
        });
        if res.is_ok() || !left_mapped(&log).is_empty() {
            fail(ctx, "C15/std/MmapRegion::new/injected-mmap-failure", format!("ok={} left={:?}", res.is_ok(), left_mapped(&log)), json!({"size": size}));
        }
    }
    // anonymous requests through the builder with every value of the hugetlbfs hint, at sizes
    // around the huge-page sizes: a hint never changes what is asked of the kernel, and a safe
    // request that the kernel itself grants is not refused
    {
        use vm_memory::mmap::MmapRegionBuilder;
        const M: usize = 1 << 20;
        for &size in &[4096usize, M, 2 * M - 4096, 2 * M, 2 * M + 4096, 4 * M, 6 * M, 1024 * M] {
            for huge in [None, Some(false), Some(true)] {
                for &flags in &[libc::MAP_PRIVATE | libc::MAP_ANONYMOUS, libc::MAP_PRIVATE | libc::MAP_ANONYMOUS | libc::MAP_NORESERVE, libc::MAP_SHARED | libc::MAP_ANONYMOUS | libc::MAP_NORESERVE] {
                    for late in [false, true] {
                        ctx.case(true);
                        let prot = libc::PROT_READ | libc::PROT_WRITE;
                        let rp = || json!({"api": "MmapRegionBuilder(anonymous)", "size": size, "flags": flags, "hugetlbfs": huge, "hint_set_after_build": late});
                        let (res, log) = record_maps(|| {
                            let mut b = MmapRegionBuilder::<()>::new(size).with_mmap_prot(prot).with_mmap_flags(flags);
                            if let (Some(h), false) = (huge, late) {
                                b = b.with_hugetlbfs(h);
                            }
                            b.build().map(|mut r| {
                                if let (Some(h), true) = (huge, late) {
                                    r.set_hugetlbfs(h);
                                }
                                r
                            })
                        });
                        match &res {
                            Ok(r) => {
                                if r.is_hugetlbfs() != huge {
                                    fail(ctx, "C15/std/MmapRegionBuilder/attributes-do-not-echo-the-request", format!("hugetlbfs {:?} vs requested {:?}", r.is_hugetlbfs(), huge), rp());
                                }
                            }
                            Err(e) => {
                                let p = unsafe { libc::syscall(libc::SYS_mmap, 0usize, size, prot as libc::c_long, flags as libc::c_long, -1 as libc::c_long, 0 as libc::c_long) };
                                if p as isize > 0 {
                                    unsafe { libc::syscall(libc::SYS_munmap, p, size) };
                                    fail(ctx, "C15/std/MmapRegionBuilder(anonymous)/valid-request-refused", format!("size {:#x} flags {:#x} hugetlbfs hint {:?}: {:?} although the kernel maps exactly this request", size, flags, huge, e), rp());
                                }
                            }
                        }
                        judge_std(ctx, "MmapRegionBuilder(anonymous)", res, &log, false, size, prot, flags, None, &rp);
                    }
                }
            }
        }
    }
    // externally provided mappings: the pointer must be page aligned; never mapped or unmapped by the library
    let arena = crate::arena::Arena::new(2);
    let arena3 = crate::arena::Arena::new(4);
    for delta in [0usize, 1, 8, 2048, 4095, 4096] {
        for &size in &[0usize, 1, 4096, 8192] {
            for with_file in [false, true] {
                ctx.case(true);
                // SAFETY: inside the arena
                let p = unsafe { arena.ptr().add(delta) };
                let must_fail = (p as usize) % 4096 != 0;
                let rp = || json!({"api": "build_raw", "pointer_offset_in_page": delta % 4096, "size": size, "with_file": with_file});
                let (res, log) = record_maps(|| {
                    if with_file {
                        use vm_memory::mmap::MmapRegionBuilder;
                        let f = tempfile().unwrap();
                        f.set_len(8192).unwrap();
                        // SAFETY: the arena outlives the region
                        unsafe { MmapRegionBuilder::<()>::new(size).with_mmap_prot(libc::PROT_READ).with_mmap_flags(libc::MAP_SHARED).with_file_offset(FileOffset::new(f, 0)).with_raw_mmap_pointer(p) }.build()
                    } else {
                        // SAFETY: as above
                        unsafe { MmapRegion::<()>::build_raw(p, size, libc::PROT_READ | libc::PROT_WRITE, libc::MAP_PRIVATE | libc::MAP_ANONYMOUS) }
                    }
                });
                match res {
                    Ok(r) => {
                        if must_fail {
                            fail(ctx, "C15/std/build_raw/misaligned-pointer-accepted", format!("pointer at page offset {}", delta % 4096), rp());
                        }
                        if r.owned() || r.as_ptr() != p || r.size() != size || r.file_offset().is_some() != with_file {
                            fail(ctx, "C15/std/build_raw/attributes", format!("owned={} size={}", r.owned(), r.size()), rp());
                        }
                        let ((), log2) = record_maps(|| drop(r));
                        if !log2.is_empty() {
                            fail(ctx, "C15/std/build_raw/external-mapping-touched-on-drop", format!("{:?}", log2), rp());
                        }
                    }
                    Err(_) => {
                        if !must_fail {
                            fail(ctx, "C15/std/build_raw/aligned-pointer-refused", format!("pointer at page offset {}", delta % 4096), rp());
                        }
                    }
                }
                if !log.is_empty() {
                    fail(ctx, "C15/std/build_raw/mmap-called", format!("{:?}", log), rp());
                }
            }
        }
    }
    // the same for every flag word a caller may describe its own mapping with: the alignment rule
    // for the raw pointer does not depend on the flags (huge-page, populate, lock, stack, ... bits)
    {
        const MAP_HUGE_SHIFT: i32 = 26;
        let mut words: Vec<i32> = flag_words.iter().cloned().filter(|w| w & libc::MAP_FIXED == 0).collect();
        let base_w = libc::MAP_PRIVATE | libc::MAP_ANONYMOUS;
        for extra in [libc::MAP_HUGETLB, libc::MAP_HUGETLB | (21 << MAP_HUGE_SHIFT), libc::MAP_HUGETLB | (30 << MAP_HUGE_SHIFT), libc::MAP_HUGETLB | (12 << MAP_HUGE_SHIFT), libc::MAP_HUGETLB | (1 << MAP_HUGE_SHIFT), libc::MAP_POPULATE, libc::MAP_LOCKED, libc::MAP_STACK, libc::MAP_GROWSDOWN, libc::MAP_NONBLOCK, libc::MAP_SYNC, 1 << 20, 1 << 30] {
            words.push(base_w | extra);
            words.push(libc::MAP_SHARED | extra);
        }
        for &flags in &words {
            for delta in [0usize, 1, 8, 512, 2048, 4095, 4096, 8192 + 16] {
                for &size in &[1usize, 4096] {
                    ctx.case(true);
                    // SAFETY: inside the arena (3 pages are reserved below)
                    let p = unsafe { arena3.ptr().add(delta) };
                    let must_fail = (p as usize) % 4096 != 0;
                    let rp = || json!({"api": "build_raw", "pointer_offset_in_page": delta % 4096, "size": size, "flags": format!("{:#x}", flags)});
                    // SAFETY: the arena outlives the region; the memory is never dereferenced through it
                    let (res, log) = record_maps(|| unsafe { MmapRegion::<()>::build_raw(p, size, libc::PROT_READ | libc::PROT_WRITE, flags) });
                    match res {
                        Ok(r) => {
                            if must_fail {
                                fail(ctx, "C15/std/build_raw/misaligned-pointer-accepted", format!("flags {:#x}: pointer at page offset {} accepted", flags, delta % 4096), rp());
                            }
                            if r.owned() || r.as_ptr() != p || r.size() != size || r.flags() != flags {
                                fail(ctx, "C15/std/build_raw/attributes", format!("flags {:#x}: owned={} size={} flags={:#x}", flags, r.owned(), r.size(), r.flags()), rp());
                            }
                            let ((), log2) = record_maps(|| drop(r));
                            if !log2.is_empty() {
                                fail(ctx, "C15/std/build_raw/external-mapping-touched-on-drop", format!("{:?}", log2), rp());
                            }
                        }
                        Err(_) => {
                            if !must_fail {
                                fail(ctx, "C15/std/build_raw/aligned-pointer-refused", format!("flags {:#x}: pointer at page offset {}", flags, delta % 4096), rp());
                            }
                        }
                    }
                    if !log.is_empty() {
                        fail(ctx, "C15/std/build_raw/mmap-called", format!("{:?}", log), rp());
                    }
                }
            }
        }
    }
    // the builder route for external pointers x every setting of the hugetlbfs hint x pointers at
    // every page of the arena (so at least one is page aligned but not aligned to any larger page
    // size): the hint describes the backing file, it is not an alignment requirement
    for hint in [None, Some(false), Some(true)] {
        for delta in [0usize, 1, 2048, 4095, 4096, 4097, 8192, 8192 + 2048, 3 * 4096] {
            for &size in &[1usize, 4096] {
                for with_file in [false, true] {
                    ctx.case(true);
                    use vm_memory::mmap::MmapRegionBuilder;
                    // SAFETY: inside the 4-page arena
                    let p = unsafe { arena3.ptr().add(delta) };
                    let must_fail = (p as usize) % 4096 != 0;
                    let rp = || json!({"api": "MmapRegionBuilder::with_raw_mmap_pointer", "pointer_offset_in_arena": delta, "pointer_trailing_zero_bits": (p as usize).trailing_zeros(), "size": size, "hugetlbfs_hint": format!("{:?}", hint), "with_file": with_file});
                    let (res, log) = record_maps(|| {
                        let mut b = MmapRegionBuilder::<()>::new(size).with_mmap_prot(libc::PROT_READ | libc::PROT_WRITE).with_mmap_flags(libc::MAP_SHARED);
                        if let Some(h) = hint {
                            b = b.with_hugetlbfs(h);
                        }
                        if with_file {
                            let f = tempfile().unwrap();
                            f.set_len(8192).unwrap();
                            b = b.with_file_offset(FileOffset::new(f, 0));
                        }
                        // SAFETY: the arena outlives the region
                        unsafe { b.with_raw_mmap_pointer(p) }.build()
                    });
                    match res {
                        Ok(r) => {
                            if must_fail {
                                fail(ctx, "C15/std/build_raw/misaligned-pointer-accepted", format!("hint {:?}: pointer at arena offset {} accepted", hint, delta), rp());
                            }
                            if r.owned() || r.as_ptr() != p || r.size() != size || r.is_hugetlbfs() != hint || r.file_offset().is_some() != with_file {
                                fail(ctx, "C15/std/build_raw/attributes", format!("hint {:?}: owned={} size={} is_hugetlbfs={:?}", hint, r.owned(), r.size(), r.is_hugetlbfs()), rp());
                            }
                            let ((), log2) = record_maps(|| drop(r));
                            if !log2.is_empty() {
                                fail(ctx, "C15/std/build_raw/external-mapping-touched-on-drop", format!("{:?}", log2), rp());
                            }
                        }
                        Err(e) => {
                            if !must_fail {
                                fail(ctx, "C15/std/build_raw/aligned-pointer-refused", format!("hugetlbfs hint {:?}: page-aligned pointer (arena offset {}, {} trailing zero bits) refused: {:?}", hint, delta, (p as usize).trailing_zeros(), e), rp());
                            }
                        }
                    }
                    if !log.is_empty() {
                        fail(ctx, "C15/std/build_raw/mmap-called", format!("{:?}", log), rp());
                    }
                }
            }
        }
    }
    // shared file regions: byte i of the region is byte offset+i of the file, both directions
    for (flen, off, size) in [(4096u64, 0u64, 64usize), (8192, 4096, 17), (12288, 4096, 8192), (4097, 0, 4097), (8192, 0, 4096)] {
        let f = tempfile().unwrap();
        f.set_len(flen).unwrap();
        let region = match MmapRegion::<()>::from_file(FileOffset::new(f.try_clone().unwrap(), off), size) {
            Ok(r) => r,
            Err(e) => {
                fail(ctx, "C15/std/from_file/valid-refused", format!("{:?}", e), json!({"file_len": flen, "offset": off, "size": size}));
                continue;
            }
        };
        let gr = GuestRegionMmap::new(region, GuestAddress(0)).unwrap();
        let idx: Vec<usize> = if size <= 64 { (0..size).collect() } else { (0..size).filter(|i| i % 4096 < 2 || i % 4096 > 4093 || *i == size - 1).collect() };
        for i in idx {
            ctx.case(true);
            let v = 0x80 | (i as u8 & 0x7f);
            gr.write_obj(v, MemoryRegionAddress(i as u64)).unwrap();
            let mut b = [0u8; 1];
            f.read_exact_at(&mut b, off + i as u64).unwrap();
            let w = !v;
            f.write_all_at(&[w], off + i as u64).unwrap();
            let back: u8 = gr.read_obj(MemoryRegionAddress(i as u64)).unwrap();
            if b[0] != v || back != w {
                fail(ctx, "C15/std/shared-file-coherence", format!("file_len {} offset {} size {} byte {}: file saw {:#x} (stored {:#x}), region saw {:#x} (file holds {:#x})", flen, off, size, i, b[0], v, back, w), json!({"file_len": flen, "offset": off, "size": size, "byte": i}));
                break;
            }
        }
    }
    // file offsets beyond 2^31 and 2^32 in a sparse file: the request that reaches the kernel
    // carries the whole 64-bit offset, the region shows the bytes at that offset, and what the
    // kernel itself accepts for these arguments the library accepts too
    {
        let f = tempfile().unwrap();
        let g31 = 1u64 << 31;
        let g32 = 1u64 << 32;
        let flen = (1u64 << 33) + g32 + g31 + 3 * 4096;
        if f.set_len(flen).is_ok() {
            let offs = [g31 - 4096, g31, g31 + 4096, g32 - 4096, g32, g32 + 4096, g32 + g31, (1u64 << 33) + 4096, (1u64 << 33) + g32 + g31, flen - 4096, flen, flen + 4096];
            for &off in &offs {
                for size in [4096usize, 4097, 3 * 4096] {
                    for api in 0..3usize {
                        ctx.case(true);
                        let end = off + size as u64;
                        let must_fail = end > flen;
                        let fo = FileOffset::new(f.try_clone().unwrap(), off);
                        let (prot, flags) = (libc::PROT_READ | libc::PROT_WRITE, libc::MAP_NORESERVE | libc::MAP_SHARED);
                        let name = ["MmapRegion::from_file", "MmapRegion::build(file)", "MmapRegionBuilder"][api];
                        let rp = || json!({"api": name, "file_len": flen, "offset": off, "size": size});
                        let (res, log) = record_maps(|| match api {
                            0 => MmapRegion::<()>::from_file(fo, size),
                            1 => MmapRegion::<()>::build(Some(fo), size, prot, flags),
                            _ => vm_memory::mmap::MmapRegionBuilder::<()>::new(size).with_file_offset(fo).with_mmap_prot(prot).with_mmap_flags(flags).build(),
                        });
                        if !must_fail {
                            match &res {
                                Err(e) => {
                                    // does the kernel refuse the same request?
                                    let p = unsafe { libc::syscall(libc::SYS_mmap, 0usize, size, prot as libc::c_long, flags as libc::c_long, f.as_raw_fd() as libc::c_long, off as libc::c_long) };
                                    if p as isize > 0 || (p as isize) < -4096 {
                                        unsafe { libc::syscall(libc::SYS_munmap, p, size) };
                                        fail(ctx, &format!("C15/std/{}/valid-request-refused", name), format!("offset {:#x} size {} of a file of {:#x} bytes: {:?} although the kernel maps exactly this request", off, size, flen, e), rp());
                                    }
                                }
                                Ok(r) => {
                                    // byte 0 and the last byte of the region are the file's bytes at off and off+size-1
                                    for i in [0usize, size - 1] {
                                        let v = 0x80 | ((off >> 12) as u8 & 0x3f) | (i as u8 & 1);
                                        f.write_all_at(&[v], off + i as u64).unwrap();
                                        let seen = unsafe { std::ptr::read_volatile(r.as_ptr().add(i)) };
                                        unsafe { std::ptr::write_volatile(r.as_ptr().add(i), !v) };
                                        let mut b = [0u8; 1];
                                        f.read_exact_at(&mut b, off + i as u64).unwrap();
                                        if seen != v || b[0] != !v {
                                            fail(ctx, "C15/std/shared-file-coherence", format!("file offset {:#x} size {} byte {}: the region shows {:#x} where the file holds {:#x}; the file shows {:#x} after the region stored {:#x}", off, size, i, seen, v, b[0], !v), rp());
                                            break;
                                        }
                                    }
                                }
                            }
                        }
                        judge_std(ctx, name, res, &log, must_fail, size, prot, flags, Some((f.as_raw_fd(), off)), &rp);
                    }
                }
            }
        } else {
            ctx.machinery("cannot create a sparse file of 14 GiB for the large-offset sweep");
        }
    }
    // guest base + size beyond the address space
    for size in [1usize, 4096] {
        for d in -2i64..=2 {
            ctx.case(true);
            let base = (0u64.wrapping_sub(size as u64)).wrapping_add(d as u64);
            let r = MmapRegion::<()>::new(size).unwrap();
            let res = GuestRegionMmap::new(r, GuestAddress(base));
            let end = base as u128 + size as u128;
            if end > (1u128 << 64) && res.is_ok() {
                fail(ctx, "C15/std/GuestRegionMmap::new/beyond-address-space-accepted", format!("base {:#x} size {}", base, size), json!({"base": base, "size": size}));
            }
            if end < (1u128 << 64) && res.is_err() {
                fail(ctx, "C15/std/GuestRegionMmap::new/valid-refused", format!("base {:#x} size {}", base, size), json!({"base": base, "size": size}));
            }
        }
    }
}

#[cfg(not(feature = "xen"))]
#[allow(clippy::too_many_arguments)]
fn judge_std(
    ctx: &Ctx,
    api: &str,
    res: Result<MmapRegion<()>, vm_memory::mmap::MmapRegionError>,
    log: &[MapEvent],
    must_fail: bool,
    size: usize,
    prot: i32,
    flags: i32,
    file: Option<(i32, u64)>,
    rp: &dyn Fn() -> Value,
) {
    if fixed_attempted(log) {
        fail(ctx, &format!("C15/std/{}/MAP_FIXED-reached-the-kernel", api), "the library issued an mmap call carrying MAP_FIXED".into(), rp());
    }
    match res {
        Ok(r) => {
            if must_fail {
                fail(ctx, &format!("C15/std/{}/unsafe-request-accepted", api), format!("size {} flags {:#x} accepted", size, flags), rp());
            }
            let fo_ok = match (r.file_offset(), file) {
                (Some(fo), Some((_, off))) => fo.start() == off,
                (None, None) => true,
                _ => false,
            };
            if r.size() != size || r.prot() != prot || r.flags() != flags || !fo_ok || !r.owned() {
                fail(ctx, &format!("C15/std/{}/attributes-do-not-echo-the-request", api), format!("size {} prot {:#x} flags {:#x} owned {}", r.size(), r.prot(), r.flags(), r.owned()), rp());
            }
            // exactly one mapping, made with the requested arguments
            let maps: Vec<&MapEvent> = log.iter().filter(|e| matches!(e, MapEvent::Map { ok: true, .. })).collect();
            let good = maps.len() == 1
                && matches!(maps[0], MapEvent::Map { addr, len, prot: p, flags: fl, fd, offset, .. }
                    if *addr == r.as_ptr() as usize && *len == size && *p == prot && *fl == flags && file.map_or(*fd == -1, |(_, off)| *offset as u64 == off && *fd >= 0));
            if !good {
                fail(ctx, &format!("C15/std/{}/mapping-differs-from-the-request", api), format!("{:?}", maps), rp());
            }
            let ((), l2) = record_maps(|| drop(r));
            if left_mapped(&[log, &l2[..]].concat()).len() != 0 {
                fail(ctx, &format!("C15/std/{}/not-unmapped-on-drop", api), format!("{:?}", l2), rp());
            }
        }
        Err(_) => {
            // a safe request may still be refused by the OS (size 0, unaligned offset, ...)
            let left = left_mapped(log);
            if !left.is_empty() {
                fail(ctx, &format!("C15/std/{}/left-mapped-after-failure", api), format!("{:?}", left), rp());
            }
        }
    }
}

#[cfg(feature = "xen")]
fn xen_part(ctx: &Ctx, _thorough: bool) {
    use crate::xen_emu::{DevEvent, Emu};
    use vm_memory::MmapRange;
    let emu = Emu::new(64);
    // guest bases within +-2 pages of the top of the address space (and with bit 63 set or not),
    // for every valid mapping type: a region whose end exceeds 2^64 is refused whatever backs it
    for &w in &[0x0u32, 0x1, 0x2, 0xA] {
        for size in [4096usize, 8192] {
            for base in [
                0u64.wrapping_sub(size as u64).wrapping_sub(4096),
                0u64.wrapping_sub(size as u64),
                0u64.wrapping_sub(size as u64).wrapping_add(4096),
                0u64.wrapping_sub(4096),
                (1u64 << 63).wrapping_sub(size as u64),
                (1u64 << 63),
                0xffff_ffff_ffff_f000,
            ] {
                ctx.case(true);
                let fo = if w == 0 { None } else { Some(emu.file_offset(0)) };
                let end = base as u128 + size as u128;
                let rp = || json!({"mmap_flags": format!("{:#x}", w), "guest_base": format!("{:#x}", base), "size": size});
                emu.take_log();
                let describe = || ("C15/xen/region-near-the-top".to_string(), format!("flags {:#x} base {:#x} size {:#x}", w, base, size), rp());
                let guarded = crate::crash::guarded(ctx, &describe, || record_maps(|| {
                    // (a UNIX mapping without a file has to be asked for as an anonymous one)
                    let range = if w == 0 { MmapRange::new_unix(size, None, GuestAddress(base)) } else { MmapRange::new(size, fo, GuestAddress(base), w, 7) };
                    MmapRegion::<()>::from_range(range).map_err(|e| format!("{:?}", e)).and_then(|r| GuestRegionMmap::new(r, GuestAddress(base)).map_err(|e| format!("{:?}", e)))
                }));
                let (res, log) = match guarded {
                    Some(x) => x,
                    None => {
                        emu.take_log();
                        emu.state.borrow_mut().live.clear();
                        emu.state.borrow_mut().refs.clear();
                        continue;
                    }
                };
                match res {
                    Ok(r) => {
                        if end > (1u128 << 64) {
                            fail(ctx, "C15/xen/GuestRegionMmap::new/beyond-address-space-accepted", format!("flags {:#x} base {:#x} size {:#x}", w, base, size), rp());
                        }
                        drop(r);
                    }
                    Err(e) => {
                        if end < (1u128 << 64) {
                            fail(ctx, "C15/xen/GuestRegionMmap::new/valid-refused", format!("flags {:#x} base {:#x} size {:#x}: {}", w, base, size, e), rp());
                        }
                    }
                }
                let _ = log;
                emu.take_log();
                emu.state.borrow_mut().live.clear();
                emu.state.borrow_mut().refs.clear();
                emu.state.borrow_mut().protocol_errors.clear();
            }
        }
    }
    let mut words: Vec<u32> = (0u32..256).collect();
    for b in 8..32 {
        words.push(1 << b);
        words.push((1 << b) | 2);
    }
    let valid = [0x0u32, 0x1, 0x2, 0xA];
    for &w in &words {
        for file_kind in 0..3 {
            // 0: no file, 1: device file at offset 0, 2: device file at offset 4096
            // (the device file has 64 pages: the last two sizes run past its end)
            for size in [4096usize, 8192, 100, 64 * 4096, 64 * 4096 + 1, 65 * 4096] {
              for huge in [None, Some(false), Some(true)] {
                for inject in 0..3 {
                    // 0: none, 1: ioctl failure, 2: mmap failure
                    // an injected failure only matters where the construction makes that call
                    let inject_applies = file_kind == 1 && match inject {
                        1 => w == 1 || w == 2,
                        2 => w == 0 || w == 1 || w == 2,
                        _ => true,
                    };
                    if inject != 0 && !inject_applies {
                        continue;
                    }
                    ctx.case(true);
                    let fo = match file_kind {
                        0 => None,
                        1 => Some(emu.file_offset(0)),
                        _ => Some(emu.file_offset(4096)),
                    };
                    let base = GuestAddress(0x8000);
                    let mut range = MmapRange::new(size, fo, base, w, 7);
                    if let Some(h) = huge {
                        range.set_hugetlbfs(h);
                    }
                    let is_valid = valid.contains(&w);
                    let needs_dev = w & 0x3 != 0;
                    // a plain (UNIX) file mapping may not run past the end of the file
                    let file_start = if file_kind == 2 { 4096usize } else { 0 };
                    let past_eof = file_kind != 0 && file_start + size > 64 * 4096;
                    if past_eof && w != 0 {
                        // device mappings have no file length to check against: not judged
                        continue;
                    }
                    let must_fail = !is_valid || (needs_dev && file_kind != 1) || past_eof;
                    emu.take_log();
                    {
                        let mut st = emu.state.borrow_mut();
                        st.fail_privcmd = inject == 1;
                        st.fail_map_in = if inject == 1 { Some(0) } else { None };
                    }
                    let rp = || json!({"mmap_flags": format!("{:#x}", w), "file": file_kind, "size": size, "inject": inject, "hugetlbfs": huge});
                    let (res, log) = record_maps(|| {
                        if inject == 2 {
                            fail_mmap_in(0);
                        }
                        let r = MmapRegion::<()>::from_range(range);
                        fail_mmap_in(-1);
                        r
                    });
                    {
                        let mut st = emu.state.borrow_mut();
                        st.fail_privcmd = false;
                        st.fail_map_in = None;
                    }
                    match res {
                        Ok(r) => {
                            if must_fail || inject != 0 {
                                fail(ctx, "C15/xen/from_range/unsafe-request-accepted", format!("flags {:#x} file {} inject {}", w, file_kind, inject), rp());
                            }
                            let on_demand = w == 0xA;
                            if r.size() != size || r.xen_mmap_flags() != w || r.xen_mmap_data() != 7 || r.prot() != (libc::PROT_READ | libc::PROT_WRITE) || r.file_offset().is_some() != (file_kind != 0) {
                                fail(ctx, "C15/xen/from_range/attributes-do-not-echo-the-request", format!("size {} flags {:#x} data {}", r.size(), r.xen_mmap_flags(), r.xen_mmap_data()), rp());
                            }
                            let mapped = left_mapped(&log);
                            if on_demand != mapped.is_empty() {
                                fail(ctx, "C15/xen/from_range/advance-mapping-mismatch", format!("flags {:#x}: mappings after creation {:?}", w, mapped), rp());
                            }
                            let ((), l2) = record_maps(|| drop(r));
                            if !left_mapped(&[&log[..], &l2[..]].concat()).is_empty() || !emu.live().is_empty() {
                                fail(ctx, "C15/xen/from_range/not-released-on-drop", format!("{:?} {:?}", l2, emu.live()), rp());
                                emu.state.borrow_mut().live.clear();
                            }
                        }
                        Err(_) => {
                            if !must_fail && inject == 0 && file_kind != 0 {
                                fail(ctx, "C15/xen/from_range/valid-request-refused", format!("flags {:#x} file {}", w, file_kind), rp());
                            }
                            let left = left_mapped(&log);
                            if !left.is_empty() {
                                fail(ctx, "C15/xen/from_range/left-mapped-after-failure", format!("flags {:#x} inject {}: {:?}", w, inject, left), rp());
                            }
                            if !emu.live().is_empty() {
                                let key = if inject == 2 { "C15/xen/from_range/grant-left-mapped-in-device-after-mmap-failure" } else { "C15/xen/from_range/grant-left-mapped-in-device-after-failure" };
                                fail(ctx, key, format!("flags {:#x} inject {}: device still holds {:?}", w, inject, emu.live()), rp());
                                emu.state.borrow_mut().live.clear();
                            }
                        }
                    }
                    let mut pe = std::mem::take(&mut emu.state.borrow_mut().protocol_errors);
                    // a foreign mapping asks privcmd for the frames of its own guest range
                    if let Some(DevEvent::PrivcmdBatch { first_pfn, num, ok: true }) = emu.take_log().iter().find(|e| matches!(e, DevEvent::PrivcmdBatch { .. })) {
                        if *num > 0 && *first_pfn != 0x8000 / 4096 {
                            pe.push(format!("the privcmd batch names frame {:#x} for a region at guest address 0x8000", first_pfn));
                        }
                    }
                    if !pe.is_empty() {
                        fail(ctx, "C15/xen/device-protocol", format!("{:?}", pe), rp());
                    }
                }
              }
            }
        }
    }
    // MAP_FIXED must be refused for every mapping type, also where construction maps nothing
    for &w in &valid {
        for fixed_flags in [libc::MAP_SHARED | libc::MAP_FIXED, libc::MAP_PRIVATE | libc::MAP_FIXED, libc::MAP_SHARED | libc::MAP_NORESERVE | libc::MAP_FIXED] {
            ctx.case(true);
            let mut range = MmapRange::new(4096, Some(emu.file_offset(0)), GuestAddress(0x8000), w, 0);
            range.set_flags(fixed_flags);
            let (res, log) = record_maps(|| MmapRegion::<()>::from_range(range));
            let rp = json!({"mmap_flags": format!("{:#x}", w), "flags": fixed_flags, "what": "MAP_FIXED"});
            if fixed_attempted(&log) {
                fail(ctx, "C15/xen/from_range/MAP_FIXED-reached-the-kernel", format!("xen flags {:#x}", w), rp.clone());
            }
            if let Ok(r) = res {
                fail(ctx, "C15/xen/from_range/MAP_FIXED-accepted", format!("xen flags {:#x} with mmap flags {:#x} (MAP_FIXED) was accepted; flags() = {:#x}", w, fixed_flags, r.flags()), rp.clone());
                drop(r);
                emu.state.borrow_mut().live.clear();
            } else if !left_mapped(&log).is_empty() || !emu.live().is_empty() {
                fail(ctx, "C15/xen/from_range/left-mapped-after-failure", format!("MAP_FIXED request, xen flags {:#x}", w), rp.clone());
                emu.state.borrow_mut().live.clear();
            }
            emu.take_log();
        }
    }
    // explicit protection and flag words for every mapping type: the region reports exactly what
    // was requested (whatever the library adds for the kernel's sake stays between it and mmap)
    for &w in &valid {
        for flags in [libc::MAP_SHARED, libc::MAP_PRIVATE, libc::MAP_SHARED | libc::MAP_NORESERVE, libc::MAP_PRIVATE | libc::MAP_NORESERVE, libc::MAP_NORESERVE, libc::MAP_PRIVATE | libc::MAP_POPULATE, 0] {
            for prot in [libc::PROT_READ | libc::PROT_WRITE, libc::PROT_READ, libc::PROT_NONE] {
                ctx.case(true);
                let mut range = MmapRange::new(4096, Some(emu.file_offset(0)), GuestAddress(0x8000), w, 3);
                range.set_flags(flags);
                range.set_prot(prot);
                let (res, log) = record_maps(|| MmapRegion::<()>::from_range(range));
                let rp = json!({"mmap_flags": format!("{:#x}", w), "flags": flags, "prot": prot});
                match res {
                    Ok(r) => {
                        if r.flags() != flags || r.prot() != prot || r.size() != 4096 || r.xen_mmap_flags() != w || r.xen_mmap_data() != 3 {
                            fail(ctx, "C15/xen/from_range/attributes-do-not-echo-the-request", format!("xen flags {:#x}: requested prot {:#x} flags {:#x}, region reports prot {:#x} flags {:#x} size {} xen flags {:#x} data {}", w, prot, flags, r.prot(), r.flags(), r.size(), r.xen_mmap_flags(), r.xen_mmap_data()), rp.clone());
                        }
                        drop(r);
                    }
                    Err(_) => {
                        // (a combination the kernel refuses may fail)
                        if !left_mapped(&log).is_empty() || !emu.live().is_empty() {
                            fail(ctx, "C15/xen/from_range/left-mapped-after-failure", format!("xen flags {:#x} prot {:#x} flags {:#x}", w, prot, flags), rp.clone());
                        }
                    }
                }
                emu.state.borrow_mut().live.clear();
                emu.take_log();
            }
        }
    }
    // MAP_FIXED and file range checks for the UNIX flavour
    let f = tempfile().unwrap();
    f.set_len(8192).unwrap();
    for (off, size, flags, must_fail) in [(0u64, 4096usize, libc::MAP_SHARED | libc::MAP_FIXED, true), (4096, 4097, libc::MAP_SHARED, true), (u64::MAX, 2, libc::MAP_SHARED, true), (4096, 4096, libc::MAP_SHARED, false), (0, 8192, libc::MAP_PRIVATE, false)] {
        ctx.case(true);
        let mut range = MmapRange::new_unix(size, Some(FileOffset::new(f.try_clone().unwrap(), off)), GuestAddress(0));
        range.set_flags(flags);
        range.set_prot(libc::PROT_READ);
        let (res, log) = record_maps(|| MmapRegion::<()>::from_range(range));
        let rp = json!({"unix": true, "offset": off, "size": size, "flags": flags});
        if fixed_attempted(&log) {
            fail(ctx, "C15/xen/unix/MAP_FIXED-reached-the-kernel", "".into(), rp.clone());
        }
        match res {
            Ok(r) => {
                if must_fail {
                    fail(ctx, "C15/xen/unix/unsafe-request-accepted", format!("offset {} size {} flags {:#x}", off, size, flags), rp.clone());
                }
                if r.size() != size || r.flags() != flags || r.prot() != libc::PROT_READ {
                    fail(ctx, "C15/xen/unix/attributes", "".into(), rp.clone());
                }
            }
            Err(_) => {
                if !must_fail {
                    fail(ctx, "C15/xen/unix/valid-request-refused", format!("offset {} size {}", off, size), rp.clone());
                }
                if !left_mapped(&log).is_empty() {
                    fail(ctx, "C15/xen/unix/left-mapped-after-failure", "".into(), rp.clone());
                }
            }
        }
    }
    // the file range of a UNIX-type range is judged whatever else the flag word says: a range
    // that names a file must lie inside it, also when the flags ask for an anonymous mapping
    for off in [0u64, 4096, 4097, 8192, 12288, 1 << 40, u64::MAX - 4095, u64::MAX] {
        for size in [1usize, 4096, 4097, 8192, 8193] {
            for flags in [libc::MAP_SHARED, libc::MAP_PRIVATE, libc::MAP_SHARED | libc::MAP_NORESERVE, libc::MAP_SHARED | libc::MAP_ANONYMOUS, libc::MAP_PRIVATE | libc::MAP_ANONYMOUS, libc::MAP_PRIVATE | libc::MAP_ANONYMOUS | libc::MAP_NORESERVE] {
                ctx.case(true);
                let unsafe_range = off.checked_add(size as u64).map_or(true, |e| e > 8192) || off % 4096 != 0;
                let mut range = MmapRange::new_unix(size, Some(FileOffset::new(f.try_clone().unwrap(), off)), GuestAddress(0));
                range.set_flags(flags);
                range.set_prot(libc::PROT_READ);
                let (res, log) = record_maps(|| MmapRegion::<()>::from_range(range));
                let rp = json!({"unix": true, "offset": off, "size": size, "flags": flags, "file_len": 8192});
                match res {
                    Ok(r) => {
                        if unsafe_range {
                            fail(ctx, "C15/xen/unix/unsafe-request-accepted", format!("file of 8192 bytes, offset {:#x} size {} flags {:#x}: accepted", off, size, flags), rp.clone());
                        }
                        drop(r);
                    }
                    Err(e) => {
                        if !unsafe_range && flags & libc::MAP_ANONYMOUS == 0 {
                            fail(ctx, "C15/xen/unix/valid-request-refused", format!("offset {:#x} size {} flags {:#x}: {:?}", off, size, flags, e), rp.clone());
                        }
                        if !left_mapped(&log).is_empty() {
                            fail(ctx, "C15/xen/unix/left-mapped-after-failure", "".into(), rp.clone());
                        }
                    }
                }
            }
        }
    }
    let _ = f.as_raw_fd();
    let _ = f.read_at(&mut [0u8; 1], 0);
    let _ = MemoryRegionAddress(0);
    fn _unused<T: Bytes<MemoryRegionAddress>>(_: &T) {}
    let _ = GuestRegionMmap::<()>::from_range(GuestAddress(0), 4096, None).map(|r| _unused(&r));
}

/// Histories on one `FileOffset` lineage (the value and its clones) while the file changes
/// length between requests, and environment faults (deviation bound 1) on the length queries a
/// construction makes: the acceptance predicate refers to the file as it is at the time of the
/// request, and a construction that fails leaves nothing mapped.
fn file_histories(ctx: &Ctx) {
    use crate::interpose::{with_seek_handler, SeekAnswer};
    let lens = [0u64, 4096, 8192, 12288];
    let sizes = [4096usize, 8192, 12288];
    let build = |fo: FileOffset, size: usize, route: usize| -> (bool, Vec<MapEvent>) {
        #[cfg(not(feature = "xen"))]
        let (ok, log) = {
            let (res, log) = record_maps(|| match route % 3 {
                0 => MmapRegion::<()>::from_file(fo, size).map(|r| drop(r)).is_ok(),
                1 => MmapRegion::<()>::build(Some(fo), size, libc::PROT_READ, libc::MAP_SHARED | libc::MAP_NORESERVE).map(|r| drop(r)).is_ok(),
                _ => GuestRegionMmap::<()>::from_range(GuestAddress(0x1000), size, Some(fo)).map(|r| drop(r)).is_ok(),
            });
            (res, log)
        };
        #[cfg(feature = "xen")]
        let (ok, log) = {
            let _ = route;
            let (res, log) = record_maps(|| MmapRegion::<()>::from_range(vm_memory::MmapRange::new_unix(size, Some(fo), GuestAddress(0x1000))).map(|r| drop(r)).is_ok());
            (res, log)
        };
        (ok, log)
    };
    // (a) every sequence of three file lengths, every size after each change, through the same
    // FileOffset (cloned per request, as the API takes it by value)
    for a in lens {
        for b in lens {
            for c in lens {
                let f = tempfile().unwrap();
                let fo = FileOffset::new(f.try_clone().unwrap(), 0);
                for (step, len) in [a, b, c].into_iter().enumerate() {
                    f.set_len(len).unwrap();
                    for (si, &size) in sizes.iter().enumerate() {
                        ctx.case(true);
                        let (ok, log) = build(fo.clone(), size, step + si);
                        let must_fail = size as u64 > len;
                        let rp = || json!({"file_lengths": [a, b, c], "step": step, "size": size, "route": (step + si) % 3});
                        if ok && must_fail {
                            fail(ctx, "C15/file-history/request-past-the-current-end-of-file-accepted", format!("file lengths over time {:?}, at step {} (length {}) a region of {} bytes was accepted through the FileOffset used before", [a, b, c], step, len, size), rp());
                        }
                        if !ok && !must_fail {
                            fail(ctx, "C15/file-history/valid-request-refused", format!("file lengths over time {:?}, step {} size {}", [a, b, c], step, size), rp());
                        }
                        if !left_mapped(&log).is_empty() {
                            fail(ctx, "C15/file-history/left-mapped", format!("{:?}", left_mapped(&log)), rp());
                        }
                    }
                }
            }
        }
    }
    // (b) the answers to the construction's length queries: fail, report an empty file, report a
    // huge file - one deviation per run
    if let Err(e) = crate::interpose::selftest_seek() {
        ctx.machinery(&e);
        return;
    }
    for (flen, off, size) in [(8192u64, 0u64, 8192usize), (8192, 4096, 4096), (12288, 4096, 100)] {
        for route in 0..3 {
            let f = tempfile().unwrap();
            f.set_len(flen).unwrap();
            let n = std::rc::Rc::new(std::cell::Cell::new(0usize));
            let n2 = n.clone();
            let (ok, _) = with_seek_handler(Box::new(move |_, _, _| { n2.set(n2.get() + 1); SeekAnswer::Pass }), || build(FileOffset::new(f.try_clone().unwrap(), off), size, route));
            if !ok {
                fail(ctx, "C15/file-history/valid-request-refused", format!("file {} offset {} size {}", flen, off, size), json!({"file_len": flen, "offset": off, "size": size}));
                continue;
            }
            for k in 0..n.get() {
                for (ai, label) in ["EIO", "reports length 0", "reports length 2^40"].iter().enumerate() {
                    ctx.case(true);
                    let i = std::rc::Rc::new(std::cell::Cell::new(0usize));
                    let describe = || ("C15/file-history/seek-fault".to_string(), format!("lseek #{} {}", k, label), json!({"file_len": flen, "offset": off, "size": size, "route": route, "lseek": k, "answer": label}));
                    let r = crate::crash::guarded(ctx, &describe, || {
                        let i = i.clone();
                        with_seek_handler(
                            Box::new(move |_, _, whence| {
                                let me = i.get();
                                i.set(me + 1);
                                if me != k {
                                    return SeekAnswer::Pass;
                                }
                                match ai {
                                    0 => SeekAnswer::Err(libc::EIO),
                                    1 if whence == libc::SEEK_END => SeekAnswer::Ret(0),
                                    2 if whence == libc::SEEK_END => SeekAnswer::Ret(1 << 40),
                                    _ => SeekAnswer::Pass,
                                }
                            }),
                            || build(FileOffset::new(f.try_clone().unwrap(), off), size, route),
                        )
                    });
                    if let Some((ok, log)) = r {
                        if !left_mapped(&log).is_empty() {
                            fail(ctx, "C15/file-history/left-mapped-after-a-failed-length-query", format!("lseek #{} {}: construction {} and left {:x?} mapped", k, label, if ok { "succeeded" } else { "failed" }, left_mapped(&log)), describe().2);
                        }
                    }
                }
            }
        }
    }
}

pub fn run(tier: Tier, replay: Option<String>) -> i32 {
    let ctx = crate::new_ctx("C15", tier, "fault_enumeration", &replay);
    ctx.set_rule("Unix build: file lengths {0,1,4095,4096,4097,8192,12288} x offsets {0,1,4096,len-1,len,len+1,2^64-4096,2^64-1} x sizes {0,1,4096,rest-1,rest,rest+1,isize::MAX,usize::MAX} x all 32 subsets of {PRIVATE,SHARED,ANONYMOUS,NORESERVE,FIXED} (x 3 protections in the thorough tier) (with the descriptor's cursor left at 0, at the end, at and beyond the end of the requested range, far beyond the file) through MmapRegion::build / from_file / GuestRegionMmap::from_range and the builder with the hugetlbfs hint {unset, false, true}, external pointers through the builder x hugetlbfs hint {unset, false, true} x pointers at every page of a 4-page arena and misaligned ones x file or not (the hint is no alignment requirement), descriptors opened read-only and write-only x 3 protections x shared/private (a request the kernel refuses stays refused; an accepted one made exactly the mapping it reports), anonymous requests (also through the builder x hugetlbfs hint {unset,false,true} set before or after build x sizes around 2 MiB multiples up to 1 GiB: the request reaching the kernel is the one made, and what the kernel grants is not refused), injected mmap failure, build_raw with pointers at page offset {0,1,8,2048,4095} with and without a backing file and for 58 flag words (all subsets of the basic bits plus huge-page sizes, populate, lock, stack, growsdown, nonblock, sync and unknown high bits: the pointer rule does not depend on the flags), guest bases within +-2 of the top of the address space, byte-by-byte coherence of shared file regions in both directions; a sparse file of 14 GiB with offsets around 2^31, 2^32 and 2^33 through three constructors (the kernel sees the whole offset, the region shows the file's bytes at that offset, and a request the kernel itself maps is not refused). Xen build: guest bases within two pages of 2^64 and around 2^63 for every valid mapping type (end beyond the address space refused whatever backs the region); all 256 low mmap-flag bytes plus every single high bit (alone and combined with GRANT) x {no file, device file at offset 0, at offset 4096} x sizes (incl. past the end of the file for plain file mappings) x hugetlbfs hint {unset, false, true} x injected {none, ioctl failure, mmap failure} on the emulated gntdev/privcmd; every mapping type x 7 explicit flag words x 3 protections: the region reports exactly the requested words. Both builds: every sequence of three file lengths out of {0,4096,8192,12288} with every size requested after each change through one FileOffset lineage (the predicate refers to the file as it is now), and every length query of a valid construction answered with EIO / length 0 / length 2^40 (one deviation per run): whatever the outcome, nothing may stay mapped. Oracle: the statement's acceptance predicate (must fail: MAP_FIXED - which must not even reach the kernel -, overflowing or past-EOF file range, misaligned raw pointer, end beyond the address space, unknown/contradictory Xen type bits, missing file or non-zero offset for foreign/grant; safe requests the OS refuses may fail too); on success the attributes echo the request and exactly one mapping with the requested arguments was made; on failure the interposed mapping log (and the device) show nothing left mapped. One case = one request; all non-trivial; distinct by construction.");
    ctx.assume("mmap/munmap/ioctl/lseek are observed and faulted through link-time interposition; gntdev/privcmd are emulated");
    if ctx.replay_of.is_some() {
        println!("replay: deterministic enumeration; re-running it");
    }
    if let Err(e) = crate::interpose::selftest() {
        ctx.machinery(&format!("interposition self-test failed: {}", e));
        return ctx.finish();
    }
    #[cfg(not(feature = "xen"))]
    std_part(&ctx, tier.thorough());
    #[cfg(feature = "xen")]
    xen_part(&ctx, tier.thorough());
    file_histories(&ctx);
    ctx.sample(json!({"api": "MmapRegion::build", "file_len": 4097, "offset": 4096, "size": 2, "flags": "MAP_SHARED", "required": "MappingPastEof-class error, no mmap left behind"}));
    ctx.sample(json!({"api": "MmapRegion::from_range (Xen)", "mmap_flags": "0x9 (FOREIGN|NO_ADVANCE_MAP)", "required": "refused: contradictory mapping type"}));
    ctx.set_exhaustive(true);
    ctx.finish()
}
