//! C01 — every accessor handed out stays inside its parent memory and is aligned (E1, fixpoint).

use crate::arena::Arena;
use crate::report::{Ctx, Tier};
use serde_json::{json, Value};
use std::collections::{HashSet, VecDeque};
use std::mem::{align_of, size_of};
use std::sync::atomic::{AtomicI16, AtomicI32, AtomicI64, AtomicI8, AtomicIsize, AtomicU16, AtomicU32, AtomicU64, AtomicU8, AtomicUsize};
use vm_memory::{Be64, ByteValued, Bytes, Le32, VolatileArrayRef, VolatileMemory, VolatileRef, VolatileSlice};

const IMAX: usize = isize::MAX as usize;
const EXT: [usize; 5] = [IMAX - 1, IMAX, IMAX + 1, usize::MAX - 1, usize::MAX];

#[derive(Clone, Copy, Debug, PartialEq, Eq, Hash, PartialOrd, Ord)]
pub enum T1 {
    U8,
    U16,
    U32,
    U64,
    U128,
    A3,
    A16x2,
    Le32,
    Be64,
    Zst,
    /// zero-sized types whose references must still be aligned
    Zst2,
    Zst8,
    Zst16,
}
const T1S: [T1; 13] = [T1::U8, T1::U16, T1::U32, T1::U64, T1::U128, T1::A3, T1::A16x2, T1::Le32, T1::Be64, T1::Zst, T1::Zst2, T1::Zst8, T1::Zst16];

impl T1 {
    fn size(self) -> usize {
        match self {
            T1::U8 => 1,
            T1::U16 => 2,
            T1::U32 | T1::Le32 | T1::A16x2 => 4,
            T1::U64 | T1::Be64 => 8,
            T1::U128 => 16,
            T1::A3 => 3,
            T1::Zst | T1::Zst2 | T1::Zst8 | T1::Zst16 => 0,
        }
    }
    fn align(self) -> usize {
        match self {
            T1::U8 | T1::A3 | T1::Zst => 1,
            T1::U16 | T1::A16x2 | T1::Zst2 => 2,
            T1::U32 | T1::Le32 => 4,
            T1::U64 | T1::Be64 | T1::Zst8 => 8,
            T1::U128 | T1::Zst16 => align_of::<u128>(),
        }
    }
}

macro_rules! with_t1 {
    ($ty:expr, $f:ident, $($args:expr),*) => {
        match $ty {
            T1::U8 => $f::<u8>($($args),*),
            T1::U16 => $f::<u16>($($args),*),
            T1::U32 => $f::<u32>($($args),*),
            T1::U64 => $f::<u64>($($args),*),
            T1::U128 => $f::<u128>($($args),*),
            T1::A3 => $f::<[u8; 3]>($($args),*),
            T1::A16x2 => $f::<[u16; 2]>($($args),*),
            T1::Le32 => $f::<Le32>($($args),*),
            T1::Be64 => $f::<Be64>($($args),*),
            T1::Zst => $f::<[u8; 0]>($($args),*),
            T1::Zst2 => $f::<[u16; 0]>($($args),*),
            T1::Zst8 => $f::<[u64; 0]>($($args),*),
            T1::Zst16 => $f::<[u128; 0]>($($args),*),
        }
    };
}

#[derive(Clone, Copy, Debug, PartialEq, Eq, Hash)]
pub enum Node {
    Slice { off: usize, len: usize },
    Ref { ty: T1, off: usize },
    Arr { ty: T1, off: usize, n: usize },
}

struct Root {
    arena: Arena,
    start: usize,
    len: usize,
    what: &'static str,
}

impl Root {
    fn ptr(&self) -> *mut u8 {
        unsafe { self.arena.ptr().add(self.start) }
    }
    fn slice(&self, off: usize, len: usize) -> VolatileSlice<'_, ()> {
        // SAFETY: (off, len) was validated against the model; inside the arena
        unsafe { VolatileSlice::new(self.ptr().add(off), len) }
    }
    fn window(&self) -> (usize, usize) {
        (self.start.saturating_sub(96), (self.start + self.len + 96).min(self.arena.len()))
    }
    fn reset(&self) {
        let (a, b) = self.window();
        let bytes = self.arena.bytes_mut();
        for (i, x) in bytes[a..b].iter_mut().enumerate() {
            *x = 0x40 | ((a + i) as u8 & 0x3f);
        }
    }
    /// true if every byte of the window outside [off, off+len) still has its reset value
    fn outside_intact(&self, off: usize, len: usize) -> bool {
        let (a, b) = self.window();
        let bytes = self.arena.bytes();
        (a..b).all(|i| (i >= self.start + off && i < self.start + off + len) || bytes[i] == 0x40 | (i as u8 & 0x3f))
    }
    fn inside(&self, off: usize, len: usize) -> Vec<u8> {
        self.arena.bytes()[self.start + off..self.start + off + len].to_vec()
    }
}

fn args(l: usize, p: usize, thorough: bool) -> Vec<usize> {
    let mut v: Vec<usize> = if l <= 40 || thorough { (0..=l + 1).collect() } else { vec![0, 1, 2, l / 2, l - 1, l, l + 1] };
    v.extend_from_slice(&EXT);
    v.extend_from_slice(&[usize::MAX - p, (usize::MAX - p).wrapping_add(1), usize::MAX - p - 1]);
    v.sort();
    v.dedup();
    v
}

fn fits(o: usize, c: usize, l: usize) -> bool {
    o.checked_add(c).map_or(false, |e| e <= l)
}

struct Bfs<'a> {
    ctx: &'a Ctx,
    root: &'a Root,
    seen: HashSet<Node>,
    frontier: VecDeque<(Node, u32)>,
    transitions: u64,
    max_depth: u32,
    thorough: bool,
}

impl<'a> Bfs<'a> {
    fn fail(&self, site: &str, kind: &str, parent: Node, arg: String, detail: String) {
        let key = format!("C01/{}/{}/{}", self.root.what, site, kind);
        let rp = if self.ctx.has_failed(&key) {
            Value::Null
        } else {
            json!({"root": self.root.what, "root_len": self.root.len, "root_address_mod_16": self.root.ptr() as usize % 16, "parent": format!("{:?}", parent), "call": site, "args": arg})
        };
        self.ctx.fail(&key, &format!("root N={} parent {:?} {}({}): {}", self.root.len, parent, site, arg, detail), rp);
    }

    fn push(&mut self, n: Node, depth: u32) {
        if self.seen.insert(n) {
            self.check_new_state(n);
            self.frontier.push_back((n, depth));
            self.max_depth = self.max_depth.max(depth);
        }
    }

    /// A child slice reported by the real API: must be exactly [parent+o, +c).
    fn child_slice(&mut self, site: &str, parent: Node, poff: usize, arg: String, res: Result<VolatileSlice<()>, ()>, want: Option<(usize, usize)>, depth: u32) {
        self.transitions += 1;
        match (res, want) {
            (Ok(s), Some((o, c))) => {
                let got_ptr = s.ptr_guard().as_ptr() as usize;
                let exp_ptr = self.root.ptr() as usize + poff + o;
                if got_ptr != exp_ptr || s.len() != c {
                    self.fail(site, "wrong-extent", parent, arg, format!("child is [{:#x},+{}) but should be [{:#x},+{})", got_ptr, s.len(), exp_ptr, c));
                } else {
                    self.push(Node::Slice { off: poff + o, len: c }, depth + 1);
                }
            }
            (Ok(s), None) => {
                self.fail(site, "accepted-request-that-does-not-fit", parent, arg, format!("an accessor of {} bytes at {:#x} was handed out", s.len(), s.ptr_guard().as_ptr() as usize));
            }
            (Err(()), Some(_)) => self.fail(site, "refused-request-that-fits", parent, arg, "".into()),
            (Err(()), None) => {}
        }
    }

    fn check_new_state(&mut self, n: Node) {
        let root = self.root;
        let describe = || (format!("C01/{}/use-accessor", root.what), format!("{:?}", n), json!({"root": root.what, "root_len": root.len, "node": format!("{:?}", n)}));
        let r = crate::crash::guarded(self.ctx, &describe, || -> Result<(), String> {
            root.reset();
            match n {
                Node::Slice { off, len } => {
                    let s = root.slice(off, len);
                    let pat: Vec<u8> = (0..len).map(|i| 0x80 | (i as u8 & 0x7f)).collect();
                    if len > 0 {
                        // the memory traffic of the transfers is recorded (hook H1): inside the
                        // window around the root, every load and store the library makes lies
                        // inside the accessor's range - also the loads, which leave no trace in
                        // memory (the other side of a copy is a host buffer outside the window)
                        let log: std::rc::Rc<std::cell::RefCell<Vec<(usize, usize, bool)>>> = Default::default();
                        let l2 = log.clone();
                        let prev = vm_memory::verif_hooks::set_thread_observer(Some(std::rc::Rc::new(move |e: &vm_memory::verif_hooks::Event| match e {
                            vm_memory::verif_hooks::Event::VolatileRead { addr, size } => l2.borrow_mut().push((*addr, *size, false)),
                            vm_memory::verif_hooks::Event::VolatileWrite { addr, size } => l2.borrow_mut().push((*addr, *size, true)),
                            _ => {}
                        })));
                        let moved = (|| -> Result<(), String> {
                            let w = s.write(&pat, 0).map_err(|e| format!("write failed: {:?}", e))?;
                            if w != len {
                                return Err(format!("write through the accessor moved {} of {} bytes", w, len));
                            }
                            let mut back = vec![0u8; len];
                            s.read(&mut back, 0).map_err(|e| format!("read failed: {:?}", e))?;
                            if back != pat || root.inside(off, len) != pat {
                                return Err("data written through the accessor is not what is found in its range".into());
                            }
                            let mut back2 = vec![0u8; len];
                            s.read_slice(&mut back2, 0).map_err(|e| format!("read_slice failed: {:?}", e))?;
                            let mut back3 = vec![0u8; len + 3];
                            let n3 = s.copy_to(&mut back3[..]);
                            if back2 != pat || n3 != len || back3[..len] != pat[..] {
                                return Err("data read back through read_slice / copy_to differs from what was written".into());
                            }
                            s.write_slice(&pat, 0).map_err(|e| format!("write_slice failed: {:?}", e))?;
                            // the "up to count" stream forms from every start offset with counts
                            // that reach past the end, fed by a source / drained into a sink that
                            // could move more: they stop at the end of the accessor
                            let ample = vec![0xA5u8; len + 24];
                            for a in [0usize, 1, len / 2, len - 1] {
                                if a >= len {
                                    continue;
                                }
                                for count in [len - a, len - a + 1, len, len + 9] {
                                    let mut src = &ample[..];
                                    let n = s.read_volatile_from(a, &mut src, count).map_err(|e| format!("read_volatile_from({}, {}) failed: {:?}", a, count, e))?;
                                    if n > len - a || ample.len() - src.len() != n {
                                        return Err(format!("read_volatile_from(offset {}, count {}) on an accessor of {} bytes reports {} bytes and took {} from the source", a, count, len, n, ample.len() - src.len()));
                                    }
                                    let mut sink: Vec<u8> = Vec::new();
                                    let m = s.write_volatile_to(a, &mut sink, count).map_err(|e| format!("write_volatile_to({}, {}) failed: {:?}", a, count, e))?;
                                    if m > len - a || sink.len() != m {
                                        return Err(format!("write_volatile_to(offset {}, count {}) on an accessor of {} bytes reports {} bytes and handed {} to the sink", a, count, len, m, sink.len()));
                                    }
                                }
                            }
                            Ok(())
                        })();
                        vm_memory::verif_hooks::set_thread_observer(prev);
                        moved?;
                        let (wa, wb) = root.window();
                        let base = root.arena.ptr() as usize;
                        let (lo, hi) = (root.ptr() as usize + off, root.ptr() as usize + off + len);
                        for (addr, size, is_write) in log.borrow().iter() {
                            let in_window = *addr < base + wb && addr + size > base + wa;
                            if in_window && (*addr < lo || addr + size > hi) {
                                return Err(format!("a {} of {} bytes at accessor offset {} reaches outside the accessor (length {}) while it is {}", if *is_write { "store" } else { "load" }, size, *addr as isize - lo as isize, len, if *is_write { "written" } else { "read" }));
                            }
                        }
                    }
                    if !root.outside_intact(off, len) {
                        return Err("bytes outside the accessor's range changed".into());
                    }
                    // the accessor as the destination of copies from sources that are longer than
                    // it is and whose element size does not divide its length: still nothing
                    // outside its range may change
                    {
                        let mut foreign = [0x5au8; 64];
                        // SAFETY: foreign outlives the slices built on it
                        let fsl = unsafe { VolatileSlice::new(foreign.as_mut_ptr(), 64) };
                        fsl.copy_to_volatile_slice(s.clone());
                        fsl.get_array_ref::<u16>(0, 9).map_err(|e| format!("{:?}", e))?.copy_to_volatile_slice(s.clone());
                        fsl.get_array_ref::<u32>(0, 5).map_err(|e| format!("{:?}", e))?.copy_to_volatile_slice(s.clone());
                        fsl.get_array_ref::<u64>(0, 3).map_err(|e| format!("{:?}", e))?.copy_to_volatile_slice(s.clone());
                        fsl.get_array_ref::<[u8; 3]>(1, 7).map_err(|e| format!("{:?}", e))?.copy_to_volatile_slice(s.clone());
                        s.copy_from(&[0x5a5a_5a5au32; 6]);
                        s.copy_from(&[0x5a5a_5a5a_5a5a_5a5au64; 4]);
                        s.copy_from(&[[0x5au8; 3]; 9]);
                        if !root.outside_intact(off, len) {
                            return Err("a copy into the accessor from a longer source changed bytes outside its range".into());
                        }
                    }
                    let g = s.ptr_guard_mut();
                    if g.as_ptr() as usize != root.ptr() as usize + off || g.len() != len {
                        return Err("ptr_guard_mut does not designate the accessor's range".into());
                    }
                    let a: VolatileArrayRef<u8, ()> = s.into();
                    if a.len() != len || a.ptr_guard().as_ptr() as usize != root.ptr() as usize + off {
                        return Err("From<VolatileSlice> for VolatileArrayRef<u8> changed the extent".into());
                    }
                    let w = s.as_volatile_slice();
                    if w.len() != len || w.ptr_guard().as_ptr() as usize != root.ptr() as usize + off {
                        return Err("as_volatile_slice changed the extent".into());
                    }
                    Ok(())
                }
                Node::Ref { ty, off } => {
                    fn go<T: ByteValued>(root: &Root, off: usize) -> Result<(), String> {
                        let sz = size_of::<T>();
                        // SAFETY: validated against the model
                        let r = unsafe { VolatileRef::<T>::new(root.ptr().add(off)) };
                        let mut v = T::zeroed();
                        for (i, b) in v.as_mut_slice().iter_mut().enumerate() {
                            *b = 0x80 | i as u8;
                        }
                        r.store(v);
                        let back = r.load();
                        if back.as_slice() != v.as_slice() || root.inside(off, sz) != v.as_slice() {
                            return Err("value stored through the reference is not found in its range".into());
                        }
                        if !root.outside_intact(off, sz) {
                            return Err("bytes outside the reference changed".into());
                        }
                        let g = r.ptr_guard();
                        if g.as_ptr() as usize != root.ptr() as usize + off || g.len() != sz {
                            return Err(format!("ptr_guard of the reference is [{:#x},+{})", g.as_ptr() as usize, g.len()));
                        }
                        Ok(())
                    }
                    with_t1!(ty, go, root, off)
                }
                Node::Arr { ty, off, n } => {
                    fn go<T: ByteValued>(root: &Root, off: usize, n: usize) -> Result<(), String> {
                        let sz = size_of::<T>();
                        if sz == 0 || n > 64 {
                            return Ok(()); // zero-sized copies belong to C18
                        }
                        // SAFETY: validated against the model
                        let a = unsafe { VolatileArrayRef::<T>::new(root.ptr().add(off), n) };
                        let mut vals: Vec<T> = Vec::new();
                        for k in 0..n {
                            let mut v = T::zeroed();
                            for (i, b) in v.as_mut_slice().iter_mut().enumerate() {
                                *b = 0x80 | ((k * sz + i) as u8 & 0x7f);
                            }
                            vals.push(v);
                        }
                        a.copy_from(&vals);
                        let want: Vec<u8> = vals.iter().flat_map(|v| v.as_slice().to_vec()).collect();
                        if root.inside(off, n * sz) != want {
                            return Err("elements copied through the array reference are not found in its range".into());
                        }
                        if !root.outside_intact(off, n * sz) {
                            return Err("bytes outside the array reference changed".into());
                        }
                        Ok(())
                    }
                    with_t1!(ty, go, root, off, n)
                }
            }
        });
        if let Some(Err(d)) = r {
            let key = format!("C01/{}/use-accessor/{}", root.what, match n {
                Node::Slice { .. } => "slice",
                Node::Ref { .. } => "ref",
                Node::Arr { .. } => "array",
            });
            self.ctx.fail(&key, &format!("{:?}: {}", n, d), json!({"root": root.what, "root_len": root.len, "node": format!("{:?}", n)}));
        }
    }

    fn expand(&mut self, node: Node, depth: u32) {
        match node {
            Node::Slice { off, len } => self.expand_slice(node, off, len, depth),
            Node::Ref { ty, off } => {
                fn go<T: ByteValued>(root: &Root, off: usize) -> (usize, usize) {
                    // SAFETY: validated
                    let r = unsafe { VolatileRef::<T>::new(root.ptr().add(off)) };
                    let s = r.to_slice();
                    (s.ptr_guard().as_ptr() as usize, s.len())
                }
                let (p, l) = with_t1!(ty, go, self.root, off);
                self.transitions += 1;
                if p != self.root.ptr() as usize + off || l != ty.size() {
                    self.fail("VolatileRef::to_slice", "wrong-extent", node, "".into(), format!("[{:#x},+{})", p, l));
                } else {
                    self.push(Node::Slice { off, len: l }, depth + 1);
                }
            }
            Node::Arr { ty, off, n } => {
                fn to_slice<T: ByteValued>(root: &Root, off: usize, n: usize) -> (usize, usize) {
                    // SAFETY: validated
                    let a = unsafe { VolatileArrayRef::<T>::new(root.ptr().add(off), n) };
                    let s = a.to_slice();
                    (s.ptr_guard().as_ptr() as usize, s.len())
                }
                fn ref_at<T: ByteValued>(root: &Root, off: usize, n: usize, i: usize) -> Option<(usize, usize)> {
                    // SAFETY: validated
                    let a = unsafe { VolatileArrayRef::<T>::new(root.ptr().add(off), n) };
                    std::panic::catch_unwind(std::panic::AssertUnwindSafe(|| {
                        let r = a.ref_at(i);
                        (r.ptr_guard().as_ptr() as usize, r.len())
                    }))
                    .ok()
                }
                /// element load (kind 0) or load-and-store-back (kind 1): true when the call returned
                fn elem_access<T: ByteValued>(root: &Root, off: usize, n: usize, i: usize, kind: usize) -> bool {
                    // SAFETY: validated
                    let a = unsafe { VolatileArrayRef::<T>::new(root.ptr().add(off), n) };
                    std::panic::catch_unwind(std::panic::AssertUnwindSafe(|| {
                        if kind == 0 {
                            let _ = a.load(i);
                        } else {
                            // an index inside the array keeps its value; one outside must never get here
                            let v = if i < n { a.load(i) } else { T::zeroed() };
                            a.store(i, v);
                        }
                    }))
                    .is_ok()
                }
                let sz = ty.size();
                let (p, l) = with_t1!(ty, to_slice, self.root, off, n);
                self.transitions += 1;
                if p != self.root.ptr() as usize + off || l != n * sz {
                    self.fail("VolatileArrayRef::to_slice", "wrong-extent", node, "".into(), format!("[{:#x},+{})", p, l));
                } else {
                    self.push(Node::Slice { off, len: l }, depth + 1);
                }
                let idx: Vec<usize> = if n <= 40 { (0..=n + 1).collect() } else { vec![0, 1, n - 1, n, n + 1] };
                for i in idx.into_iter().chain([usize::MAX, IMAX]) {
                    self.transitions += 1;
                    let r = {
                        let describe = || (format!("C01/{}/VolatileArrayRef::ref_at", self.root.what), format!("{:?} index {}", node, i), json!({"node": format!("{:?}", node), "index": i}));
                        crate::crash::guarded(self.ctx, &describe, || with_t1!(ty, ref_at, self.root, off, n, i))
                    };
                    match r {
                        Some(Some((p, l))) => {
                            if i >= n {
                                self.fail("VolatileArrayRef::ref_at", "index-out-of-range-accepted", node, format!("{}", i), format!("returned a reference at [{:#x},+{}), outside the array of {} elements", p, l, n));
                            } else if p != self.root.ptr() as usize + off + i * sz || l != sz {
                                self.fail("VolatileArrayRef::ref_at", "wrong-extent", node, format!("{}", i), format!("[{:#x},+{})", p, l));
                            } else {
                                self.push(Node::Ref { ty, off: off + i * sz }, depth + 1);
                            }
                        }
                        Some(None) => {
                            if i < n {
                                self.fail("VolatileArrayRef::ref_at", "panicked-for-valid-index", node, format!("{}", i), "".into());
                            }
                        }
                        None => {}
                    }
                    // the element accessors take the same indices
                    for kind in 0..2usize {
                        self.transitions += 1;
                        let name = if kind == 0 { "VolatileArrayRef::load" } else { "VolatileArrayRef::store" };
                        let describe = || (format!("C01/{}/{}", self.root.what, name), format!("{:?} index {}", node, i), json!({"node": format!("{:?}", node), "index": i}));
                        let returned = crate::crash::quiet_unwind(|| crate::crash::guarded(self.ctx, &describe, || with_t1!(ty, elem_access, self.root, off, n, i, kind))).ok().flatten();
                        match returned {
                            Some(true) if i >= n => self.fail(name, "index-out-of-range-accepted", node, format!("{}", i), format!("element {} of an array of {} elements was accessed", i, n)),
                            Some(false) if i < n => self.fail(name, "panicked-for-valid-index", node, format!("{}", i), "".into()),
                            _ => {}
                        }
                    }
                }
            }
        }
    }

    fn expand_slice(&mut self, node: Node, off: usize, len: usize, depth: u32) {
        let root = self.root;
        let s = root.slice(off, len);
        let p = root.ptr() as usize + off;
        let av = args(len, p, self.thorough);
        for &o in &av {
            // offset / split_at
            self.child_slice("VolatileSlice::offset", node, off, format!("{}", o), s.offset(o).map_err(|_| ()), (o <= len).then(|| (o, len - o)), depth);
            self.transitions += 1;
            match (s.split_at(o), o <= len) {
                (Ok((a, b)), true) => {
                    let ok = a.ptr_guard().as_ptr() as usize == p && a.len() == o && b.ptr_guard().as_ptr() as usize == p + o && b.len() == len - o;
                    if !ok {
                        self.fail("VolatileSlice::split_at", "wrong-extent", node, format!("{}", o), format!("halves of {} and {} bytes", a.len(), b.len()));
                    } else {
                        self.push(Node::Slice { off, len: o }, depth + 1);
                        self.push(Node::Slice { off: off + o, len: len - o }, depth + 1);
                    }
                }
                (Ok(_), false) => self.fail("VolatileSlice::split_at", "accepted-request-that-does-not-fit", node, format!("{}", o), "".into()),
                (Err(_), true) => self.fail("VolatileSlice::split_at", "refused-request-that-fits", node, format!("{}", o), "".into()),
                (Err(_), false) => {}
            }
            for &c in &av {
                let want = fits(o, c, len).then(|| (o, c));
                self.child_slice("VolatileSlice::subslice", node, off, format!("{}, {}", o, c), s.subslice(o, c).map_err(|_| ()), want, depth);
                self.child_slice("VolatileMemory::get_slice", node, off, format!("{}, {}", o, c), s.get_slice(o, c).map_err(|_| ()), want, depth);
                self.transitions += 1;
                match (s.compute_end_offset(o, c), fits(o, c, len)) {
                    (Ok(e), true) if e == o + c => {}
                    (Err(_), false) => {}
                    (r, _) => self.fail("VolatileMemory::compute_end_offset", "wrong-answer", node, format!("{}, {}", o, c), format!("{:?}", r.ok())),
                }
            }
            // typed references
            for ty in T1S {
                fn get_ref<T: ByteValued>(s: &VolatileSlice<()>, o: usize) -> Option<(usize, usize)> {
                    s.get_ref::<T>(o).ok().map(|r| (r.ptr_guard().as_ptr() as usize, r.len()))
                }
                fn aligned<T: ByteValued>(s: &VolatileSlice<()>, o: usize) -> (Option<usize>, Option<usize>) {
                    // SAFETY: nothing else uses the arena while the reference is alive
                    unsafe { (s.aligned_as_ref::<T>(o).ok().map(|r| r as *const T as usize), s.aligned_as_mut::<T>(o).ok().map(|r| r as *mut T as usize)) }
                }
                let sz = ty.size();
                self.transitions += 1;
                match (with_t1!(ty, get_ref, &s, o), fits(o, sz, len)) {
                    (Some((rp, rl)), true) => {
                        if rp != p + o || rl != sz {
                            self.fail("get_ref", "wrong-extent", node, format!("{:?}, {}", ty, o), format!("[{:#x},+{})", rp, rl));
                        } else {
                            self.push(Node::Ref { ty, off: off + o }, depth + 1);
                        }
                    }
                    (Some(_), false) => self.fail("get_ref", "accepted-request-that-does-not-fit", node, format!("{:?}, {}", ty, o), "".into()),
                    (None, true) => self.fail("get_ref", "refused-request-that-fits", node, format!("{:?}, {}", ty, o), "".into()),
                    (None, false) => {}
                }
                self.transitions += 1;
                let ok = fits(o, sz, len) && (p.wrapping_add(o)) % ty.align() == 0;
                let (r1, r2) = with_t1!(ty, aligned, &s, o);
                for (r, name) in [(r1, "aligned_as_ref"), (r2, "aligned_as_mut")] {
                    match (r, ok) {
                        (Some(a), true) if a == p + o => {}
                        (None, false) => {}
                        (Some(a), _) => self.fail(name, "misaligned-or-out-of-range-reference", node, format!("{:?}, {}", ty, o), format!("reference at {:#x} (align {}, fits {})", a, ty.align(), fits(o, sz, len))),
                        (None, true) => self.fail(name, "refused-request-that-fits", node, format!("{:?}, {}", ty, o), "".into()),
                    }
                }
                // arrays
                let mut ns: Vec<usize> = if sz > 0 { (0..=len / sz + 1).collect() } else { vec![0, 1, 5] };
                ns.extend_from_slice(&EXT);
                if sz > 1 {
                    ns.extend_from_slice(&[usize::MAX / sz, usize::MAX / sz + 1, IMAX / sz, IMAX / sz + 1]);
                }
                for n in ns {
                    fn get_arr<T: ByteValued>(s: &VolatileSlice<()>, o: usize, n: usize) -> Option<(usize, usize, usize)> {
                        s.get_array_ref::<T>(o, n).ok().map(|a| {
                            let sl = a.to_slice();
                            (sl.ptr_guard().as_ptr() as usize, a.len(), sl.len())
                        })
                    }
                    self.transitions += 1;
                    let bytes = if n <= IMAX { n.checked_mul(sz).filter(|b| *b <= IMAX) } else { None };
                    let want = bytes.filter(|b| fits(o, *b, len));
                    match (with_t1!(ty, get_arr, &s, o, n), want) {
                        (Some((ap, an, ab)), Some(b)) => {
                            if ap != p + o || an != n || ab != b {
                                self.fail("get_array_ref", "wrong-extent", node, format!("{:?}, {}, {}", ty, o, n), format!("[{:#x},+{}) {} elements", ap, ab, an));
                            } else if n <= 64 {
                                self.push(Node::Arr { ty, off: off + o, n }, depth + 1);
                            }
                        }
                        (Some((ap, an, _)), None) => self.fail("get_array_ref", "accepted-request-that-does-not-fit", node, format!("{:?}, {}, {}", ty, o, n), format!("array of {} elements at {:#x}", an, ap)),
                        (None, Some(_)) => self.fail("get_array_ref", "refused-request-that-fits", node, format!("{:?}, {}, {}", ty, o, n), "".into()),
                        (None, None) => {}
                    }
                }
            }
            // atomic references
            macro_rules! atomic {
                ($a:ty) => {{
                    self.transitions += 1;
                    let sz = size_of::<$a>();
                    let ok = fits(o, sz, len) && (p.wrapping_add(o)) % align_of::<$a>() == 0;
                    match (s.get_atomic_ref::<$a>(o).ok().map(|r| r as *const $a as usize), ok) {
                        (Some(a), true) if a == p + o => {}
                        (None, false) => {}
                        (Some(a), _) => self.fail("get_atomic_ref", "misaligned-or-out-of-range-reference", node, format!("{}, {}", stringify!($a), o), format!("reference at {:#x}", a)),
                        (None, true) => self.fail("get_atomic_ref", "refused-request-that-fits", node, format!("{}, {}", stringify!($a), o), "".into()),
                    }
                }};
            }
            // Bytes::store / Bytes::load: atomic accesses through the byte-access interface must obey
            // the same rule (fits the slice, aligned), and must not touch anything outside it
            macro_rules! bytes_atomic {
                ($t:ty) => {{
                    use std::sync::atomic::Ordering;
                    self.transitions += 1;
                    let sz = size_of::<$t>();
                    let ok = fits(o, sz, len) && (p.wrapping_add(o)) % align_of::<$t>() == 0;
                    root.reset();
                    let st = s.store::<$t>(0x5a as $t, o, Ordering::SeqCst).is_ok();
                    let intact = root.outside_intact(off + o.min(len), if ok { sz } else { 0 });
                    let ld = s.load::<$t>(o, Ordering::SeqCst).is_ok();
                    if st != ok || ld != ok {
                        self.fail("Bytes::store/load", if ok { "refused-request-that-fits" } else { "accepted-request-that-does-not-fit-or-is-misaligned" }, node, format!("{}, {}", stringify!($t), o), format!("store ok={} load ok={} (fits {}, address {:#x})", st, ld, fits(o, sz, len), p.wrapping_add(o)));
                    } else if !intact {
                        self.fail("Bytes::store/load", "wrote-outside-the-slice", node, format!("{}, {}", stringify!($t), o), "".into());
                    }
                }};
            }
            if o <= len + 1 {
                bytes_atomic!(u8);
                bytes_atomic!(u16);
                bytes_atomic!(u32);
                bytes_atomic!(u64);
                bytes_atomic!(i32);
                bytes_atomic!(usize);
            }
            atomic!(AtomicU8);
            atomic!(AtomicU16);
            atomic!(AtomicU32);
            atomic!(AtomicU64);
            atomic!(AtomicUsize);
            atomic!(AtomicI8);
            atomic!(AtomicI16);
            atomic!(AtomicI32);
            atomic!(AtomicI64);
            atomic!(AtomicIsize);
        }
    }
}

fn explore_root(ctx: &Ctx, root: &Root, thorough: bool) {
    let mut b = Bfs {
        ctx,
        root,
        seen: HashSet::new(),
        frontier: VecDeque::new(),
        transitions: 0,
        max_depth: 0,
        thorough,
    };
    b.push(Node::Slice { off: 0, len: root.len }, 0);
    while let Some((n, d)) = b.frontier.pop_front() {
        let what = root.what;
        let (rl, rm) = (root.len, root.ptr() as usize % 16);
        let describe = move || (format!("C01/{}/derive", what), format!("expanding {:?}", n), json!({"root": what, "root_len": rl, "root_address_mod_16": rm, "parent": format!("{:?}", n)}));
        crate::crash::guarded(ctx, &describe, || b.expand(n, d));
        if ctx.n_findings() > 40 {
            break;
        }
    }
    ctx.add_states(b.seen.len() as u64);
    ctx.add_transitions(b.transitions);
    ctx.add_traces(b.transitions);
    ctx.extra_add("roots", 1);
    ctx.extra_add("frontier_empty_closures", if b.frontier.is_empty() { 1 } else { 0 });
    let mut g = MAXD.lock().unwrap();
    *g = (*g).max(b.max_depth);
    if ctx.sample_n() < 4 && root.len == 9 {
        ctx.sample(json!({"root": root.what, "N": root.len, "address_mod_8": root.ptr() as usize % 8, "states": b.seen.len(), "transitions": b.transitions, "deepest_chain": b.max_depth,
                           "example_transition": "Slice{off:2,len:7}.get_array_ref::<u16>(1, 3) -> Arr{U16, off:3, n:3}; .ref_at(2) -> Ref{U16, off:7}; .to_slice() -> Slice{off:7,len:2}"}));
    }
}

static MAXD: std::sync::Mutex<u32> = std::sync::Mutex::new(0);

fn from_slice_checks(ctx: &Ctx) {
    fn go<T: ByteValued>(ctx: &Ctx, name: &str) {
        let mut buf = [0u8; 64];
        let base = buf.as_ptr() as usize;
        let a0 = (16 - base % 16) % 16;
        for len in 0..=17usize {
            for mis in 0..8usize {
                let start = a0 + 16 + mis;
                let want = len == size_of::<T>() && (base + start) % align_of::<T>() == 0;
                let p0 = base + start;
                let r1 = T::from_slice(&buf[start..start + len]).map(|r| r as *const T as usize);
                let r2 = T::from_mut_slice(&mut buf[start..start + len]).map(|r| r as *mut T as usize);
                ctx.add_transitions(2);
                ctx.add_traces(2);
                for (r, f) in [(r1, "from_slice"), (r2, "from_mut_slice")] {
                    let ok = match (r, want) {
                        (Some(a), true) => a == p0,
                        (None, false) => true,
                        _ => false,
                    };
                    if !ok {
                        ctx.fail(&format!("C01/ByteValued::{}/{}", f, name), &format!("len {} misalignment {}: {:?}, expected some={}", len, mis, r, want), json!({"type": name, "len": len, "mis": mis}));
                    }
                }
            }
        }
    }
    for ty in T1S {
        if ty.size() == 0 {
            // from_slice(&[]) for a zero-sized type answers None today; the property says nothing
            // about it (no accessor is produced), so it is not judged
            continue;
        }
        let name = format!("{:?}", ty);
        with_t1!(ty, go, ctx, &name);
    }
}

#[cfg(not(feature = "xen"))]
fn region_roots(ctx: &Ctx) {
    use crate::layouts::tempfile;
    use vm_memory::{FileOffset, GuestAddress, GuestMemory, GuestMemoryMmap, GuestMemoryRegion, GuestRegionMmap, MemoryRegionAddress, MmapRegion};
    for size in [1usize, 5, 4096, 4097] {
        for file in [false, true] {
            let region = if file {
                let f = tempfile().unwrap();
                f.set_len(8192).unwrap();
                MmapRegion::<()>::from_file(FileOffset::new(f, 0), size).unwrap()
            } else {
                MmapRegion::<()>::new(size).unwrap()
            };
            let base = region.as_ptr() as usize;
            let what = if file { "MmapRegion-file" } else { "MmapRegion-anon" };
            let gr = GuestRegionMmap::new(region, GuestAddress(0x10_0000)).unwrap();
            let mem = GuestMemoryMmap::from_regions(vec![gr]).unwrap();
            let gr = mem.iter().next().unwrap();
            let region: &MmapRegion<()> = gr;
            let av: Vec<usize> = {
                let mut v: Vec<usize> = if size <= 8 { (0..=size + 1).collect() } else { vec![0, 1, 7, 8, 4094, 4095, 4096, 4097, 4098] };
                v.extend_from_slice(&EXT);
                v.extend_from_slice(&[usize::MAX - base, usize::MAX - base + 1]);
                v
            };
            let t = std::cell::Cell::new(0u64);
            for &o in &av {
              let describe = move || (format!("C01/{}/derive", what), format!("size {} offset {}", size, o), json!({"size": size, "offset": o, "file": file}));
              crate::crash::guarded(ctx, &describe, || {
                for &c in &av {
                    let want = fits(o, c, size);
                    let calls: [(&str, Option<(usize, usize)>); 3] = [
                        ("MmapRegion::get_slice", VolatileMemory::get_slice(region, o, c).ok().map(|s| (s.ptr_guard().as_ptr() as usize, s.len()))),
                        ("GuestRegionMmap::get_slice", gr.get_slice(MemoryRegionAddress(o as u64), c).ok().map(|s| (s.ptr_guard().as_ptr() as usize, s.len()))),
                        ("GuestMemoryMmap::get_slice", mem.get_slice(GuestAddress(0x10_0000u64.wrapping_add(o as u64)), c).ok().map(|s| (s.ptr_guard().as_ptr() as usize, s.len()))),
                    ];
                    for (name, r) in calls {
                        t.set(t.get() + 1);
                        // the guest-memory level refuses empty ranges at unmapped addresses; len 0 is not judged there
                        if name == "GuestMemoryMmap::get_slice" && (c == 0 || o as u128 + 0x10_0000 > u64::MAX as u128) {
                            continue;
                        }
                        let ok = match (r, want) {
                            (Some((p, l)), true) => p == base + o && l == c,
                            (None, false) => true,
                            (None, true) => name == "GuestMemoryMmap::get_slice" && o >= size, // start address itself unmapped
                            (Some(_), false) => false,
                        };
                        if !ok {
                            let key = format!("C01/{}/{}/{}", what, name, if want { "refused-or-wrong-extent" } else { "accepted-request-that-does-not-fit" });
                            ctx.fail(&key, &format!("size {} ({}, {}): {:?}", size, o, c, r.map(|(p, l)| (p - base, l))), json!({"size": size, "offset": o, "count": c, "file": file}));
                        }
                    }
                }
                // typed / atomic references and host addresses straight from the region
                t.set(t.get() + 4);
                let fit4 = fits(o, 4, size);
                if region.get_ref::<u32>(o).is_ok() != fit4 {
                    ctx.fail(&format!("C01/{}/MmapRegion::get_ref", what), &format!("size {} offset {}", size, o), json!({"size": size, "offset": o}));
                }
                let al = fit4 && (base + o) % 4 == 0;
                if region.get_atomic_ref::<AtomicU32>(o).is_ok() != al {
                    ctx.fail(&format!("C01/{}/MmapRegion::get_atomic_ref", what), &format!("size {} offset {}", size, o), json!({"size": size, "offset": o}));
                }
                let n = size / 2 + 1;
                if region.get_array_ref::<u16>(o, n).is_ok() != fits(o, n * 2, size) {
                    ctx.fail(&format!("C01/{}/MmapRegion::get_array_ref", what), &format!("size {} offset {} n {}", size, o, n), json!({"size": size, "offset": o}));
                }
                match (gr.get_host_address(MemoryRegionAddress(o as u64)), o < size) {
                    (Ok(p), true) if p as usize == base + o => {}
                    (Err(_), false) => {}
                    (r, _) => ctx.fail(&format!("C01/{}/get_host_address", what), &format!("size {} offset {} -> {:?}", size, o, r.ok()), json!({"size": size, "offset": o})),
                }
              });
            }
            ctx.add_transitions(t.get());
            ctx.add_traces(t.get());
            ctx.add_states(1);
        }
    }
}

/// Xen build: the Xen `MmapRegion::get_slice` (UNIX, grant in advance, grant on demand, foreign).
#[cfg(feature = "xen")]
fn region_roots(ctx: &Ctx) {
    use crate::xen_emu::Emu;
    use vm_memory::{GuestAddress, GuestMemory, GuestMemoryMmap, GuestMemoryRegion, GuestRegionMmap, MemoryRegionAddress, MmapRegion};
    let emu = Emu::new(64);
    for size in [1usize, 5, 4096, 4097] {
        for kind in ["unix", "grant-in-advance", "grant-on-demand", "foreign"] {
            let gr = match kind {
                "unix" => GuestRegionMmap::<()>::from_range(GuestAddress(0x8000), size, None).unwrap(),
                "grant-in-advance" => emu.grant_region(8, size, false).unwrap(),
                "grant-on-demand" => emu.grant_region(8, size, true).unwrap(),
                _ => emu.foreign_region(0x8000, size).unwrap(),
            };
            let mem = GuestMemoryMmap::from_regions(vec![gr]).unwrap();
            let gr = mem.iter().next().unwrap();
            let region: &MmapRegion<()> = gr;
            // for an on-demand region the stored address is the bare offset (base pointer null)
            let base = region.as_ptr() as usize;
            let what: &'static str = match kind {
                "unix" => "xen-unix",
                "grant-in-advance" => "xen-grant-in-advance",
                "grant-on-demand" => "xen-grant-on-demand",
                _ => "xen-foreign",
            };
            let mut av: Vec<usize> = if size <= 8 { (0..=size + 1).collect() } else { vec![0, 1, 7, 8, 4094, 4095, 4096, 4097, 4098] };
            av.extend_from_slice(&EXT);
            av.extend_from_slice(&[usize::MAX - base, (usize::MAX - base).wrapping_add(1)]);
            let mut t = 0u64;
            for &o in &av {
                let describe = move || (format!("C01/{}/derive", what), format!("size {} offset {}", size, o), json!({"size": size, "offset": o, "kind": what}));
                crate::crash::guarded(ctx, &describe, || {
                    for &c in &av {
                        let want = fits(o, c, size);
                        let calls: [(&str, Option<usize>); 3] = [
                            ("MmapRegion::get_slice", VolatileMemory::get_slice(region, o, c).ok().map(|s| s.len())),
                            ("GuestRegionMmap::get_slice", gr.get_slice(MemoryRegionAddress(o as u64), c).ok().map(|s| s.len())),
                            ("GuestMemoryMmap::get_slice", mem.get_slice(GuestAddress(0x8000u64.wrapping_add(o as u64)), c).ok().map(|s| s.len())),
                        ];
                        for (name, r) in calls {
                            t += 1;
                            if name == "GuestMemoryMmap::get_slice" && (c == 0 || o >= size) {
                                continue;
                            }
                            let ok = match (r, want) {
                                (Some(l), true) => l == c,
                                (None, false) => true,
                                _ => false,
                            };
                            if !ok {
                                let key = format!("C01/{}/{}/{}", what, name, if want { "refused-or-wrong-extent" } else { "accepted-request-that-does-not-fit" });
                                ctx.fail(&key, &format!("size {} ({}, {}): {:?}", size, o, c, r), json!({"size": size, "offset": o, "count": c, "kind": what}));
                            }
                        }
                    }
                    t += 2;
                    if region.get_ref::<u32>(o).is_ok() != fits(o, 4, size) {
                        ctx.fail(&format!("C01/{}/MmapRegion::get_ref", what), &format!("size {} offset {}", size, o), json!({"size": size, "offset": o}));
                    }
                    let n = size / 2 + 1;
                    if region.get_array_ref::<u16>(o, n).is_ok() != fits(o, n * 2, size) {
                        ctx.fail(&format!("C01/{}/MmapRegion::get_array_ref", what), &format!("size {} offset {} n {}", size, o, n), json!({"size": size, "offset": o}));
                    }
                });
            }
            ctx.add_transitions(t);
            ctx.add_traces(t);
            ctx.add_states(1);
            drop(mem);
        }
    }
}

/// A parent outside the crate: a window over a buffer whose `get_slice` clips a request at its
/// end instead of refusing it (the trait documents that the returned length MUST NOT be relied
/// on). The provided methods of the trait must still never build an accessor that reaches
/// beyond what the parent handed out: they may refuse or panic, nothing else.
struct Clipping {
    base: *mut u8,
    len: usize,
}

impl VolatileMemory for Clipping {
    type B = ();
    fn len(&self) -> usize {
        self.len
    }
    fn get_slice(&self, offset: usize, count: usize) -> vm_memory::volatile_memory::Result<VolatileSlice<()>> {
        if offset > self.len {
            return Err(vm_memory::VolatileMemoryError::OutOfBounds { addr: offset });
        }
        let n = count.min(self.len - offset);
        // SAFETY: [offset, offset+n) is inside the buffer
        Ok(unsafe { VolatileSlice::new(self.base.add(offset), n) })
    }
}

fn clipping_parent(ctx: &Ctx) {
    let arena = Arena::new(1);
    arena.fill_pattern(0x11);
    let len = 32usize;
    let start = 1024usize;
    let parent = Clipping { base: unsafe { arena.ptr().add(start) }, len };
    let lo = parent.base as usize;
    let hi = lo + len;
    let report = |api: &str, ty: &str, off: usize, n: usize, p: usize, l: usize| {
        let key = format!("C01/clipping-parent/{}/accessor-beyond-what-the-parent-handed-out", api);
        ctx.fail(&key, &format!("{}::<{}>({}, {}) on a 32-byte parent whose get_slice clips: accessor covers parent offsets [{}, {})", api, ty, off, n, p.wrapping_sub(lo), p.wrapping_sub(lo).wrapping_add(l)), json!({"api": api, "type": ty, "offset": off, "count": n}));
    };
    fn typed<T: ByteValued>(ctx: &Ctx, parent: &Clipping, lo: usize, hi: usize, ty: &str, report: &dyn Fn(&str, &str, usize, usize, usize, usize)) {
        let sz = size_of::<T>().max(1);
        for off in 0..=parent.len + 1 {
            for n in (0..=parent.len / sz + 2).chain([usize::MAX / sz, isize::MAX as usize / sz]) {
                ctx.case(true);
                if let Ok(Ok(a)) = crate::crash::quiet_unwind(|| parent.get_array_ref::<T>(off, n).map(|a| (a.ptr_guard().as_ptr() as usize, a.len() * size_of::<T>()))) {
                    if a.0 < lo || a.0.saturating_add(a.1) > hi {
                        report("get_array_ref", ty, off, n, a.0, a.1);
                    }
                }
            }
            ctx.case(true);
            if let Ok(Ok(a)) = crate::crash::quiet_unwind(|| parent.get_ref::<T>(off).map(|r| (r.ptr_guard().as_ptr() as usize, r.len()))) {
                if a.0 < lo || a.0.saturating_add(a.1) > hi {
                    report("get_ref", ty, off, 1, a.0, a.1);
                }
            }
            // SAFETY: nothing else uses the buffer
            if let Ok(Ok(a)) = crate::crash::quiet_unwind(|| unsafe { parent.aligned_as_ref::<T>(off).map(|r| r as *const T as usize) }) {
                if a < lo || a + size_of::<T>() > hi {
                    report("aligned_as_ref", ty, off, 1, a, size_of::<T>());
                }
            }
            if let Ok(Ok(a)) = crate::crash::quiet_unwind(|| unsafe { parent.aligned_as_mut::<T>(off).map(|r| r as *mut T as usize) }) {
                if a < lo || a + size_of::<T>() > hi {
                    report("aligned_as_mut", ty, off, 1, a, size_of::<T>());
                }
            }
        }
    }
    typed::<u8>(ctx, &parent, lo, hi, "u8", &report);
    typed::<u16>(ctx, &parent, lo, hi, "u16", &report);
    typed::<u32>(ctx, &parent, lo, hi, "u32", &report);
    typed::<u64>(ctx, &parent, lo, hi, "u64", &report);
    typed::<u128>(ctx, &parent, lo, hi, "u128", &report);
    typed::<[u8; 3]>(ctx, &parent, lo, hi, "[u8; 3]", &report);
    typed::<Le32>(ctx, &parent, lo, hi, "Le32", &report);
    typed::<Be64>(ctx, &parent, lo, hi, "Be64", &report);
    fn atomic<T: vm_memory::AtomicInteger>(ctx: &Ctx, parent: &Clipping, lo: usize, hi: usize, ty: &str, report: &dyn Fn(&str, &str, usize, usize, usize, usize)) {
        for off in 0..=parent.len + 1 {
            ctx.case(true);
            if let Ok(Ok(a)) = crate::crash::quiet_unwind(|| parent.get_atomic_ref::<T>(off).map(|r| r as *const T as usize)) {
                if a < lo || a + size_of::<T>() > hi {
                    report("get_atomic_ref", ty, off, 1, a, size_of::<T>());
                }
            }
        }
    }
    atomic::<AtomicU16>(ctx, &parent, lo, hi, "AtomicU16", &report);
    atomic::<AtomicU32>(ctx, &parent, lo, hi, "AtomicU32", &report);
    atomic::<AtomicU64>(ctx, &parent, lo, hi, "AtomicU64", &report);
    atomic::<AtomicUsize>(ctx, &parent, lo, hi, "AtomicUsize", &report);
}

pub fn run(tier: Tier, replay: Option<String>) -> i32 {
    let ctx = crate::new_ctx("C01", tier, "model_checking", &replay);
    let thorough = tier.thorough();
    ctx.set_rule("E1 to an empty frontier: state = (accessor kind, element type, start offset relative to the root, extent); from every reachable VolatileSlice: subslice/get_slice/compute_end_offset for every (offset, count) in (0..=L+1 + values around isize::MAX/usize::MAX + pointer-overflowing values)^2, offset/split_at for every such value, get_ref / aligned_as_ref / aligned_as_mut / get_array_ref (every count 0..=L/size+1 + overflowing counts) for 13 element types of 0..16 bytes (incl. zero-sized types of alignment 1, 2, 8 and 16, whose references must still be aligned), get_atomic_ref for all 10 AtomicInteger types; from references: to_slice; from arrays: to_slice, and ref_at, load and store for every index incl. out of range (an element outside the array must be refused by all three). Every transition runs on the real API and is compared with an interval model (accepted iff offset+count does not overflow and fits the immediate parent; child exactly [parent+o, +c); typed/atomic references only at aligned addresses). Every new state is exercised: fill through the accessor, read back, copy into it from longer sources of 1/2/3/4/8-byte elements, only its own range may change inside a canary window placed before a PROT_NONE guard page. While a new slice accessor is written and read (write, read, read_slice, copy_to, write_slice) the load/store traffic of the library is recorded (hook H1): every load and store that falls into the window around the root lies inside the accessor. Roots: VolatileSlice of N bytes at every address mod 8 plus one ending at the guard page; MmapRegion (anonymous and file-backed) of 1, 5, 4096, 4097 bytes through the region, guest-region and guest-memory API; ByteValued::from_slice/from_mut_slice for all lengths 0..=17 x misalignments x types; a parent outside the crate whose get_slice clips a request at its end: the provided methods of VolatileMemory (get_ref, get_array_ref, aligned_as_ref/mut, get_atomic_ref) at every offset x count x 8 element types may refuse or panic but never build an accessor beyond what they were handed.");
    ctx.assume("accessor structs are Copy records of exactly (address, extent, bitmap, mmap handle): two chains reaching the same (kind, type, offset, extent) have the same futures, so merging them is sound");
    if ctx.replay_of.is_some() {
        println!("replay: the search is deterministic; re-running it and reporting whether the recorded key fails again");
    }
    let sizes: Vec<usize> = if thorough { (0..=33).collect() } else { vec![0, 1, 2, 3, 4, 7, 8, 9, 15, 16, 17] };
    std::thread::scope(|s| {
        let ctx = &ctx;
        for &n in &sizes {
            for mis in 0..8usize {
                if !thorough && n >= 15 && !(mis == 0 || mis == 1 || mis == 6) {
                    continue;
                }
                s.spawn(move || {
                    let arena = Arena::new(1);
                    let root = Root { arena, start: 2048 + mis, len: n, what: "slice" };
                    explore_root(ctx, &root, thorough);
                });
            }
            s.spawn(move || {
                let arena = Arena::new(1);
                let start = arena.len() - n;
                let root = Root { arena, start, len: n, what: "slice-at-guard-page" };
                explore_root(ctx, &root, thorough);
            });
        }
        s.spawn(move || from_slice_checks(ctx));
        s.spawn(move || clipping_parent(ctx));
        #[cfg(not(feature = "xen"))]
        s.spawn(move || region_roots(ctx));
    });
    // the emulated devices are per thread: run the Xen region roots on this thread
    #[cfg(feature = "xen")]
    region_roots(&ctx);
    ctx.extra("deepest_derivation_chain", json!(*MAXD.lock().unwrap()));
    ctx.set_exhaustive(true);
    ctx.finish()
}
