//! C17 — pointer guards span their accessor; on-demand mappings cover every access.

use crate::report::{Ctx, Tier};
use serde_json::json;
use std::mem::size_of;
use vm_memory::{ByteValued, VolatileMemory, VolatileSlice};

macro_rules! sized_types {
    ($m:ident, $($args:expr),*) => {
        $m::<[u8; 1]>($($args),*); $m::<[u8; 2]>($($args),*); $m::<[u8; 3]>($($args),*); $m::<[u8; 4]>($($args),*);
        $m::<[u8; 5]>($($args),*); $m::<[u8; 6]>($($args),*); $m::<[u8; 7]>($($args),*); $m::<[u8; 8]>($($args),*);
        $m::<[u8; 9]>($($args),*); $m::<[u8; 10]>($($args),*); $m::<[u8; 11]>($($args),*); $m::<[u8; 12]>($($args),*);
        $m::<[u8; 13]>($($args),*); $m::<[u8; 14]>($($args),*); $m::<[u8; 15]>($($args),*); $m::<[u8; 16]>($($args),*);
        $m::<u16>($($args),*); $m::<u32>($($args),*); $m::<u64>($($args),*); $m::<u128>($($args),*);
        $m::<[u16; 3]>($($args),*); $m::<vm_memory::Le32>($($args),*); $m::<vm_memory::Be64>($($args),*);
    };
}

fn guards_std(ctx: &Ctx, build: &str) {
    let mut backing = vec![0u8; 16 + 9 * 16 + 32];
    let base = backing.as_mut_ptr();
    let total = backing.len();
    // SAFETY: backing outlives root
    let root = unsafe { VolatileSlice::new(base, total) };
    // slices
    for off in 0..=16usize {
        for len in 0..=16usize {
            ctx.case(len > 0);
            let s = root.subslice(off, len).unwrap();
            let (g, gm) = (s.ptr_guard(), s.ptr_guard_mut());
            if g.len() != len || gm.len() != len || g.as_ptr() as usize != base as usize + off || gm.as_ptr() as usize != base as usize + off {
                ctx.fail(&format!("C17/{}/VolatileSlice::ptr_guard/extent", build), &format!("slice [{}..+{}): guard len {} / {} ptr offset {}", off, len, g.len(), gm.len(), g.as_ptr() as usize - base as usize), json!({"accessor": "VolatileSlice", "offset": off, "len": len}));
            }
        }
    }
    fn typed<T: ByteValued>(ctx: &Ctx, build: &str, root: &VolatileSlice<()>, base: usize) {
        let sz = size_of::<T>();
        let name = std::any::type_name::<T>();
        for off in 0..=16usize {
            ctx.case(true);
            let r = root.get_ref::<T>(off).unwrap();
            let (g, gm) = (r.ptr_guard(), r.ptr_guard_mut());
            if g.len() != sz || gm.len() != sz || g.as_ptr() as usize != base + off || gm.as_ptr() as usize != base + off {
                ctx.fail(&format!("C17/{}/VolatileRef::ptr_guard/extent", build), &format!("{} at {}: guard len {} / {}, expected {}", name, off, g.len(), gm.len(), sz), json!({"accessor": "VolatileRef", "type": name, "offset": off}));
            }
            for n in 0..=9usize {
                ctx.case(n > 0);
                let a = root.get_array_ref::<T>(off, n).unwrap();
                let (g, gm) = (a.ptr_guard(), a.ptr_guard_mut());
                let want = n * sz;
                if g.as_ptr() as usize != base + off || gm.as_ptr() as usize != base + off {
                    ctx.fail(&format!("C17/{}/VolatileArrayRef::ptr_guard/pointer", build), &format!("{} x {} at {}", name, n, off), json!({"accessor": "VolatileArrayRef", "type": name, "offset": off, "count": n}));
                }
                if g.len() != want || gm.len() != want {
                    let key = format!("C17/{}/VolatileArrayRef::ptr_guard/len-is-not-the-byte-length", build);
                    let rp = if ctx.has_failed(&key) { serde_json::Value::Null } else { json!({"accessor": "VolatileArrayRef", "type": name, "offset": off, "count": n}) };
                    ctx.fail(&key, &format!("array of {} x {} ({} bytes) at {}: guard reports len {} / {}", n, name, want, off, g.len(), gm.len()), rp);
                }
                let s = a.to_slice();
                if s.ptr_guard().len() != want {
                    ctx.fail(&format!("C17/{}/VolatileArrayRef::to_slice.ptr_guard/extent", build), &format!("{} x {}", name, n), json!({"type": name, "count": n}));
                }
                if n > 0 {
                    let r = a.ref_at(n - 1);
                    if r.ptr_guard().len() != sz || r.ptr_guard().as_ptr() as usize != base + off + (n - 1) * sz {
                        ctx.fail(&format!("C17/{}/ref_at.ptr_guard/extent", build), &format!("{} x {}", name, n), json!({"type": name, "count": n}));
                    }
                }
            }
        }
    }
    sized_types!(typed, ctx, build, &root, base as usize);
}

#[cfg(feature = "xen")]
mod xen {
    use super::super::c04::{self, Dst, Op, Out, Ty};
    use crate::crash::{in_child, Child};
    use crate::report::{hex, Ctx};
    use crate::xen_emu::{DevEvent, Emu, PAGE};
    use serde_json::json;
    use vm_memory::{GuestMemoryRegion, GuestRegionMmap, VolatileSlice};

    /// bytes of the region the operation touches according to the reference model
    fn touched(op: &Op, l: usize) -> Option<(usize, usize)> {
        let clip = |off: usize, n: usize| -> Option<(usize, usize)> {
            if off >= l || n == 0 {
                None
            } else {
                Some((off, n.min(l - off)))
            }
        };
        let fits = |off: usize, n: usize| off.checked_add(n).map_or(false, |e| e <= l);
        match *op {
            Op::Write { off, len, .. } | Op::Read { off, len, .. } | Op::WriteSlice { off, len, .. } | Op::ReadSlice { off, len, .. } => clip(off, len),
            Op::WriteObj { ty, off } | Op::ReadObj { ty, off } => clip(off, ty.size()),
            Op::RefStore { ty, off } | Op::RefLoad { ty, off } => fits(off, ty.size()).then(|| (off, ty.size())),
            Op::ArrLoad { ty, off, n, i } | Op::ArrStore { ty, off, n, i } => fits(off, n * ty.size()).then(|| (off + i * ty.size(), ty.size())),
            Op::ArrCopyTo { ty, off, n, m } | Op::ArrCopyFrom { ty, off, n, m } => (fits(off, n * ty.size()) && n.min(m) > 0).then(|| (off, n.min(m) * ty.size())),
            Op::SliceCopyTo { ty, off, len, m } | Op::SliceCopyFrom { ty, off, len, m } => (fits(off, len) && (len / ty.size()).min(m) > 0).then(|| (off, (len / ty.size()).min(m) * ty.size())),
            Op::ArrCopyToVs { ty, off, n, .. } => (fits(off, n * ty.size()) && n > 0).then(|| (off, n * ty.size())),
            Op::SliceCopyToVs { off, len, .. } => (fits(off, len) && len > 0).then(|| (off, len)),
            Op::AtomStore { w, off } | Op::AtomLoad { w, off } => (fits(off, w) && off % w == 0).then(|| (off, w)),
            Op::ReadFrom { off, count } | Op::WriteTo { off, count } => clip(off, count),
            Op::ReadExactFrom { off, count } | Op::WriteAllTo { off, count } => (fits(off, count) && count > 0).then(|| (off, count)),
        }
    }

    fn ops(l: usize, thorough: bool) -> Vec<Op> {
        let mut v = Vec::new();
        let mut offs: Vec<usize> = vec![0, 1, 8191.min(l - 1), l - 1];
        offs.extend(4090..=4100);
        if l > 8192 {
            offs.extend([8190, 8192, 8193]);
        }
        offs.sort();
        offs.dedup();
        let lens: Vec<usize> = if thorough { vec![1, 2, 5, 6, 8, 10, 12, 16, 4095, 4096, 4097, 8192] } else { vec![1, 2, 6, 12, 4096, 4097] };
        for &off in &offs {
            for &len in &lens {
                v.push(Op::Write { off, len, mis: 1 });
                v.push(Op::Read { off, len, mis: 0 });
                v.push(Op::WriteSlice { off, len, mis: 0 });
                v.push(Op::ReadFrom { off, count: len });
                v.push(Op::ReadExactFrom { off, count: len });
                v.push(Op::WriteTo { off, count: len });
                v.push(Op::WriteAllTo { off, count: len });
                if len <= 16 {
                    v.push(Op::SliceCopyFrom { ty: Ty::U16, off, len, m: 8 });
                    v.push(Op::SliceCopyTo { ty: Ty::U8, off, len, m: 16 });
                    v.push(Op::SliceCopyToVs { off, len, dst: Dst::Foreign(len) });
                    v.push(Op::SliceCopyToVs { off, len, dst: Dst::Same(0, len) });
                    if off + len / 2 + len <= l {
                        // destination overlaps the source from behind (memmove must copy backwards)
                        v.push(Op::SliceCopyToVs { off, len, dst: Dst::Same(off + len / 2, len) });
                    }
                }
            }
            for ty in c04::TYS {
                v.push(Op::WriteObj { ty, off });
                v.push(Op::ReadObj { ty, off });
                v.push(Op::RefStore { ty, off });
                v.push(Op::RefLoad { ty, off });
                for n in [1usize, 3] {
                    v.push(Op::ArrStore { ty, off, n, i: n - 1 });
                    v.push(Op::ArrLoad { ty, off, n, i: 0 });
                    v.push(Op::ArrCopyFrom { ty, off, n, m: n });
                    v.push(Op::ArrCopyTo { ty, off, n, m: n + 1 });
                    v.push(Op::ArrCopyToVs { ty, off, n, dst: Dst::Foreign(n * ty.size()) });
                }
            }
            for w in [1, 2, 4, 8] {
                v.push(Op::AtomStore { w, off });
                v.push(Op::AtomLoad { w, off });
            }
        }
        // arrays whose byte length exceeds their element count and crosses a page
        for (ty, off, n) in [(Ty::U32, 0xc00usize, 0x200usize), (Ty::U64, 0xf00, 0x30), (Ty::U16, 0xff0, 0x20), (Ty::U128, 0xfe0, 4), (Ty::A3, 0xffa, 5)] {
            v.push(Op::ArrCopyTo { ty, off, n, m: n });
            v.push(Op::ArrCopyFrom { ty, off, n, m: n });
            v.push(Op::ArrStore { ty, off, n, i: n - 1 });
            v.push(Op::ArrLoad { ty, off, n, i: n - 1 });
        }
        // the same with host buffers shorter (and longer) than the array: the part that is copied
        // crosses a page although as many BYTES as the buffer has elements would not
        for (ty, off, n, m) in [(Ty::U64, 4096usize - 24, 32usize, 8usize), (Ty::U32, 0xffc, 0x100, 3), (Ty::U16, 0xfff, 0x40, 2), (Ty::U128, 0xff8, 6, 1), (Ty::A3, 0xffe, 9, 2), (Ty::U64, 0xf00, 0x30, 0x31), (Ty::U32, 0xc00, 0x200, 0x100)] {
            v.push(Op::ArrCopyFrom { ty, off, n, m });
            v.push(Op::ArrCopyTo { ty, off, n, m });
        }
        // short overlapping slice-to-slice copies around every page boundary, the destination
        // below and above the source, one or both ranges crossing the boundary
        for b in [4096usize, 8192] {
            if b + 64 > l {
                continue;
            }
            for (so, d_o) in [(24isize, 48isize), (48, 24), (8, 40), (40, 8), (16, 20), (20, 16), (30, 33), (33, 30)] {
                v.push(Op::SliceCopyToVs { off: (b as isize - so) as usize, len: 32, dst: Dst::Same((b as isize - d_o) as usize, 32) });
            }
        }
        // long overlapping slice-to-slice copies, destination behind and ahead of the source
        v.push(Op::SliceCopyToVs { off: 100, len: 4000, dst: Dst::Same(164, 4000) });
        v.push(Op::SliceCopyToVs { off: 164, len: 4000, dst: Dst::Same(100, 4000) });
        v.push(Op::SliceCopyToVs { off: 4000, len: 300, dst: Dst::Same(4100, 300) });
        let mut seen = std::collections::HashSet::new();
        v.retain(|o| seen.insert(*o));
        v
    }

    struct Region<'a> {
        emu: &'a Emu,
        reg: GuestRegionMmap<()>,
        first_page: u64,
        len: usize,
        kind: &'static str,
    }

    impl Region<'_> {
        fn state(&self) -> Vec<u8> {
            self.emu.read_backing(self.first_page * PAGE, self.len)
        }
        fn set_state(&self, s: &[u8]) {
            self.emu.write_backing(self.first_page * PAGE, s);
        }
    }

    /// A slice derived from the region's own slice: the accesses go through the derived accessor,
    /// which must still know that its memory is mapped on demand.
    #[derive(Clone, Copy, Debug)]
    enum Deriv {
        SplitFirst(usize),
        SplitSecond(usize),
        Subslice(usize, usize),
        Offset(usize),
        SplitFirstThenSecond(usize, usize),
        SplitSecondThenFirst(usize, usize),
        ArrayToSlice(usize, usize),
        GetSlice(usize, usize),
        RefToSlice(usize),
    }

    impl Deriv {
        /// (start within the region, length) of the derived slice
        fn extent(self, l: usize) -> (usize, usize) {
            match self {
                Deriv::SplitFirst(m) => (0, m),
                Deriv::SplitSecond(m) => (m, l - m),
                Deriv::Subslice(a, n) | Deriv::ArrayToSlice(a, n) | Deriv::GetSlice(a, n) => (a, n),
                Deriv::Offset(a) => (a, l - a),
                Deriv::SplitFirstThenSecond(m, k) => (k, m - k),
                Deriv::SplitSecondThenFirst(k, m) => (k, m),
                Deriv::RefToSlice(a) => (a, 16),
            }
        }
        fn apply<'a>(self, vs: &'a VolatileSlice<'a, ()>) -> VolatileSlice<'a, ()> {
            use vm_memory::VolatileMemory;
            match self {
                Deriv::SplitFirst(m) => vs.split_at(m).unwrap().0,
                Deriv::SplitSecond(m) => vs.split_at(m).unwrap().1,
                Deriv::Subslice(a, n) => vs.subslice(a, n).unwrap(),
                Deriv::Offset(a) => vs.offset(a).unwrap(),
                Deriv::SplitFirstThenSecond(m, k) => vs.split_at(m).unwrap().0.split_at(k).unwrap().1,
                Deriv::SplitSecondThenFirst(k, m) => vs.split_at(k).unwrap().1.split_at(m).unwrap().0,
                Deriv::ArrayToSlice(a, n) => vs.get_array_ref::<u8>(a, n).unwrap().to_slice(),
                Deriv::GetSlice(a, n) => vs.get_slice(a, n).unwrap(),
                Deriv::RefToSlice(a) => vs.get_ref::<[u8; 16]>(a).unwrap().to_slice(),
            }
        }
    }

    /// One operation on one region; returns the successor state.
    fn step(ctx: &Ctx, r: &Region, state: &[u8], op: &Op, tag: u8, hist: &[Op]) -> Option<Vec<u8>> {
        step_on(ctx, r, state, op, tag, hist, None)
    }

    /// One operation through the region's slice or through a slice derived from it.
    fn step_on(ctx: &Ctx, r: &Region, state: &[u8], op: &Op, tag: u8, hist: &[Op], deriv: Option<Deriv>) -> Option<Vec<u8>> {
        let on_demand = r.kind == "grant-on-demand";
        let key_base = match deriv {
            None => format!("C17/xen/{}/{}", r.kind, op.name()),
            Some(_) => format!("C17/xen/{}/{} (through a derived slice)", r.kind, op.name()),
        };
        let rp = || json!({"region": r.kind, "region_len": r.len, "history": hist.iter().map(|o| o.to_json()).collect::<Vec<_>>(), "op": op.to_json(), "tag": tag, "derived_slice": deriv.map(|d| format!("{:?}", d))});
        r.set_state(state);
        r.emu.take_log();
        let root = match r.reg.as_volatile_slice() {
            Ok(v) => v,
            Err(e) => {
                ctx.fail(&format!("{}/as_volatile_slice", key_base), &format!("{:?}", e), rp());
                return None;
            }
        };
        let (da, dlen) = deriv.map_or((0, r.len), |d| d.extent(r.len));
        let vs = match deriv {
            None => root,
            Some(d) => d.apply(&root),
        };
        // (deriving maps nothing)
        if deriv.is_some() && !r.emu.take_log().is_empty() && r.kind != "grant-on-demand" {
            ctx.fail(&format!("{}/unexpected-device-request", key_base), "deriving a slice made a device request", rp());
        }
        let full_state = state;
        let state = &full_state[da..da + dlen];
        ctx.case(true);
        // probe in a child: an access outside any window faults
        let probe = in_child(|| {
            let _ = c04::run_op(&vs, op, tag);
            0
        });
        match probe {
            Child::Exited(0) => {}
            Child::Exited(101) => {
                let key = format!("{}/panic", key_base);
                let rpv = if ctx.has_failed(&key) { serde_json::Value::Null } else { rp() };
                ctx.fail(&key, &format!("{:?} panicked", op), rpv);
                return None;
            }
            other => {
                let key = format!("{}/access-outside-any-mapping", key_base);
                let rpv = if ctx.has_failed(&key) { serde_json::Value::Null } else { rp() };
                ctx.fail(&key, &format!("{:?} on a {} region died with {:?}: the library dereferenced guest memory without (or beyond) a temporary mapping", op, r.kind, other), rpv);
                return None;
            }
        }
        // the child worked on a copy-on-write image of the emulator state but on the same file:
        // restore the contents and run for real
        r.set_state(full_state);
        r.emu.take_log();
        let ptr = da; // host pointer alignment class: the region is page aligned
        let exp = c04::model_op(state, ptr, op, tag);
        let res = c04::run_op(&vs, op, tag);
        let after_full = r.state();
        let log = r.emu.take_log();
        let mut outside_changed = false;
        if after_full[..da] != full_state[..da] || after_full[da + dlen..] != full_state[da + dlen..] {
            outside_changed = true;
        }
        let after = after_full[da..da + dlen].to_vec();
        let mut bad: Option<(&str, String)> = None;
        if !exp.out.contains(&res.out) {
            bad = Some(("result", format!("returned {:?}, expected {:?}", res.out, exp.out)));
        } else if !exp.mem.iter().any(|m| *m == after) {
            let i = (0..after.len()).find(|i| after[*i] != exp.mem[0][*i]).unwrap_or(0);
            let overlapping = match *op {
                Op::SliceCopyToVs { off, len, dst: Dst::Same(o, dl) } => off < o + dl.min(len) && o < off + len,
                _ => false,
            };
            let kind = if overlapping { "memory-after-overlapping-copy" } else { "memory" };
            bad = Some((kind, format!("guest memory differs from the model at offset {:#x}: {:#x} vs {:#x}", i, after[i], exp.mem[0][i])));
        } else if let Some(b) = &exp.buf {
            if !matches!(res.out, Out::Err | Out::Refused | Out::Partial(..)) && *b != res.buf {
                bad = Some(("buffer", format!("buffer {} vs {}", hex(&res.buf[..res.buf.len().min(32)]), hex(&b[..b.len().min(32)]))));
            }
        }
        if outside_changed {
            bad = Some(("memory-outside-the-derived-slice", "bytes of the region outside the derived slice changed".into()));
        }
        if on_demand {
            if let Some((off, n)) = touched(op, dlen) {
                let lo = r.first_page * PAGE + (da + off) as u64;
                let hi = lo + n as u64;
                let mut page = lo / PAGE * PAGE;
                while page < hi {
                    let covered = log.iter().any(|e| matches!(e, DevEvent::MapGrant { first_ref, count, ok: true, .. } if *first_ref as u64 * PAGE <= page && page < (*first_ref as u64 + *count as u64) * PAGE));
                    if !covered {
                        bad = Some(("window-does-not-cover-the-access", format!("bytes [{:#x},+{}) touched, page {:#x} was never mapped; device log {:?}", off, n, page, log)));
                        break;
                    }
                    page += PAGE;
                }
            }
            if !r.emu.live().is_empty() {
                bad = Some(("window-left-mapped", format!("{:?}", r.emu.live())));
                r.emu.state.borrow_mut().live.clear();
            }
        } else if !log.is_empty() {
            bad = Some(("unexpected-device-request", format!("{:?}", log)));
        }
        let pe = std::mem::take(&mut r.emu.state.borrow_mut().protocol_errors);
        if !pe.is_empty() {
            bad = Some(("device-protocol", format!("{:?}", pe)));
        }
        if let Some((k, d)) = bad {
            let key = format!("{}/{}", key_base, k);
            let rpv = if ctx.has_failed(&key) { serde_json::Value::Null } else { rp() };
            ctx.fail(&key, &format!("{:?}{}: {}", op, deriv.map_or(String::new(), |x| format!(" through {:?}", x)), d), rpv);
            return None;
        }
        Some(after_full)
    }

    /// Every derivation the slice API offers, then the access operations through the derived
    /// slice (offsets relative to it), on the region kinds that map on demand and in advance.
    fn derived(ctx: &Ctx, r: &Region, init: &[u8]) -> u64 {
        let l = r.len;
        let derivs = [
            Deriv::SplitFirst(4100), Deriv::SplitFirst(100), Deriv::SplitSecond(4090), Deriv::SplitSecond(4096), Deriv::Subslice(5, 5000), Deriv::Offset(4096), Deriv::Offset(7),
            Deriv::SplitFirstThenSecond(4100, 10), Deriv::SplitSecondThenFirst(10, 4100), Deriv::ArrayToSlice(3, 6000), Deriv::GetSlice(4000, 200), Deriv::RefToSlice(4088),
        ];
        let mut t = 0u64;
        for (di, d) in derivs.iter().enumerate() {
            let (_, dl) = d.extent(l);
            let mut ops = vec![
                Op::Write { off: 0, len: 8.min(dl), mis: 0 },
                Op::Read { off: 0, len: dl.min(5000), mis: 1 },
                Op::Write { off: dl - dl.min(13), len: 13, mis: 2 },
                Op::WriteObj { ty: Ty::U64, off: dl - 8 },
                Op::ReadObj { ty: Ty::U32, off: dl / 2 },
                Op::RefStore { ty: Ty::U32, off: 1 },
                Op::RefLoad { ty: Ty::U16, off: dl - 2 },
                Op::ArrCopyFrom { ty: Ty::U16, off: 2, n: 4, m: 4 },
                Op::ArrLoad { ty: Ty::U32, off: 0, n: 3, i: 2 },
                Op::ReadFrom { off: 0, count: dl },
                Op::WriteTo { off: dl / 2, count: 16 },
                Op::WriteAllTo { off: 0, count: dl.min(4097) },
                Op::SliceCopyFrom { ty: Ty::U8, off: 3, len: 9.min(dl - 3), m: 9 },
            ];
            if dl >= 32 {
                ops.push(Op::SliceCopyToVs { off: 0, len: 16, dst: Dst::Same(16, 16) });
                ops.push(Op::SliceCopyToVs { off: dl - 16, len: 16, dst: Dst::Foreign(16) });
            }
            for (k, op) in ops.iter().enumerate() {
                t += 1;
                step_on(ctx, r, init, op, (di * 16 + k) as u8 % 100 + 1, &[], Some(*d));
            }
        }
        t
    }

    /// Copies whose SOURCE is ordinary memory and whose DESTINATION is a slice of the region (the
    /// slice-to-slice and array-to-slice forms): the destination decides whether a window is
    /// needed, whatever the source is.
    fn into_region(ctx: &Ctx, r: &Region, init: &[u8]) -> u64 {
        use vm_memory::VolatileMemory;
        let on_demand = r.kind == "grant-on-demand";
        let mut t = 0u64;
        let mut plain = vec![0u64; 1024];
        let pbase = plain.as_mut_ptr() as *mut u8;
        for (off, len) in [(0usize, 8usize), (4090, 12), (4094, 4), (1, 5000), (r.len - 16, 16), (4096, 4096), (100, 2)] {
            for form in 0..3usize {
                let name = ["VolatileSlice::copy_to_volatile_slice (ordinary memory -> region)", "VolatileArrayRef<u8>::copy_to_volatile_slice (ordinary memory -> region)", "VolatileArrayRef<u16>::copy_to_volatile_slice (ordinary memory -> region)"][form];
                if form == 2 && len % 2 != 0 {
                    continue;
                }
                t += 1;
                ctx.case(true);
                let key_base = format!("C17/xen/{}/{}", r.kind, name);
                let rp = || json!({"region": r.kind, "region_len": r.len, "op": name, "offset": off, "len": len});
                for i in 0..len {
                    unsafe { *pbase.add(i) = 0xC0 | (i as u8 & 0x3f) };
                }
                // SAFETY: plain outlives the slices
                let src = unsafe { VolatileSlice::new(pbase, len) };
                let run = |reg: &GuestRegionMmap<()>| {
                    let vs = reg.as_volatile_slice().unwrap();
                    let dst = vs.subslice(off, len).unwrap();
                    match form {
                        0 => src.copy_to_volatile_slice(dst),
                        1 => src.get_array_ref::<u8>(0, len).unwrap().copy_to_volatile_slice(dst),
                        _ => src.get_array_ref::<u16>(0, len / 2).unwrap().copy_to_volatile_slice(dst),
                    }
                };
                r.set_state(init);
                r.emu.take_log();
                match in_child(|| {
                    run(&r.reg);
                    0
                }) {
                    Child::Exited(0) => {}
                    other => {
                        let key = format!("{}/access-outside-any-mapping", key_base);
                        let rpv = if ctx.has_failed(&key) { serde_json::Value::Null } else { rp() };
                        ctx.fail(&key, &format!("{} bytes into region offset {:#x}: died with {:?} - the library wrote guest memory without (or beyond) a temporary mapping", len, off, other), rpv);
                        continue;
                    }
                }
                r.set_state(init);
                r.emu.take_log();
                run(&r.reg);
                let after = r.state();
                let log = r.emu.take_log();
                let mut want = init.to_vec();
                for i in 0..len {
                    want[off + i] = 0xC0 | (i as u8 & 0x3f);
                }
                let mut bad: Option<(&str, String)> = None;
                if after != want {
                    let i = (0..after.len()).find(|i| after[*i] != want[*i]).unwrap_or(0);
                    bad = Some(("memory", format!("guest memory differs from the model at offset {:#x}: {:#x} vs {:#x}", i, after[i], want[i])));
                }
                if on_demand {
                    let lo = r.first_page * PAGE + off as u64;
                    let hi = lo + len as u64;
                    let mut page = lo / PAGE * PAGE;
                    while page < hi {
                        let covered = log.iter().any(|e| matches!(e, DevEvent::MapGrant { first_ref, count, ok: true, .. } if *first_ref as u64 * PAGE <= page && page < (*first_ref as u64 + *count as u64) * PAGE));
                        if !covered {
                            bad = Some(("window-does-not-cover-the-access", format!("bytes [{:#x},+{}) written, page {:#x} was never mapped; device log {:?}", off, len, page, log)));
                            break;
                        }
                        page += PAGE;
                    }
                    if !r.emu.live().is_empty() {
                        bad = Some(("window-left-mapped", format!("{:?}", r.emu.live())));
                        r.emu.state.borrow_mut().live.clear();
                        r.emu.state.borrow_mut().refs.clear();
                    }
                } else if !log.is_empty() {
                    bad = Some(("unexpected-device-request", format!("{:?}", log)));
                }
                let pe = std::mem::take(&mut r.emu.state.borrow_mut().protocol_errors);
                if !pe.is_empty() {
                    bad = Some(("device-protocol", format!("{:?}", pe)));
                }
                if let Some((k, d)) = bad {
                    let key = format!("{}/{}", key_base, k);
                    let rpv = if ctx.has_failed(&key) { serde_json::Value::Null } else { rp() };
                    ctx.fail(&key, &format!("{} bytes into region offset {:#x}: {}", len, off, d), rpv);
                }
            }
        }
        drop(plain);
        t
    }

    /// Environment faults with deviation bound 1: the operation is run once to count the mmap calls
    /// and map-grant requests it makes, then once per call with exactly that call failing. A
    /// failed access may report an error (or panic), but nothing may stay mapped, neither in the
    /// process nor in the device, and the device protocol must be respected.
    fn faults(ctx: &Ctx, r: &Region, state: &[u8], op: &Op, tag: u8) -> u64 {
        use crate::interpose::{fail_fd_mmap_in, start_recording, stop_recording, MapEvent};
        let key_base = format!("C17/xen/{}/{}", r.kind, op.name());
        let vs = match r.reg.as_volatile_slice() {
            Ok(v) => v,
            Err(_) => return 0,
        };
        r.set_state(state);
        r.emu.take_log();
        start_recording();
        let describe0 = || (format!("{}/crash", key_base), format!("{:?} crashed", op), json!({"region": r.kind, "region_len": r.len, "op": op.to_json(), "tag": tag}));
        let _ = crate::crash::guarded(ctx, &describe0, || crate::crash::quiet_unwind(|| c04::run_op(&vs, op, tag)));
        let maplog = stop_recording();
        let n_mmap = maplog.iter().filter(|e| matches!(e, MapEvent::Map { fd, .. } if *fd >= 0)).count();
        let n_grant = r.emu.take_log().iter().filter(|e| matches!(e, DevEvent::MapGrant { .. })).count();
        r.emu.state.borrow_mut().live.clear();
        r.emu.state.borrow_mut().refs.clear();
        r.emu.state.borrow_mut().protocol_errors.clear();
        let mut runs = 0;
        for (what, n) in [("mmap", n_mmap), ("map-grant", n_grant)] {
            for k in 0..n {
                runs += 1;
                ctx.case(true);
                r.set_state(state);
                r.emu.take_log();
                start_recording();
                if what == "mmap" {
                    fail_fd_mmap_in(k as i64);
                } else {
                    r.emu.state.borrow_mut().fail_map_in = Some(k as u32);
                }
                let describe1 = || (format!("{}/crash-after-failed-mapping", key_base), format!("{:?} crashed when the {} call number {} failed", op, what, k), json!({"region": r.kind, "region_len": r.len, "op": op.to_json(), "tag": tag, "fail": what, "nth": k}));
                let res = match crate::crash::guarded(ctx, &describe1, || crate::crash::quiet_unwind(|| c04::run_op(&vs, op, tag))) {
                    Some(r) => r,
                    None => Err(Box::new("panic") as Box<dyn std::any::Any + Send>),
                };
                fail_fd_mmap_in(-1);
                r.emu.state.borrow_mut().fail_map_in = None;
                let maplog = stop_recording();
                let devlog = r.emu.take_log();
                let rp = || json!({"region": r.kind, "region_len": r.len, "op": op.to_json(), "tag": tag, "fail": what, "nth": k});
                let mut bad: Option<(&str, String)> = None;
                // every successful mmap of the run has its munmap
                let mut open: Vec<(usize, usize)> = Vec::new();
                for e in &maplog {
                    match e {
                        MapEvent::Map { addr, len, ok: true, fd, .. } if *fd >= 0 => open.push((*addr, *len)),
                        MapEvent::Unmap { addr, len, ret: 0 } => {
                            if let Some(p) = open.iter().position(|w| w.0 == *addr && (w.1 + 4095) / 4096 == (*len + 4095) / 4096) {
                                open.remove(p);
                            }
                        }
                        _ => {}
                    }
                }
                if !open.is_empty() {
                    bad = Some(("mapping-left-after-failed-access", format!("{:x?}", open)));
                }
                if !r.emu.live().is_empty() {
                    bad = Some(("window-left-after-failed-access", format!("the {} call number {} failed; the device still holds {:x?}; device log {:x?}", what, k, r.emu.live(), devlog)));
                    r.emu.state.borrow_mut().live.clear();
                    r.emu.state.borrow_mut().refs.clear();
                }
                let pe = std::mem::take(&mut r.emu.state.borrow_mut().protocol_errors);
                if !pe.is_empty() && bad.is_none() {
                    bad = Some(("device-protocol-after-failed-access", format!("{:?}", pe)));
                }
                if let Ok(res) = &res {
                    // a fault may not be reported as a complete success with wrong data
                    let after = r.state();
                    let exp = c04::model_op(state, 0, op, tag);
                    if exp.out.contains(&res.out) && !matches!(res.out, Out::Err | Out::Refused | Out::Partial(..)) && !exp.mem.iter().any(|m| *m == after) && bad.is_none() {
                        bad = Some(("success-reported-after-failed-mapping", format!("returned {:?} but guest memory is not what the operation should leave", res.out)));
                    }
                }
                if let Some((k2, d)) = bad {
                    let key = format!("{}/{}", key_base, k2);
                    let rpv = if ctx.has_failed(&key) { serde_json::Value::Null } else { rp() };
                    ctx.fail(&key, &format!("{:?}: {}", op, d), rpv);
                }
            }
        }
        runs
    }

    /// Transfers between the region and a real descriptor (the read(2)/write(2) path): the system
    /// call itself is the access, so at the moment it is issued its buffer must lie inside a
    /// mapping that is live then, and the data that arrives must be the guest's.
    fn fd_transfers(ctx: &Ctx, r: &Region, state: &[u8], thorough: bool) -> u64 {
        fd_transfers_sized(ctx, r, state, thorough, false)
    }

    /// `big`: a region of more than a MiB, transfers around and beyond 2^20 bytes in one call.
    fn fd_transfers_sized(ctx: &Ctx, r: &Region, state: &[u8], thorough: bool, big: bool) -> u64 {
        use crate::interpose::{net_mapped, peek_log, start_recording, stop_recording, with_io_handler, IoAnswer, IoReq};
        use std::io::{Read, Seek, SeekFrom, Write};
        use std::os::fd::AsRawFd;
        use vm_memory::Bytes;
        let on_demand = r.kind == "grant-on-demand";
        let vs = match r.reg.as_volatile_slice() {
            Ok(v) => v,
            Err(_) => return 0,
        };
        let l = r.len;
        let mut offs: Vec<usize> = vec![0, 1, 4090, 4095, 4096, 4097, l - 8, l - 1, l, l + 1];
        let mut counts: Vec<usize> = vec![0, 1, 2, 6, 12, 4096, 4097];
        if thorough {
            offs.extend([7, 4094, 4100, 8191.min(l - 1), l - 4097]);
            counts.extend([3, 8, 16, 4095, 8192, l]);
        }
        if big {
            offs = vec![0, 4096 + 3, l - (1 << 20) - 5];
            counts = vec![1 << 20, (1 << 20) + 1, (1 << 20) + 4096, l];
        }
        offs.sort();
        offs.dedup();
        let names = ["write_volatile_to(fd)", "write_all_volatile_to(fd)", "read_volatile_from(fd)", "read_exact_volatile_from(fd)"];
        let mut runs = 0;
        for (k, name) in names.iter().enumerate() {
            for &off in &offs {
                for &count in &counts {
                    runs += 1;
                    ctx.case(count > 0);
                    r.set_state(state);
                    r.emu.take_log();
                    let key_base = format!("C17/xen/{}/{}", r.kind, name);
                    let rp = || json!({"region": r.kind, "region_len": l, "op": name, "offset": off, "count": count});
                    let mut f = crate::layouts::tempfile().unwrap();
                    let data: Vec<u8> = (0..count + 16).map(|i| 0x90u8.wrapping_add((i * 7 + off) as u8) | 0x80).collect();
                    if k >= 2 {
                        f.write_all(&data).unwrap();
                        f.seek(SeekFrom::Start(0)).unwrap();
                    }
                    let fd = f.as_raw_fd();
                    let outside = std::rc::Rc::new(std::cell::RefCell::new(Vec::<String>::new()));
                    let o2 = outside.clone();
                    start_recording();
                    let describe = || (format!("{}/crash", key_base), format!("{} at {:#x} count {} crashed", name, off, count), rp());
                    let res = crate::crash::guarded(ctx, &describe, || {
                        crate::crash::quiet_unwind(|| {
                            with_io_handler(
                                Box::new(move |q: &IoReq| {
                                    if q.fd == fd && q.count > 0 && on_demand {
                                        let space = net_mapped(&peek_log());
                                        let a = q.buf as usize;
                                        if !space.iter().any(|(s, e)| *s <= a && a + q.count <= *e) {
                                            o2.borrow_mut().push(format!("{}(2) of {} bytes at {:#x}; mappings live at that moment: {:x?}", if q.is_read { "read" } else { "write" }, q.count, a, space));
                                            // (not forwarded: the kernel would store into, or
                                            // take from, whatever lies behind the window)
                                            return IoAnswer::Err(libc::EFAULT);
                                        }
                                    }
                                    IoAnswer::Pass
                                }),
                                || match k {
                                    0 => vs.write_volatile_to(off, &mut f, count).map(Some),
                                    1 => vs.write_all_volatile_to(off, &mut f, count).map(|_| None),
                                    2 => vs.read_volatile_from(off, &mut f, count).map(Some),
                                    _ => vs.read_exact_volatile_from(off, &mut f, count).map(|_| None),
                                },
                            )
                        })
                    });
                    stop_recording();
                    let res = match res {
                        Some(Ok(r)) => r,
                        Some(Err(_)) => {
                            ctx.fail(&format!("{}/panic", key_base), &format!("{} at {:#x} count {} panicked", name, off, count), rp());
                            continue;
                        }
                        None => continue,
                    };
                    let after = r.state();
                    let mut bad: Option<(&str, String)> = None;
                    let fits = off.checked_add(count).map_or(false, |e| e <= l);
                    // expected transfer length
                    let want: Option<usize> = match k {
                        0 | 2 => (off < l || (off == l && res.is_ok())).then(|| count.min(l - off.min(l))),
                        _ => fits.then_some(count),
                    };
                    match (&res, want) {
                        (Ok(got), Some(n)) => {
                            if let Some(g) = got {
                                if *g != n {
                                    bad = Some(("result", format!("returned Ok({}), expected Ok({})", g, n)));
                                }
                            }
                            if bad.is_none() {
                                if k < 2 {
                                    let mut sink = Vec::new();
                                    f.seek(SeekFrom::Start(0)).unwrap();
                                    f.read_to_end(&mut sink).unwrap();
                                    if sink != state[off.min(l)..off.min(l) + n] {
                                        bad = Some(("sink", format!("the descriptor received {} bytes {}.., the guest holds {}..", sink.len(), hex(&sink[..sink.len().min(16)]), hex(&state[off.min(l)..off.min(l) + n.min(16)]))));
                                    } else if after != state {
                                        bad = Some(("memory", "guest memory changed by a write to a descriptor".into()));
                                    }
                                } else {
                                    let mut m = state.to_vec();
                                    m[off.min(l)..off.min(l) + n].copy_from_slice(&data[..n]);
                                    if after != m {
                                        let i = (0..l).find(|i| after[*i] != m[*i]).unwrap_or(0);
                                        bad = Some(("memory", format!("guest memory differs from the model at offset {:#x}: {:#x} vs {:#x}", i, after[i], m[i])));
                                    } else if f.stream_position().unwrap() != n as u64 {
                                        bad = Some(("source-position", format!("{} bytes consumed from the descriptor, {} transferred", f.stream_position().unwrap(), n)));
                                    }
                                }
                            }
                        }
                        (Ok(got), None) => bad = Some(("result", format!("returned Ok({:?}) for a range that does not fit", got))),
                        (Err(e), Some(n)) => bad = Some(("result", format!("returned {:?}, expected a transfer of {} bytes", e, n))),
                        (Err(_), None) => {
                            if after[..off.min(l)] != state[..off.min(l)] {
                                bad = Some(("memory", "a refused transfer changed bytes before its range".into()));
                            }
                        }
                    }
                    if let Some(o) = outside.borrow().first() {
                        bad = Some(("system-call-outside-any-live-window", o.clone()));
                    }
                    if on_demand && !r.emu.live().is_empty() {
                        bad = Some(("window-left-mapped", format!("{:?}", r.emu.live())));
                        r.emu.state.borrow_mut().live.clear();
                        r.emu.state.borrow_mut().refs.clear();
                    }
                    let log = r.emu.take_log();
                    if !on_demand && !log.is_empty() {
                        bad = Some(("unexpected-device-request", format!("{:?}", log)));
                    }
                    let pe = std::mem::take(&mut r.emu.state.borrow_mut().protocol_errors);
                    if !pe.is_empty() {
                        bad = Some(("device-protocol", format!("{:?}", pe)));
                    }
                    if let Some((kk, d)) = bad {
                        let key = format!("{}/{}", key_base, kk);
                        let rpv = if ctx.has_failed(&key) { serde_json::Value::Null } else { rp() };
                        ctx.fail(&key, &format!("{} at {:#x} count {}: {}", name, off, count, d), rpv);
                    }
                }
            }
        }
        runs
    }

    pub fn run(ctx: &Ctx, thorough: bool) {
        let emu = Emu::new(64);
        let mut fault_runs = 0u64;
        let mut windows_total = 0u64;
        let mut fd_runs = 0u64;
        let mut derived_runs = 0u64;
        let mut huge_guards = 0u64;
        for (kind, pages) in [("grant-on-demand", 2usize), ("grant-on-demand", 3), ("grant-in-advance", 2), ("foreign", 2), ("unix", 2)] {
            let len = pages * 4096;
            // a foreign mapping always starts at offset 0 of the device file
            let first_page = if kind == "foreign" { 0u64 } else { 8u64 };
            let reg = match kind {
                "grant-on-demand" => emu.grant_region(first_page, len, true),
                "grant-in-advance" => emu.grant_region(first_page, len, false),
                "foreign" => emu.foreign_region(first_page * PAGE, len),
                _ => {
                    use vm_memory::{FileOffset, GuestAddress};
                    GuestRegionMmap::<()>::from_range(GuestAddress(first_page * PAGE), len, Some(FileOffset::new(emu.file.try_clone().unwrap(), first_page * PAGE))).map_err(|e| format!("{:?}", e))
                }
            };
            let reg = match reg {
                Ok(r) => r,
                Err(e) => {
                    ctx.machinery(&format!("cannot create {} region: {}", kind, e));
                    continue;
                }
            };
            emu.take_log();
            let r = Region { emu: &emu, reg, first_page, len, kind };
            let init: Vec<u8> = (0..len).map(|i| 0x10 + (i % 0x60) as u8).collect();
            let all = ops(len, thorough);
            let all: Vec<Op> = if kind == "grant-on-demand" { all } else { all.into_iter().step_by(if thorough { 1 } else { 5 }).collect() };
            let mut passed: Vec<bool> = Vec::with_capacity(all.len());
            for (k, op) in all.iter().enumerate() {
                passed.push(step(ctx, &r, &init, op, (k % 90) as u8 + 1, &[]).is_some());
            }
            if kind == "grant-on-demand" {
                // (only operations that passed the fault-free step: the others may dereference
                // outside any window)
                for (k, op) in all.iter().enumerate().filter(|(k, _)| passed[*k] && (thorough || pages == 2 || k % 4 == 0)) {
                    fault_runs += faults(ctx, &r, &init, op, (k % 90) as u8 + 1);
                }
            }
            fd_runs += fd_transfers(ctx, &r, &init, thorough);
            if kind == "grant-on-demand" || (kind == "grant-in-advance") {
                derived_runs += derived(ctx, &r, &init);
                derived_runs += into_region(ctx, &r, &init);
            }
            // accessors that hand out plain references: nothing can keep a window mapped for them
            if kind == "grant-on-demand" && pages == 2 {
                use std::sync::atomic::{AtomicU32, Ordering};
                use vm_memory::VolatileMemory;
                let vs = r.reg.as_volatile_slice().unwrap();
                let probes: Vec<(&str, Box<dyn Fn() -> i32 + '_>)> = vec![
                    ("get_atomic_ref", Box::new(|| vs.get_atomic_ref::<AtomicU32>(0x10).map(|a| a.load(Ordering::SeqCst) as i32 & 0).unwrap_or(3))),
                    // SAFETY: nothing else uses the region
                    ("aligned_as_ref", Box::new(|| unsafe { vs.aligned_as_ref::<u32>(0x10).map(|a| (std::ptr::read_volatile(a as *const u32) as i32) & 0).unwrap_or(3) })),
                    ("aligned_as_mut", Box::new(|| unsafe { vs.aligned_as_mut::<u32>(0x10).map(|a| { *a = 5; 0 }).unwrap_or(3) })),
                ];
                for (name, f) in probes {
                    ctx.case(true);
                    match in_child(|| f()) {
                        Child::Exited(0) => {}
                        other => {
                            let key = format!("C17/xen/grant-on-demand/{}/access-outside-any-mapping", name);
                            ctx.fail(&key, &format!("dereferencing the reference returned by {}(0x10) on an on-demand grant region died with {:?}", name, other), json!({"region": kind, "accessor": name, "offset": 16}));
                        }
                    }
                }
                r.emu.take_log();
            }
            // histories of up to 3 operations on the on-demand region, state carried over
            if kind == "grant-on-demand" && pages == 2 {
                let alpha = [
                    Op::Write { off: 4094, len: 6, mis: 0 },
                    Op::WriteObj { ty: Ty::U64, off: 4092 },
                    Op::RefStore { ty: Ty::U32, off: 4095 },
                    Op::ArrCopyFrom { ty: Ty::U16, off: 4093, n: 4, m: 4 },
                    Op::ReadFrom { off: 8190, count: 8 },
                    Op::Read { off: 4090, len: 12, mis: 0 },
                    Op::ReadObj { ty: Ty::U128, off: 4088 },
                    Op::ArrCopyTo { ty: Ty::U32, off: 4090, n: 3, m: 3 },
                    Op::WriteAllTo { off: 4095, count: 2 },
                ];
                for (i, a) in alpha.iter().enumerate() {
                    if let Some(s1) = step(ctx, &r, &init, a, i as u8 + 1, &[]) {
                        for (j, b) in alpha.iter().enumerate() {
                            if let Some(s2) = step(ctx, &r, &s1, b, (i + j) as u8 + 11, &[*a]) {
                                if thorough || (i + j) % 3 == 0 {
                                    for (k, c) in alpha.iter().enumerate() {
                                        step(ctx, &r, &s2, c, (i + j + k) as u8 + 23, &[*a, *b]);
                                    }
                                }
                            }
                        }
                    }
                }
            }
            windows_total += emu.state.borrow().max_live as u64;
            drop(r);
            if !emu.live().is_empty() {
                ctx.fail(&format!("C17/xen/{}/window-left-after-drop", kind), &format!("{:?}", emu.live()), json!({"region": kind}));
                emu.state.borrow_mut().live.clear();
            }
        }
        // one on-demand region of more than a MiB: descriptor transfers beyond 2^20 bytes
        drop(emu);
        {
            let emu = Emu::new(700);
            let len = (1usize << 20) + 9 * 4096;
            match emu.grant_region(8, len, true) {
                Ok(reg) => {
                    emu.take_log();
                    let r = Region { emu: &emu, reg, first_page: 8, len, kind: "grant-on-demand" };
                    let init: Vec<u8> = (0..len).map(|i| 0x10 + ((i * 7 + i / 4096) % 0x60) as u8).collect();
                    fd_runs += fd_transfers_sized(ctx, &r, &init, thorough, true);
                    drop(r);
                    if !emu.live().is_empty() {
                        ctx.fail("C17/xen/grant-on-demand/window-left-after-drop", &format!("{:?}", emu.live()), json!({"region": "grant-on-demand, 1 MiB + 9 pages"}));
                    }
                }
                Err(e) => ctx.machinery(&format!("cannot create the large on-demand region: {}", e)),
            }
        }
        // one on-demand region of more than 2^16 pages: while a guard is alive, the mapping behind
        // it spans every byte of the accessor, also when that takes more than 2^16 grant
        // references in one request (the backing file is sparse; nothing is touched)
        {
            use crate::interpose::{net_mapped, peek_log, start_recording, stop_recording};
            use vm_memory::VolatileMemory;
            let pages = (1usize << 16) + 3;
            let emu = Emu::new(pages + 16);
            let len = pages * 4096;
            match emu.grant_region(8, len, true) {
                Ok(reg) => {
                    emu.take_log();
                    let vs = reg.as_volatile_slice().unwrap();
                    let m256 = 1usize << 28;
                    for (off, n) in [(0x800usize, m256 + 0x1000), (0, len), (0x1000, m256), (0x1000, m256 + 1), (0xfff, m256 + 2), (0, m256 - 1), (len - m256 - 1, m256 + 1)] {
                        ctx.case(true);
                        huge_guards += 1;
                        let s = match vs.subslice(off, n) {
                            Ok(s) => s,
                            Err(e) => {
                                ctx.fail("C17/xen/grant-on-demand/huge-region/accessor-refused", &format!("subslice({:#x}, {:#x}) of a region of {:#x} bytes: {:?}", off, n, len, e), json!({"offset": off, "len": n}));
                                continue;
                            }
                        };
                        start_recording();
                        let describe = || ("C17/xen/grant-on-demand/huge-region/crash".to_string(), format!("guard of [{:#x},+{:#x})", off, n), json!({"offset": off, "len": n}));
                        let res = crate::crash::guarded(ctx, &describe, || {
                            let g = s.ptr_guard();
                            let (p, l) = (g.as_ptr() as usize, g.len());
                            let space = net_mapped(&peek_log());
                            let covered = space.iter().any(|(a, b)| *a <= p && p + l <= *b);
                            let first_last = if covered && l > 0 {
                                // SAFETY: inside a live mapping (just checked); reading the sparse file's zero pages
                                unsafe { (std::ptr::read_volatile(g.as_ptr()), std::ptr::read_volatile(g.as_ptr().add(l - 1))) }
                            } else {
                                (0, 0)
                            };
                            let _ = first_last;
                            drop(g);
                            (p, l, covered, space)
                        });
                        let log = stop_recording();
                        if let Some((p, l, covered, space)) = res {
                            if l != n || !covered {
                                ctx.fail(
                                    "C17/xen/grant-on-demand/huge-region/guard-not-covered",
                                    &format!("accessor [{:#x},+{:#x}) of an on-demand region of {} pages: the guard reports {:#x} bytes at {:#x}, the mappings live while it is held are {:x?}", off, n, pages, l, p, space),
                                    json!({"offset": off, "len": n, "region_pages": pages}),
                                );
                            }
                        }
                        if !net_mapped(&log).is_empty() || !emu.live().is_empty() {
                            ctx.fail("C17/xen/grant-on-demand/huge-region/window-left", &format!("after the guard of [{:#x},+{:#x}) was dropped: mappings {:x?}, device windows {:?}", off, n, net_mapped(&log), emu.live()), json!({"offset": off, "len": n}));
                            emu.state.borrow_mut().live.clear();
                        }
                        emu.take_log();
                    }
                    drop(reg);
                }
                Err(e) => ctx.machinery(&format!("cannot create the on-demand region of 2^16+3 pages: {}", e)),
            }
        }
        ctx.extra("guards_on_a_region_of_more_than_65536_pages", json!(huge_guards));
        ctx.extra("max_simultaneous_windows_sum", json!(windows_total));
        ctx.extra("injected_fault_runs", json!(fault_runs));
        ctx.extra("descriptor_transfers", json!(fd_runs));
        ctx.extra("operations_through_derived_slices", json!(derived_runs));
        ctx.sample(json!({"region": "grant-on-demand, 2 pages", "op": "WriteObj { ty: U64, off: 4092 }", "required": "windows requested from the emulated gntdev cover guest pages 8 and 9; data lands at file offsets 0x8ffc..0x9004; no window left"}));
    }
}

pub fn run(tier: Tier, replay: Option<String>) -> i32 {
    let ctx = crate::new_ctx("C17", tier, "model_checking", &replay);
    let build = if cfg!(feature = "xen") { "xen" } else { "std" };
    ctx.set_rule("(a) guards: every accessor kind (VolatileSlice at offsets 0..=16 x lengths 0..=16; VolatileRef and VolatileArrayRef for 23 element types covering every size 1..16, offsets 0..=16, element counts 0..=9; to_slice and ref_at derivatives): ptr_guard/ptr_guard_mut len == bytes covered and pointer == first byte. (b) Xen build, emulated gntdev/privcmd (link-time interposed ioctl + mmap): on on-demand grant regions of 2 and 3 pages every access operation of the container alphabet at offsets {0,1,4090..4100,8190..8193,last} and lengths crossing 0, 1 and 2 page boundaries, 12 element types, arrays whose byte length exceeds their element count (also copied from / to host buffers with fewer or more elements than the array), and all histories of up to 3 operations over a boundary alphabet (state = region contents, carried over): each operation is first probed in a forked child (a dereference outside any window faults), then executed; the windows requested from the device must cover every page of the bytes the reference model says are touched, the data must be right (read back from the backing file), and no window may remain. Environment faults, deviation bound 1: every operation is re-run once per mmap call and once per map-grant request it makes with exactly that call failing; afterwards no process mapping and no device window may remain, the device protocol must have been respected (the emulated gntdev hands out first-fit indexes unrelated to guest addresses and serves mmap only for an exactly matching live window), and a complete success may not be reported with wrong data. Copies from ordinary memory INTO the region through the slice-to-slice and array-to-slice forms. The same for slices derived from the region's slice through every derivation the API offers (split_at either half, subslice, offset, get_slice, array and reference to_slice, two-step chains): the operations run through the derived accessor with the same oracles. Advance-mapped grant, foreign and UNIX regions: same operations, no device request allowed. One on-demand region of 2^16+3 pages over a sparse file: for seven accessors around 256 MiB (offsets in and off the page grid, lengths 2^28-1 .. 2^28+0x1000 and the whole region) the mapping that is live while the guard is held spans every byte of the guard, and nothing is left afterwards. States/transitions: one transition per operation executed on the real region.");
    ctx.assume("gntdev/privcmd are emulated at the ioctl contract level (grant reference r = file offset r*4096)");
    if ctx.replay_of.is_some() {
        println!("replay: deterministic enumeration; re-running it");
    }
    guards_std(&ctx, build);
    #[cfg(feature = "xen")]
    xen::run(&ctx, tier.thorough());
    let n = ctx.evaluations.load(std::sync::atomic::Ordering::Relaxed);
    ctx.add_states(n);
    ctx.add_transitions(n);
    ctx.add_traces(n);
    ctx.sample(json!({"build": build, "accessor": "VolatileArrayRef<u32> of 5 elements at offset 3", "required": "ptr_guard().len() == 20, as_ptr() == base + 3"}));
    ctx.set_exhaustive(true);
    ctx.finish()
}
