//! C18 — zero-length accesses are successful no-ops at every layer.

use crate::report::{Ctx, Tier};
use serde_json::json;
use vm_memory::bitmap::BitmapSlice;
use vm_memory::{ByteValued, Bytes, GuestAddress, GuestMemory, GuestMemoryRegion, MemoryRegionAddress, VolatileMemory, VolatileSlice};

struct K<'a> {
    ctx: &'a Ctx,
    build: &'static str,
}

impl K<'_> {
    /// Runs one zero-length form; `f` returns Ok(description of the result) or Err(why it is wrong).
    fn form(&self, layer: &str, form: &str, addr_class: &str, args: String, snapshot: &dyn Fn() -> Vec<u8>, f: &mut dyn FnMut() -> Result<(), String>) {
        let before = snapshot();
        let key = format!("C18/{}/{}/{}/{}", self.build, layer, form, addr_class);
        let describe = || (key.clone(), args.clone(), json!({"build": self.build, "layer": layer, "form": form, "address_class": addr_class, "args": args}));
        self.ctx.case(true);
        let r = crate::crash::guarded(self.ctx, &describe, || f());
        match r {
            Some(Ok(())) => {}
            Some(Err(d)) => {
                let k = format!("{}/not-a-successful-no-op", key);
                self.ctx.fail(&k, &format!("{}: {}", args, d), describe().2);
            }
            None => return,
        }
        if snapshot() != before {
            self.ctx.fail(&format!("{}/memory-or-bitmap-changed", key), &args, describe().2);
        }
    }
}

fn want_ok<T: std::fmt::Debug, E: std::fmt::Debug>(r: Result<T, E>, ok: impl Fn(&T) -> bool) -> Result<(), String> {
    match r {
        Ok(v) if ok(&v) => Ok(()),
        Ok(v) => Err(format!("returned Ok({:?})", v)),
        Err(e) => Err(format!("returned Err({:?})", e)),
    }
}

macro_rules! zst_types {
    ($m:ident, [$($g:tt)*], $($args:expr),*) => {
        $m::<[u8; 0], $($g)*>($($args),*, "[u8;0]");
        $m::<[u16; 0], $($g)*>($($args),*, "[u16;0]");
        $m::<[u32; 0], $($g)*>($($args),*, "[u32;0]");
        $m::<[u64; 0], $($g)*>($($args),*, "[u64;0]");
        $m::<[u128; 0], $($g)*>($($args),*, "[u128;0]");
        $m::<[i8; 0], $($g)*>($($args),*, "[i8;0]");
        $m::<[usize; 0], $($g)*>($($args),*, "[usize;0]");
    };
}

/// Buffer / object forms of the byte-access interface: any address.
fn bytes_forms<A: Copy + std::fmt::Debug, B: Bytes<A>>(k: &K, layer: &str, b: &B, addrs: &[(A, &str)], snapshot: &dyn Fn() -> Vec<u8>)
where
    B::E: std::fmt::Debug,
{
    for (a, class) in addrs {
        let args = format!("addr {:?}", a);
        k.form(layer, "write(&[])", class, args.clone(), snapshot, &mut || want_ok(b.write(&[], *a), |n| *n == 0));
        k.form(layer, "read(&mut [])", class, args.clone(), snapshot, &mut || want_ok(b.read(&mut [], *a), |n| *n == 0));
        k.form(layer, "write_slice(&[])", class, args.clone(), snapshot, &mut || want_ok(b.write_slice(&[], *a), |_| true));
        k.form(layer, "read_slice(&mut [])", class, args.clone(), snapshot, &mut || want_ok(b.read_slice(&mut [], *a), |_| true));
        fn obj<T: ByteValued, A: Copy + std::fmt::Debug, B: Bytes<A>>(k: &K, layer: &str, b: &B, a: A, class: &str, snapshot: &dyn Fn() -> Vec<u8>, name: &str)
        where
            B::E: std::fmt::Debug,
        {
            let args = format!("addr {:?} type {}", a, name);
            k.form(layer, "write_obj(zero-sized)", class, args.clone(), snapshot, &mut || want_ok(b.write_obj(T::zeroed(), a), |_| true));
            k.form(layer, "read_obj(zero-sized)", class, args.clone(), snapshot, &mut || want_ok(b.read_obj::<T>(a).map(|_| ()), |_| true));
        }
        zst_types!(obj, [_, _], k, layer, b, *a, class, snapshot);
    }
}

/// Stream forms with count 0: every address that is valid for a non-empty access.
fn stream_forms<A: Copy + std::fmt::Debug, B: Bytes<A>>(k: &K, layer: &str, b: &B, addrs: &[(A, &str)], snapshot: &dyn Fn() -> Vec<u8>)
where
    B::E: std::fmt::Debug,
{
    let data = [1u8, 2, 3, 4];
    for (a, class) in addrs {
        let args = format!("addr {:?} count 0", a);
        k.form(layer, "read_volatile_from(count 0)", class, args.clone(), snapshot, &mut || {
            let mut src: &[u8] = &data;
            let r = want_ok(b.read_volatile_from(*a, &mut src, 0), |n| *n == 0);
            if src.len() != 4 {
                return Err("bytes were consumed from the source".into());
            }
            r
        });
        k.form(layer, "read_exact_volatile_from(count 0)", class, args.clone(), snapshot, &mut || {
            let mut src: &[u8] = &data;
            let r = want_ok(b.read_exact_volatile_from(*a, &mut src, 0), |_| true);
            if src.len() != 4 {
                return Err("bytes were consumed from the source".into());
            }
            r
        });
        k.form(layer, "write_volatile_to(count 0)", class, args.clone(), snapshot, &mut || {
            let mut sink: Vec<u8> = Vec::new();
            let r = want_ok(b.write_volatile_to(*a, &mut sink, 0), |n| *n == 0);
            if !sink.is_empty() {
                return Err("bytes were handed to the sink".into());
            }
            r
        });
        k.form(layer, "write_all_volatile_to(count 0)", class, args.clone(), snapshot, &mut || {
            let mut sink: Vec<u8> = Vec::new();
            let r = want_ok(b.write_all_volatile_to(*a, &mut sink, 0), |_| true);
            if !sink.is_empty() {
                return Err("bytes were handed to the sink".into());
            }
            r
        });
    }
}

/// A stream that implements only the required trait methods (the exact forms are the crate's
/// provided default implementations).
struct Minimal(Vec<u8>, usize);

impl vm_memory::ReadVolatile for Minimal {
    fn read_volatile<B: BitmapSlice>(&mut self, buf: &mut VolatileSlice<B>) -> Result<usize, vm_memory::VolatileMemoryError> {
        let n = buf.len().min(self.0.len() - self.1);
        if n > 0 {
            buf.write(&self.0[self.1..self.1 + n], 0)?;
        }
        self.1 += n;
        Ok(n)
    }
}

impl vm_memory::WriteVolatile for Minimal {
    fn write_volatile<B: BitmapSlice>(&mut self, buf: &VolatileSlice<B>) -> Result<usize, vm_memory::VolatileMemoryError> {
        let mut tmp = vec![0u8; buf.len()];
        if !tmp.is_empty() {
            buf.read(&mut tmp, 0)?;
        }
        self.0.extend_from_slice(&tmp);
        Ok(tmp.len())
    }
}

/// A stream whose first calls report ErrorKind::Interrupted (a signal arrived) before it behaves
/// like `Minimal`: an interrupted call is retried whatever the length of the transfer.
struct Interrupting(Minimal, usize);

impl Interrupting {
    fn hit(&mut self) -> bool {
        if self.1 > 0 {
            self.1 -= 1;
            true
        } else {
            false
        }
    }
}

impl vm_memory::ReadVolatile for Interrupting {
    fn read_volatile<B: BitmapSlice>(&mut self, buf: &mut VolatileSlice<B>) -> Result<usize, vm_memory::VolatileMemoryError> {
        if self.hit() {
            return Err(vm_memory::VolatileMemoryError::IOError(std::io::Error::from(std::io::ErrorKind::Interrupted)));
        }
        self.0.read_volatile(buf)
    }
}

impl vm_memory::WriteVolatile for Interrupting {
    fn write_volatile<B: BitmapSlice>(&mut self, buf: &VolatileSlice<B>) -> Result<usize, vm_memory::VolatileMemoryError> {
        if self.hit() {
            return Err(vm_memory::VolatileMemoryError::IOError(std::io::Error::from(std::io::ErrorKind::Interrupted)));
        }
        self.0.write_volatile(buf)
    }
}

/// Stream forms with count 0 over streams that are interrupted once or twice first.
fn stream_forms_interrupted<A: Copy + std::fmt::Debug, B: Bytes<A>>(k: &K, layer: &str, b: &B, addrs: &[(A, &str)], snapshot: &dyn Fn() -> Vec<u8>)
where
    B::E: std::fmt::Debug,
{
    for (a, class) in addrs {
        for times in [1usize, 2] {
            let args = format!("addr {:?} count 0, stream interrupted {} time(s) first", a, times);
            k.form(layer, "read_volatile_from(count 0, interrupted source)", class, args.clone(), snapshot, &mut || {
                let mut s = Interrupting(Minimal(vec![1, 2, 3], 0), times);
                let r = want_ok(b.read_volatile_from(*a, &mut s, 0), |n| *n == 0);
                if s.0 .1 != 0 {
                    return Err("bytes were consumed from the source".into());
                }
                r
            });
            k.form(layer, "read_exact_volatile_from(count 0, interrupted source)", class, args.clone(), snapshot, &mut || {
                let mut s = Interrupting(Minimal(vec![1, 2, 3], 0), times);
                let r = want_ok(b.read_exact_volatile_from(*a, &mut s, 0), |_| true);
                if s.0 .1 != 0 {
                    return Err("bytes were consumed from the source".into());
                }
                r
            });
            k.form(layer, "write_volatile_to(count 0, interrupted sink)", class, args.clone(), snapshot, &mut || {
                let mut s = Interrupting(Minimal(Vec::new(), 0), times);
                let r = want_ok(b.write_volatile_to(*a, &mut s, 0), |n| *n == 0);
                if !s.0 .0.is_empty() {
                    return Err("bytes were handed to the sink".into());
                }
                r
            });
            k.form(layer, "write_all_volatile_to(count 0, interrupted sink)", class, args.clone(), snapshot, &mut || {
                let mut s = Interrupting(Minimal(Vec::new(), 0), times);
                let r = want_ok(b.write_all_volatile_to(*a, &mut s, 0), |_| true);
                if !s.0 .0.is_empty() {
                    return Err("bytes were handed to the sink".into());
                }
                r
            });
        }
    }
}

/// A stream that refuses every call (a descriptor opened the wrong way round, a peer that hung
/// up): the exact forms never need to ask it for a transfer of nothing.
struct Refusing(usize);

impl vm_memory::ReadVolatile for Refusing {
    fn read_volatile<B: BitmapSlice>(&mut self, _buf: &mut VolatileSlice<B>) -> Result<usize, vm_memory::VolatileMemoryError> {
        self.0 += 1;
        Err(vm_memory::VolatileMemoryError::IOError(std::io::Error::from(std::io::ErrorKind::BrokenPipe)))
    }
}

impl vm_memory::WriteVolatile for Refusing {
    fn write_volatile<B: BitmapSlice>(&mut self, _buf: &VolatileSlice<B>) -> Result<usize, vm_memory::VolatileMemoryError> {
        self.0 += 1;
        Err(vm_memory::VolatileMemoryError::IOError(std::io::Error::from(std::io::ErrorKind::BrokenPipe)))
    }
}

/// Exact stream forms with count 0 over streams that refuse every call (like std's read_exact /
/// write_all of nothing, which return at once).
///
/// The exact read of guest memory is not judged: it is defined through the up-to form, which -
/// like std's `read` - passes an empty request on to the source, and whether a source that fails
/// such a request fails the transfer is not fixed by the property (recorded in DESIGN.md).
fn exact_forms_refusing<A: Copy + std::fmt::Debug, B: Bytes<A>>(k: &K, layer: &str, b: &B, addrs: &[(A, &str)], snapshot: &dyn Fn() -> Vec<u8>, judge_read: bool)
where
    B::E: std::fmt::Debug,
{
    for (a, class) in addrs {
        let args = format!("addr {:?} count 0, stream refuses every call", a);
        if judge_read {
            k.form(layer, "read_exact_volatile_from(count 0, refusing source)", class, args.clone(), snapshot, &mut || {
                let mut s = Refusing(0);
                want_ok(b.read_exact_volatile_from(*a, &mut s, 0), |_| true)
            });
        }
        k.form(layer, "write_all_volatile_to(count 0, refusing sink)", class, args.clone(), snapshot, &mut || {
            let mut s = Refusing(0);
            want_ok(b.write_all_volatile_to(*a, &mut s, 0), |_| true)
        });
        k.form(layer, "write_all_volatile_to(count 0, file opened read-only)", class, args.clone(), snapshot, &mut || {
            let f0 = crate::layouts::tempfile().map_err(|e| e.to_string())?;
            use std::os::fd::AsRawFd;
            let mut f = std::fs::OpenOptions::new().read(true).open(format!("/proc/self/fd/{}", f0.as_raw_fd())).map_err(|e| e.to_string())?;
            want_ok(b.write_all_volatile_to(*a, &mut f, 0), |_| true)
        });
    }
}

/// Stream forms with count 0 over descriptor-backed and minimal streams (default exact methods).
fn stream_forms_fd<A: Copy + std::fmt::Debug, B: Bytes<A>>(k: &K, layer: &str, b: &B, addrs: &[(A, &str)], snapshot: &dyn Fn() -> Vec<u8>)
where
    B::E: std::fmt::Debug,
{
    use std::io::{Seek, SeekFrom, Write};
    for (a, class) in addrs {
        for kind in ["File", "UnixStream", "minimal-stream"] {
            let args = format!("addr {:?} count 0 stream {}", a, kind);
            let mk_file = || {
                let mut f = crate::layouts::tempfile().unwrap();
                f.write_all(&[1, 2, 3, 4]).unwrap();
                f.seek(SeekFrom::Start(0)).unwrap();
                f
            };
            k.form(layer, &format!("read_volatile_from(count 0, {})", kind), class, args.clone(), snapshot, &mut || match kind {
                "File" => {
                    let mut f = mk_file();
                    let r = want_ok(b.read_volatile_from(*a, &mut f, 0), |n| *n == 0);
                    if f.stream_position().unwrap() != 0 {
                        return Err("bytes were consumed from the file".into());
                    }
                    r
                }
                "UnixStream" => {
                    let (mut w, mut r) = std::os::unix::net::UnixStream::pair().unwrap();
                    w.write_all(&[1, 2, 3]).unwrap();
                    want_ok(b.read_volatile_from(*a, &mut r, 0), |n| *n == 0)
                }
                _ => {
                    let mut s = Minimal(vec![1, 2, 3], 0);
                    let r = want_ok(b.read_volatile_from(*a, &mut s, 0), |n| *n == 0);
                    if s.1 != 0 {
                        return Err("bytes were consumed from the stream".into());
                    }
                    r
                }
            });
            k.form(layer, &format!("read_exact_volatile_from(count 0, {})", kind), class, args.clone(), snapshot, &mut || match kind {
                "File" => {
                    let mut f = mk_file();
                    let r = want_ok(b.read_exact_volatile_from(*a, &mut f, 0), |_| true);
                    if f.stream_position().unwrap() != 0 {
                        return Err("bytes were consumed from the file".into());
                    }
                    r
                }
                "UnixStream" => {
                    // an empty, still open socket: a read would block, so only a non-blocking probe
                    let (_w, mut r) = std::os::unix::net::UnixStream::pair().unwrap();
                    r.set_nonblocking(true).unwrap();
                    want_ok(b.read_exact_volatile_from(*a, &mut r, 0), |_| true)
                }
                _ => {
                    let mut s = Minimal(vec![], 0);
                    want_ok(b.read_exact_volatile_from(*a, &mut s, 0), |_| true)
                }
            });
            k.form(layer, &format!("write_volatile_to(count 0, {})", kind), class, args.clone(), snapshot, &mut || match kind {
                "File" => {
                    let mut f = crate::layouts::tempfile().unwrap();
                    let r = want_ok(b.write_volatile_to(*a, &mut f, 0), |n| *n == 0);
                    if f.metadata().unwrap().len() != 0 {
                        return Err("bytes were written to the file".into());
                    }
                    r
                }
                "UnixStream" => {
                    let (mut w, _r) = std::os::unix::net::UnixStream::pair().unwrap();
                    want_ok(b.write_volatile_to(*a, &mut w, 0), |n| *n == 0)
                }
                _ => {
                    let mut s = Minimal(vec![], 0);
                    let r = want_ok(b.write_volatile_to(*a, &mut s, 0), |n| *n == 0);
                    if !s.0.is_empty() {
                        return Err("bytes were handed to the sink".into());
                    }
                    r
                }
            });
            k.form(layer, &format!("write_all_volatile_to(count 0, {})", kind), class, args.clone(), snapshot, &mut || match kind {
                "File" => {
                    let mut f = crate::layouts::tempfile().unwrap();
                    want_ok(b.write_all_volatile_to(*a, &mut f, 0), |_| true)
                }
                "UnixStream" => {
                    let (mut w, _r) = std::os::unix::net::UnixStream::pair().unwrap();
                    want_ok(b.write_all_volatile_to(*a, &mut w, 0), |_| true)
                }
                _ => {
                    let mut s = Minimal(vec![], 0);
                    want_ok(b.write_all_volatile_to(*a, &mut s, 0), |_| true)
                }
            });
        }
    }
}

/// Stream forms with count 0 over in-memory streams in every state a history can leave them in:
/// cursors before, at and beyond the end of their data (after a seek or a truncation), exhausted
/// slices, full sinks, vectors with spare capacity. A zero-count transfer is a successful no-op
/// whatever the state of the stream, and the stream does not move.
fn stream_forms_states<A: Copy + std::fmt::Debug, B: Bytes<A>>(k: &K, layer: &str, b: &B, addrs: &[(A, &str)], snapshot: &dyn Fn() -> Vec<u8>)
where
    B::E: std::fmt::Debug,
{
    use std::io::Cursor;
    for (a, class) in addrs {
        for dlen in [0usize, 4] {
            for pos in [0u64, 2, 4, 5, 9, u64::MAX] {
                let args = format!("addr {:?} count 0 Cursor over {} bytes at position {}", a, dlen, pos);
                k.form(layer, "read_volatile_from(count 0, Cursor at any position)", class, args.clone(), snapshot, &mut || {
                    let mut c = Cursor::new(vec![7u8; dlen]);
                    c.set_position(pos);
                    let r = want_ok(b.read_volatile_from(*a, &mut c, 0), |n| *n == 0);
                    if c.position() != pos {
                        return Err(format!("the cursor moved to {}", c.position()));
                    }
                    r
                });
                k.form(layer, "read_exact_volatile_from(count 0, Cursor at any position)", class, args.clone(), snapshot, &mut || {
                    let mut c = Cursor::new(vec![7u8; dlen]);
                    c.set_position(pos);
                    let r = want_ok(b.read_exact_volatile_from(*a, &mut c, 0), |_| true);
                    if c.position() != pos {
                        return Err(format!("the cursor moved to {}", c.position()));
                    }
                    r
                });
                // a cursor that was drained and whose data was then truncated
                k.form(layer, "read_exact_volatile_from(count 0, Cursor truncated behind its position)", class, args.clone(), snapshot, &mut || {
                    let mut c = Cursor::new(vec![7u8; dlen + 6]);
                    c.set_position(pos.min(dlen as u64 + 6));
                    c.get_mut().truncate(dlen);
                    want_ok(b.read_exact_volatile_from(*a, &mut c, 0), |_| true)
                });
                k.form(layer, "write_volatile_to(count 0, Cursor at any position)", class, args.clone(), snapshot, &mut || {
                    let mut store = vec![7u8; dlen];
                    let mut c = Cursor::new(&mut store[..]);
                    c.set_position(pos);
                    let r = want_ok(b.write_volatile_to(*a, &mut c, 0), |n| *n == 0);
                    if c.position() != pos {
                        return Err(format!("the cursor moved to {}", c.position()));
                    }
                    r
                });
                k.form(layer, "write_all_volatile_to(count 0, Cursor at any position)", class, args.clone(), snapshot, &mut || {
                    let mut store = vec![7u8; dlen];
                    let mut c = Cursor::new(&mut store[..]);
                    c.set_position(pos);
                    let r = want_ok(b.write_all_volatile_to(*a, &mut c, 0), |_| true);
                    if c.position() != pos || store.iter().any(|x| *x != 7) {
                        return Err("the sink changed".into());
                    }
                    r
                });
            }
            let args = format!("addr {:?} count 0 in-memory stream of {} bytes", a, dlen);
            k.form(layer, "read_exact_volatile_from(count 0, exhausted &[u8])", class, args.clone(), snapshot, &mut || {
                let data = vec![7u8; dlen];
                let mut src: &[u8] = &data[dlen..];
                want_ok(b.read_exact_volatile_from(*a, &mut src, 0), |_| true)
            });
            k.form(layer, "write_all_volatile_to(count 0, full &mut [u8])", class, args.clone(), snapshot, &mut || {
                let mut data = vec![7u8; dlen];
                let mut dst: &mut [u8] = &mut data[dlen..];
                want_ok(b.write_all_volatile_to(*a, &mut dst, 0), |_| true)
            });
            k.form(layer, "write_volatile_to / write_all_volatile_to(count 0, &mut [u8] with room)", class, args.clone(), snapshot, &mut || {
                // the sink keeps its room: a later transfer must find it as it was
                let mut data = vec![7u8; dlen + 3];
                let mut dst: &mut [u8] = &mut data[..];
                let room = dst.len();
                let r1 = want_ok(b.write_volatile_to(*a, &mut dst, 0), |n| *n == 0);
                if dst.len() != room {
                    return Err(format!("the sink shrank from {} to {} bytes of room", room, dst.len()));
                }
                let r2 = want_ok(b.write_all_volatile_to(*a, &mut dst, 0), |_| true);
                if dst.len() != room || data.iter().any(|x| *x != 7) {
                    return Err("the sink changed".into());
                }
                r1.and(r2)
            });
            k.form(layer, "read_volatile_from / read_exact_volatile_from(count 0, &[u8] with data)", class, args.clone(), snapshot, &mut || {
                let data = vec![7u8; dlen + 3];
                let mut src: &[u8] = &data[..];
                let r1 = want_ok(b.read_volatile_from(*a, &mut src, 0), |n| *n == 0);
                let r2 = want_ok(b.read_exact_volatile_from(*a, &mut src, 0), |_| true);
                if src.len() != dlen + 3 {
                    return Err(format!("the source moved: {} of {} bytes left", src.len(), dlen + 3));
                }
                r1.and(r2)
            });
            k.form(layer, "write_all_volatile_to(count 0, Vec with contents and spare capacity)", class, args.clone(), snapshot, &mut || {
                let mut sink: Vec<u8> = Vec::with_capacity(dlen + 3);
                sink.extend(std::iter::repeat(7u8).take(dlen));
                let r = want_ok(b.write_all_volatile_to(*a, &mut sink, 0), |_| true);
                if sink.len() != dlen {
                    return Err("bytes were handed to the sink".into());
                }
                r
            });
        }
    }
}

/// Copies of zero-sized elements / with empty buffers through a volatile slice.
fn copy_forms<S: BitmapSlice>(k: &K, layer: &str, vs: &VolatileSlice<S>, snapshot: &dyn Fn() -> Vec<u8>) {
    let len = vs.len();
    fn zst_copy<T: ByteValued, S: BitmapSlice>(k: &K, layer: &str, vs: &VolatileSlice<S>, snapshot: &dyn Fn() -> Vec<u8>, name: &str) {
        // (element counts on both sides of the small numbers an implementation may treat specially)
        for n in [0usize, 3, 255, 256, 257, 5000] {
            let args = format!("slice len {} element {} buffer of {} elements", vs.len(), name, n);
            // the element count reported for zero-sized copies is recorded, not judged
            k.form(layer, "VolatileSlice::copy_to(zero-sized elements)", "whole", args.clone(), snapshot, &mut || {
                let mut buf: Vec<T> = vec![T::zeroed(); n];
                let _ = vs.copy_to(&mut buf);
                Ok(())
            });
            k.form(layer, "VolatileSlice::copy_from(zero-sized elements)", "whole", args.clone(), snapshot, &mut || {
                let buf: Vec<T> = vec![T::zeroed(); n];
                vs.copy_from(&buf);
                Ok(())
            });
            if n == 5000 {
                // more zero-sized elements than isize::MAX (such a buffer costs no memory); only
                // the slice-level forms, whose work does not grow with the count
                for huge in [isize::MAX as usize, isize::MAX as usize + 1, usize::MAX] {
                    let args = format!("slice len {} element {} buffer of {} elements", vs.len(), name, huge);
                    k.form(layer, "VolatileSlice::copy_from(zero-sized elements)", "whole", args.clone(), snapshot, &mut || {
                        let mut buf: Vec<T> = Vec::new();
                        // SAFETY: zero-sized elements, no storage behind them
                        unsafe { buf.set_len(huge) };
                        vs.copy_from(&buf);
                        Ok(())
                    });
                    k.form(layer, "VolatileSlice::copy_to(zero-sized elements)", "whole", args.clone(), snapshot, &mut || {
                        let mut buf: Vec<T> = Vec::new();
                        // SAFETY: zero-sized elements, no storage behind them
                        unsafe { buf.set_len(huge) };
                        let _ = vs.copy_to(&mut buf);
                        Ok(())
                    });
                }
            }
            for cnt in [0usize, 2, 255, 256, 257, 70000, usize::MAX / 16] {
                if n > 3 && cnt > 2 && cnt < 255 {
                    continue;
                }
                let args = format!("{} array of {} elements at offset 0", args, cnt);
                k.form(layer, "VolatileArrayRef::copy_to(zero-sized elements)", "whole", args.clone(), snapshot, &mut || {
                    let a = vs.get_array_ref::<T>(0, cnt).map_err(|e| format!("get_array_ref refused: {:?}", e))?;
                    let mut buf: Vec<T> = vec![T::zeroed(); n];
                    let _ = a.copy_to(&mut buf);
                    Ok(())
                });
                k.form(layer, "VolatileArrayRef::copy_from(zero-sized elements)", "whole", args.clone(), snapshot, &mut || {
                    let a = vs.get_array_ref::<T>(0, cnt).map_err(|e| format!("get_array_ref refused: {:?}", e))?;
                    let buf: Vec<T> = vec![T::zeroed(); n];
                    a.copy_from(&buf);
                    Ok(())
                });
                k.form(layer, "VolatileArrayRef::copy_to_volatile_slice(zero-sized elements)", "whole", args.clone(), snapshot, &mut || {
                    let a = vs.get_array_ref::<T>(0, cnt).map_err(|e| format!("get_array_ref refused: {:?}", e))?;
                    a.copy_to_volatile_slice(vs.clone());
                    Ok(())
                });
            }
        }
    }
    zst_types!(zst_copy, [_], k, layer, vs, snapshot);
    // a zero-sized element loaded or stored through a typed accessor at every offset (so at every
    // alignment of the element address: a zero-sized type may ask for more than one byte of it)
    fn zst_elem<T: ByteValued, S: BitmapSlice>(k: &K, layer: &str, vs: &VolatileSlice<S>, snapshot: &dyn Fn() -> Vec<u8>, name: &str) {
        let len = vs.len();
        for o in (0..=len.min(9)).chain([len / 2, len.saturating_sub(1), len]) {
            if o > len {
                continue;
            }
            let args = format!("slice len {} element {} at offset {}", len, name, o);
            k.form(layer, "VolatileRef::load/store(zero-sized element)", "whole", args.clone(), snapshot, &mut || {
                let r = vs.get_ref::<T>(o).map_err(|e| format!("get_ref refused: {:?}", e))?;
                let v = r.load();
                r.store(v);
                Ok(())
            });
            for cnt in [1usize, 3, 70000] {
                k.form(layer, "VolatileArrayRef::load/store(zero-sized element)", "whole", format!("{} array of {} elements", args, cnt), snapshot, &mut || {
                    let a = vs.get_array_ref::<T>(o, cnt).map_err(|e| format!("get_array_ref refused: {:?}", e))?;
                    for i in [0, cnt - 1] {
                        let v = a.load(i);
                        a.store(i, v);
                        let r = a.ref_at(i);
                        r.store(r.load());
                    }
                    Ok(())
                });
            }
        }
    }
    zst_types!(zst_elem, [_], k, layer, vs, snapshot);
    for o in [0usize, len / 2, len] {
        let args = format!("slice len {} offset {} empty buffer / zero count", len, o);
        k.form(layer, "copy_to(&mut [] of u8)", "whole", args.clone(), snapshot, &mut || {
            let sub = vs.offset(o).map_err(|e| format!("{:?}", e))?;
            let n = sub.copy_to::<u8>(&mut []);
            let m = sub.copy_to::<u32>(&mut []);
            if n != 0 || m != 0 {
                return Err(format!("reported {} / {} elements", n, m));
            }
            sub.copy_from::<u8>(&[]);
            sub.copy_from::<u64>(&[]);
            Ok(())
        });
        k.form(layer, "get_array_ref(count 0) copies", "whole", args.clone(), snapshot, &mut || {
            let a = vs.get_array_ref::<u32>(o, 0).map_err(|e| format!("{:?}", e))?;
            let mut buf = [7u32; 2];
            let n = a.copy_to(&mut buf);
            if n != 0 || buf != [7, 7] {
                return Err(format!("copy_to moved {} elements", n));
            }
            a.copy_from(&buf);
            a.copy_to_volatile_slice(vs.clone());
            let b = vs.get_array_ref::<u8>(o, 0).map_err(|e| format!("{:?}", e))?;
            let mut buf8 = [7u8; 2];
            if b.copy_to(&mut buf8) != 0 || buf8 != [7, 7] {
                return Err("u8 copy_to moved elements".into());
            }
            b.copy_from(&buf8);
            Ok(())
        });
        k.form(layer, "copy_to_volatile_slice(empty destination)", "whole", args.clone(), snapshot, &mut || {
            let empty = vs.subslice(o, 0).map_err(|e| format!("{:?}", e))?;
            vs.copy_to_volatile_slice(empty.clone());
            empty.copy_to_volatile_slice(vs.clone());
            Ok(())
        });
    }
}

fn slice_layer(k: &K) {
    use std::num::NonZeroUsize;
    use vm_memory::bitmap::{AtomicBitmap, Bitmap};
    for len in [8usize, 0] {
        let mut backing = vec![0x5au8; len + 8];
        let bm = AtomicBitmap::new(len.max(1), NonZeroUsize::new(1).unwrap());
        let p = backing.as_mut_ptr();
        // SAFETY: backing outlives vs
        let vs = unsafe { VolatileSlice::with_bitmap(p, len, bm.slice_at(0), None) };
        let snap = || -> Vec<u8> {
            let mut v = unsafe { std::slice::from_raw_parts(p, len + 8) }.to_vec();
            v.extend((0..bm.len()).map(|i| bm.is_bit_set(i) as u8));
            v
        };
        let layer = if len == 0 { "empty-slice" } else { "slice" };
        let addrs: Vec<(usize, &str)> = if len == 0 {
            vec![(0, "offset-0-of-empty-container"), (1, "out-of-range"), (usize::MAX, "usize::MAX")]
        } else {
            vec![(0, "mapped"), (3, "mapped"), (len - 1, "last-byte"), (len, "one-past-the-end"), (len + 1, "out-of-range"), (usize::MAX, "usize::MAX")]
        };
        bytes_forms(k, layer, &vs, &addrs, &snap);
        if len > 0 {
            let valid: Vec<(usize, &str)> = vec![(0, "mapped"), (3, "mapped"), (len - 1, "last-byte")];
            stream_forms(k, layer, &vs, &valid, &snap);
            stream_forms_fd(k, layer, &vs, &valid, &snap);
            stream_forms_states(k, layer, &vs, &valid, &snap);
            stream_forms_interrupted(k, layer, &vs, &valid, &snap);
            exact_forms_refusing(k, layer, &vs, &valid, &snap, true);
        }
        copy_forms(k, layer, &vs, &snap);
    }
}

fn region_and_memory<M: GuestMemory>(k: &K, tag: &str, m: &M, mapped: &[u64], unmapped: &[(u64, &'static str)], snapshot: &dyn Fn() -> Vec<u8>)
where
    <M::R as Bytes<MemoryRegionAddress>>::E: std::fmt::Debug,
{
    // guest-memory level
    let layer = format!("guest-memory({})", tag);
    let mut all: Vec<(GuestAddress, &str)> = mapped.iter().map(|a| (GuestAddress(*a), "mapped")).collect();
    all.extend(unmapped.iter().map(|(a, c)| (GuestAddress(*a), *c)));
    bytes_forms(k, &layer, m, &all, snapshot);
    let valid: Vec<(GuestAddress, &str)> = mapped.iter().map(|a| (GuestAddress(*a), "mapped")).collect();
    stream_forms(k, &layer, m, &valid, snapshot);
    stream_forms_fd(k, &layer, m, &valid, snapshot);
    stream_forms_states(k, &layer, m, &valid, snapshot);
    stream_forms_interrupted(k, &layer, m, &valid, snapshot);
    exact_forms_refusing(k, &layer, m, &valid, snapshot, false);
    // region level
    for (i, reg) in m.iter().enumerate() {
        let layer = format!("region({})", tag);
        let n = reg.len();
        let addrs: Vec<(MemoryRegionAddress, &str)> = vec![
            (MemoryRegionAddress(0), "mapped"),
            (MemoryRegionAddress(n / 2 + 1), "mapped"),
            (MemoryRegionAddress(n - 1), "last-byte"),
            (MemoryRegionAddress(n), "one-past-the-end"),
            (MemoryRegionAddress(n + 5), "out-of-range"),
            (MemoryRegionAddress(u64::MAX), "u64::MAX"),
        ];
        bytes_forms(k, &layer, reg, &addrs, snapshot);
        let mut valid: Vec<(MemoryRegionAddress, &str)> = vec![(MemoryRegionAddress(0), "mapped-page-aligned"), (MemoryRegionAddress(n / 2 + 1), "mapped"), (MemoryRegionAddress(n - 1), "last-byte")];
        if n > 4096 {
            valid.push((MemoryRegionAddress(4096), "mapped-page-aligned"));
        }
        stream_forms(k, &layer, reg, &valid, snapshot);
        stream_forms_fd(k, &layer, reg, &valid, snapshot);
        stream_forms_states(k, &layer, reg, &valid, snapshot);
        stream_forms_interrupted(k, &layer, reg, &valid, snapshot);
        exact_forms_refusing(k, &layer, reg, &valid, snapshot, true);
        let _ = i;
        // slices handed out by the region
        if let Ok(vs) = reg.as_volatile_slice() {
            copy_forms(k, &format!("region-slice({})", tag), &vs, snapshot);
            let offs: Vec<(usize, &str)> = vec![(0, "mapped"), (n as usize - 1, "last-byte"), (n as usize, "one-past-the-end"), (usize::MAX, "usize::MAX")];
            bytes_forms(k, &format!("region-slice({})", tag), &vs, &offs, snapshot);
        }
    }
}

#[cfg(not(feature = "xen"))]
fn std_regions(k: &K) {
    use vm_memory::bitmap::AtomicBitmap;
    use vm_memory::GuestMemoryMmap;
    let m = GuestMemoryMmap::<AtomicBitmap>::from_ranges(&[(GuestAddress(0x1000), 8), (GuestAddress(0x1010), 8)]).unwrap();
    let snap = || -> Vec<u8> {
        let mut v = Vec::new();
        for r in m.iter() {
            v.extend_from_slice(unsafe { std::slice::from_raw_parts(r.as_ptr(), r.len() as usize) });
            v.push(r.bitmap().is_bit_set(0) as u8);
        }
        v
    };
    for r in m.iter() {
        unsafe { std::ptr::write_bytes(r.as_ptr(), 0x77, r.len() as usize) };
    }
    region_and_memory(k, "mmap", &m, &[0x1000, 0x1003, 0x1007, 0x1010, 0x1017], &[(0x1008, "one-past-a-region"), (0x100c, "in-a-hole"), (0, "address-0"), (u64::MAX, "u64::MAX"), (0x1018, "one-past-the-last-region")], &snap);
    // the number of regions is a dimension of its own: one region (built that way, and left
    // over after removals), three regions, none at all
    {
        let one = GuestMemoryMmap::<AtomicBitmap>::from_ranges(&[(GuestAddress(0x1000), 8)]).unwrap();
        let three = GuestMemoryMmap::<AtomicBitmap>::from_ranges(&[(GuestAddress(0x1000), 8), (GuestAddress(0x1008), 8), (GuestAddress(0x2000), 4)]).unwrap();
        let left = three.remove_region(GuestAddress(0x1008), 8).unwrap().0.remove_region(GuestAddress(0x2000), 4).unwrap().0;
        let none = left.remove_region(GuestAddress(0x1000), 8).unwrap().0;
        let fresh_none = GuestMemoryMmap::<AtomicBitmap>::new();
        for (tag, m, mapped) in [
            ("mmap, one region", &one, vec![0x1000u64, 0x1007]),
            ("mmap, one region left after removals", &left, vec![0x1000, 0x1003]),
            ("mmap, three regions", &three, vec![0x1000, 0x1007, 0x1008, 0x100f, 0x2003]),
            ("mmap, emptied", &none, vec![]),
            ("mmap, no region", &fresh_none, vec![]),
        ] {
            let snap = || -> Vec<u8> {
                let mut v = Vec::new();
                for r in m.iter() {
                    v.extend_from_slice(unsafe { std::slice::from_raw_parts(r.as_ptr(), r.len() as usize) });
                    v.push(r.bitmap().is_bit_set(0) as u8);
                }
                v
            };
            region_and_memory(k, tag, m, &mapped, &[(0x1010, "one-past-a-region"), (0x1800, "in-a-hole-or-beyond"), (0, "address-0"), (u64::MAX, "u64::MAX"), (0xfff, "just-below-a-region")], &snap);
        }
    }
    // the trait-default implementation
    let l = crate::layouts::Layout { regs: vec![(0x1000, 8), (0x1010, 8), (u64::MAX - 3, 4)] };
    let mock = crate::layouts::MockMemory::new(&l);
    let snap2 = || -> Vec<u8> {
        let mut v = Vec::new();
        for r in mock.iter() {
            v.extend_from_slice(unsafe { std::slice::from_raw_parts(r.ptr(), r.len() as usize) });
        }
        v
    };
    region_and_memory(k, "trait-defaults", &mock, &[0x1000, 0x1007, 0x1010, u64::MAX - 3, u64::MAX], &[(0x1008, "one-past-a-region"), (0x100c, "in-a-hole"), (0, "address-0"), (u64::MAX - 4, "below-top-region")], &snap2);
}

#[cfg(feature = "xen")]
fn xen_regions(k: &K) {
    use crate::xen_emu::Emu;
    use vm_memory::{GuestMemoryMmap, GuestRegionMmap};
    let emu = Emu::new(64);
    for (tag, kind) in [("xen-unix", 0), ("xen-grant-in-advance", 1), ("xen-foreign", 2), ("xen-grant-on-demand", 3)] {
        let size = 2 * 4096usize;
        let (r1, r2) = match kind {
            0 => (GuestRegionMmap::<()>::from_range(GuestAddress(0x8000), size, None).unwrap(), GuestRegionMmap::<()>::from_range(GuestAddress(0x10000), 4096, None).unwrap()),
            1 => (emu.grant_region(8, size, false).unwrap(), emu.grant_region(16, 4096, false).unwrap()),
            2 => (emu.foreign_region(0x8000, size).unwrap(), emu.foreign_region(0x10000, 4096).unwrap()),
            _ => (emu.grant_region(8, size, true).unwrap(), emu.grant_region(16, 4096, true).unwrap()),
        };
        let m = GuestMemoryMmap::from_regions(vec![r1, r2]).unwrap();
        // independent view of the memory: the backing file for device-backed regions
        let emu_ref = &emu;
        let snap = move || -> Vec<u8> {
            if kind == 0 {
                Vec::new()
            } else {
                let mut v = emu_ref.read_backing(0, 4096 * 20);
                v.push(emu_ref.live().len() as u8);
                v
            }
        };
        emu.take_log();
        region_and_memory(k, tag, &m, &[0x8000, 0x8010, 0x9000, 0x9fff, 0x10000, 0x10fff], &[(0xa000, "one-past-a-region"), (0xc000, "in-a-hole"), (0, "address-0"), (u64::MAX, "u64::MAX")], &snap);
        let log = emu.take_log();
        k.ctx.extra(&format!("device_requests_during_zero_length_accesses_{}", tag), json!(log.len()));
        if !emu.live().is_empty() && kind == 3 {
            k.ctx.fail(&format!("C18/xen/{}/window-left-mapped", tag), &format!("{:?}", emu.live()), json!({"region": tag}));
        }
        let pe = std::mem::take(&mut emu.state.borrow_mut().protocol_errors);
        if !pe.is_empty() {
            k.ctx.fail(&format!("C18/xen/{}/device-protocol", tag), &format!("{:?}", pe), json!({"region": tag}));
        }
        if kind == 3 {
            // "for any address or offset": what a zero-length access does may not depend on where
            // it points. The sweep is repeated for one address at a time; the number of requests
            // the grant device sees must be the same for page-aligned and unaligned addresses.
            let mut counts: Vec<(u64, usize)> = Vec::new();
            for addr in [0x8000u64, 0x8010, 0x8fff, 0x9000, 0x9001, 0x9fff] {
                emu.take_log();
                region_and_memory(k, "xen-grant-on-demand(one address)", &m, &[addr], &[], &snap);
                counts.push((addr, emu.take_log().len()));
            }
            if counts.iter().any(|c| c.1 != counts[0].1) {
                k.ctx.fail("C18/xen/xen-grant-on-demand/device-requests-depend-on-the-address", &format!("requests seen by the grant device during the zero-length sweep, per address: {:x?}", counts), json!({"region": tag, "per_address": counts}));
            }
            k.ctx.extra("device_requests_per_address_during_zero_length_sweep", json!(counts));
            emu.state.borrow_mut().live.clear();
            emu.state.borrow_mut().refs.clear();
            emu.state.borrow_mut().protocol_errors.clear();
        }
        drop(m);
    }
}

pub fn run(tier: Tier, replay: Option<String>) -> i32 {
    let ctx = crate::new_ctx("C18", tier, "exploration", &replay);
    let build: &'static str = if cfg!(feature = "xen") { "xen" } else { "std" };
    ctx.set_rule("every zero-length form of the byte-access interface - write/read/write_slice/read_slice with an empty buffer, write_obj/read_obj of the crate's zero-sized types ([u8;0] .. [u128;0], [i8;0], [usize;0]), the four stream forms with count 0 (in-memory, File, UnixStream and a minimal stream; in-memory streams in every state a history leaves them in: cursors over 0 and 4 bytes at positions before, at and beyond the end incl. u64::MAX and after a truncation, exhausted slices, full sinks, vectors with spare capacity - the stream may not move), VolatileSlice::copy_to/copy_from and VolatileArrayRef::copy_to/copy_from/copy_to_volatile_slice with zero-sized elements (0 .. 5000 host elements x arrays of 0 .. 2^60 elements; slice-level copies also with isize::MAX, isize::MAX+1 and usize::MAX host elements), empty buffers, zero element counts and empty destinations, VolatileRef::load/store and VolatileArrayRef::load/store/ref_at of the zero-sized types at every offset 0..=9 (every alignment of the element address) - x three layers (volatile slice incl. an empty container, region, guest memory; mmap collection and trait-default implementation) x address classes {mapped, last byte, one past a region / the end, in a hole, out of range, 0, u64::MAX / usize::MAX} (stream and copy forms: addresses valid for a non-empty access); Xen build: UNIX, foreign, grant in advance and grant on demand on the emulated devices, on the on-demand region the sweep is repeated one address at a time and the number of requests the grant device sees must not depend on the address (page-aligned or not). Required: Ok(0)/Ok(()), no panic/abort/fault, memory and dirty bitmap identical before and after. One case = one form at one address; distinct by construction; all are non-trivial (each reaches the implementation).");
    ctx.assume("the element count reported for copies of zero-sized elements is recorded, not judged; device windows requested for zero-length accesses on on-demand regions are counted, not judged");
    if ctx.replay_of.is_some() {
        println!("replay: deterministic enumeration; re-running it");
    }
    let k = K { ctx: &ctx, build };
    slice_layer(&k);
    #[cfg(not(feature = "xen"))]
    std_regions(&k);
    #[cfg(feature = "xen")]
    xen_regions(&k);
    ctx.sample(json!({"build": build, "layer": "guest-memory(mmap)", "form": "write(&[])", "address_class": "in-a-hole", "required": "Ok(0)"}));
    ctx.sample(json!({"build": build, "layer": "slice", "form": "VolatileSlice::copy_to(zero-sized elements)", "args": "element [u32;0], buffer of 3 elements", "required": "returns, nothing changes"}));
    ctx.set_exhaustive(true);
    ctx.finish()
}
