//! C07 — guest-controlled addresses and lengths can never crash the monitor.

use crate::layouts::{Layout, MockMemory};
use crate::report::{Ctx, Tier};
use serde_json::json;
use std::collections::BTreeSet;
use std::num::NonZeroUsize;
use std::sync::atomic::{AtomicU32, AtomicU64, AtomicU8, AtomicUsize, Ordering};
use vm_memory::bitmap::{AtomicBitmap, Bitmap};
use vm_memory::{Bytes, GuestAddress, GuestMemory, GuestMemoryRegion, MemoryRegionAddress, VolatileMemory, VolatileSlice};

const IMAX: usize = isize::MAX as usize;
const EXT: [usize; 6] = [IMAX - 1, IMAX, IMAX + 1, usize::MAX - 8, usize::MAX - 1, usize::MAX];

static HEARTBEAT: AtomicU64 = AtomicU64::new(0);
static THOROUGH: std::sync::atomic::AtomicBool = std::sync::atomic::AtomicBool::new(false);
static CUR: [AtomicU64; 4] = [AtomicU64::new(0), AtomicU64::new(0), AtomicU64::new(0), AtomicU64::new(0)];
static CUR_NAME: std::sync::Mutex<&'static str> = std::sync::Mutex::new("");

struct Run<'a> {
    ctx: &'a Ctx,
    profile: &'static str,
    group: &'static str,
}

impl Run<'_> {
    /// One call under the crash guard; `f` must return normally (Ok or Err inside).
    #[inline]
    fn call(&self, name: &'static str, a: u64, b: u64, c: u64, f: impl FnOnce()) {
        HEARTBEAT.fetch_add(1, Ordering::Relaxed);
        CUR[0].store(a, Ordering::Relaxed);
        CUR[1].store(b, Ordering::Relaxed);
        CUR[2].store(c, Ordering::Relaxed);
        let group = self.group;
        let profile = self.profile;
        let describe = move || (format!("C07/{}/{}", group, name), format!("args {:#x} {:#x} {:#x} ({})", a, b, c, profile), json!({"group": group, "entry_point": name, "args": [format!("{:#x}", a), format!("{:#x}", b), format!("{:#x}", c)], "profile": profile}));
        self.ctx.case(a > 4096 || b > 4096 || c > 4096);
        crate::crash::guarded(self.ctx, &describe, f);
    }
}

fn addr_set(l: &Layout) -> Vec<u64> {
    let mut s: BTreeSet<u64> = BTreeSet::new();
    for x in [0u64, 1, (1 << 32) - 1, 1 << 32, (1 << 32) + 1, (1 << 63) - 1, 1 << 63, (1 << 63) + 1] {
        s.insert(x);
    }
    for d in 0..9 {
        s.insert(u64::MAX - d);
    }
    for (st, n) in &l.regs {
        for d in [-1i64, 0, 1] {
            s.insert(st.wrapping_add(d as u64));
            s.insert(st.wrapping_add(*n).wrapping_add(d as u64));
        }
        if THOROUGH.load(Ordering::Relaxed) {
            for d in -9i64..=9 {
                s.insert(st.wrapping_add(d as u64));
                s.insert(st.wrapping_add(*n).wrapping_add(d as u64));
                s.insert(st.wrapping_add(*n / 2).wrapping_add(d as u64));
            }
        }
    }
    if THOROUGH.load(Ordering::Relaxed) {
        for sh in [12u32, 16, 31, 33, 47, 48, 62] {
            for d in [-1i64, 0, 1] {
                s.insert(((1u128 << sh) as i128 + d as i128) as u64);
            }
        }
        for d in 0..40 {
            s.insert(u64::MAX - d);
            s.insert(d);
        }
    }
    s.into_iter().collect()
}

fn count_set(lens: &[usize]) -> Vec<usize> {
    let mut s: BTreeSet<usize> = BTreeSet::new();
    for x in [0usize, 1, 2, 7, 8, 9] {
        s.insert(x);
    }
    for l in lens {
        for d in [-1i64, 0, 1] {
            s.insert((*l as i64 + d).max(0) as usize);
        }
    }
    for e in EXT {
        s.insert(e);
    }
    if THOROUGH.load(Ordering::Relaxed) {
        // every small value, every value around a page, and more overflow-prone values
        s.extend(0..=40usize);
        s.extend(4086..=4106usize);
        for sh in [16u32, 31, 32, 33, 47, 48, 62, 63] {
            for d in [-1i64, 0, 1] {
                s.insert(((1u128 << sh) as i128 + d as i128) as usize);
            }
        }
        for l in lens {
            for k in 2..=9usize {
                s.insert(l / k);
                s.insert(usize::MAX - l / k);
            }
        }
    }
    s.into_iter().collect()
}

fn memory_level<M: GuestMemory>(r: &Run, m: &M, l: &Layout) {
    let addrs = addr_set(l);
    let lens: Vec<usize> = l.regs.iter().map(|r| r.1 as usize).collect();
    let counts = count_set(&lens);
    let src_data = vec![0x5au8; 5000];
    r.call("last_addr", 0, 0, 0, || {
        let _ = m.last_addr();
        let _ = m.num_regions();
        let _ = m.iter().count();
    });
    for &a in &addrs {
        let ga = GuestAddress(a);
        r.call("find_region", a, 0, 0, || {
            let _ = m.find_region(ga);
        });
        r.call("to_region_addr", a, 0, 0, || {
            let _ = m.to_region_addr(ga);
        });
        r.call("address_in_range", a, 0, 0, || {
            let _ = m.address_in_range(ga);
            let _ = m.check_address(ga);
        });
        r.call("get_host_address", a, 0, 0, || {
            let _ = m.get_host_address(ga);
        });
        r.call("write_obj/read_obj", a, 0, 0, || {
            let _ = m.write_obj(0x1122_3344_5566_7788u64, ga);
            let _ = m.read_obj::<u128>(ga);
            let _ = m.write_obj([1u8, 2, 3], ga);
            let _ = m.read_obj::<[u16; 5]>(ga);
        });
        r.call("store/load", a, 0, 0, || {
            let _ = m.store(7u32, ga, Ordering::SeqCst);
            let _ = m.load::<u64>(ga, Ordering::Relaxed);
            let _ = m.store(1u8, ga, Ordering::Release);
        });
        for &c in &counts {
            let cu = c as u64;
            r.call("check_range", a, cu, 0, || {
                let _ = m.check_range(ga, c);
            });
            r.call("checked_offset", a, cu, 0, || {
                let _ = m.checked_offset(ga, c);
            });
            r.call("get_slice", a, cu, 0, || {
                let _ = m.get_slice(ga, c);
            });
            r.call("try_access", a, cu, 0, || {
                let _ = m.try_access(c, ga, |_, len, _, _| Ok(len));
                let _ = m.try_access(c, ga, |_, len, _, _| Ok(len.min(1)));
                let _ = m.try_access(c, ga, |_, _, _, _| Ok(0));
            });
            r.call("read_volatile_from", a, cu, 0, || {
                let mut src: &[u8] = &src_data;
                let _ = m.read_volatile_from(ga, &mut src, c);
            });
            // streams that end before the requested count is met (and an empty one)
            r.call("read_volatile_from(short stream)", a, cu, 3, || {
                let mut src: &[u8] = &src_data[..3];
                let _ = m.read_volatile_from(ga, &mut src, c);
                let mut src: &[u8] = &src_data[..0];
                let _ = m.read_volatile_from(ga, &mut src, c);
                let mut src: &[u8] = &src_data[..3];
                let _ = m.read_exact_volatile_from(ga, &mut src, c);
                let mut cur = std::io::Cursor::new(&src_data[..5]);
                cur.set_position(7);
                let _ = m.read_volatile_from(ga, &mut cur, c);
            });
            r.call("write_volatile_to(full sink)", a, cu, 3, || {
                let mut sink = [0u8; 3];
                let mut s: &mut [u8] = &mut sink;
                let _ = m.write_volatile_to(ga, &mut s, c);
                let mut s: &mut [u8] = &mut [];
                let _ = m.write_volatile_to(ga, &mut s, c);
            });
            // sinks in the states a program may leave them in: a cursor over a byte buffer at its
            // end, one past it and far past it; a cursor over a source at u64::MAX
            r.call("write_volatile_to(cursor sink at / past its end)", a, cu, 3, || {
                for pos in [5u64, 6, 9, u64::MAX] {
                    let mut sink = [0u8; 5];
                    let mut cur = std::io::Cursor::new(&mut sink[..]);
                    cur.set_position(pos);
                    let _ = m.write_volatile_to(ga, &mut cur, c);
                    let _ = m.write_all_volatile_to(ga, &mut cur, c);
                    let mut src = std::io::Cursor::new(&src_data[..5]);
                    src.set_position(pos);
                    let _ = m.read_volatile_from(ga, &mut src, c);
                    let _ = m.read_exact_volatile_from(ga, &mut src, c);
                }
            });
            r.call("read_exact_volatile_from", a, cu, 0, || {
                let mut src: &[u8] = &src_data;
                let _ = m.read_exact_volatile_from(ga, &mut src, c);
            });
            r.call("write_volatile_to", a, cu, 0, || {
                let mut sink: Vec<u8> = Vec::new();
                let _ = m.write_volatile_to(ga, &mut sink, c);
            });
            r.call("write_all_volatile_to", a, cu, 0, || {
                let mut sink = [0u8; 16];
                let mut s: &mut [u8] = &mut sink;
                let _ = m.write_all_volatile_to(ga, &mut s, c);
            });
            if c <= 5000 {
                r.call("write/read", a, cu, 0, || {
                    let mut buf = vec![0x33u8; c];
                    let _ = m.write(&buf, ga);
                    let _ = m.read(&mut buf, ga);
                    let _ = m.write_slice(&buf, ga);
                    let _ = m.read_slice(&mut buf, ga);
                });
            }
        }
    }
    // region level
    for (i, reg) in m.iter().enumerate() {
        let n = reg.len() as usize;
        let mut offs: BTreeSet<u64> = count_set(&[n]).into_iter().map(|x| x as u64).collect();
        offs.extend([u64::MAX, u64::MAX - 1, 1 << 63, (1u64 << 63) - 1, 1 << 32]);
        let counts = count_set(&[n]);
        r.call("region.as_volatile_slice", i as u64, 0, 0, || {
            let _ = reg.as_volatile_slice();
            let _ = reg.last_addr();
            let _ = reg.start_addr();
            let _ = reg.file_offset();
            let _ = reg.bitmap();
        });
        for &a in &addr_set(l) {
            r.call("region.to_region_addr", i as u64, a, 0, || {
                let _ = reg.to_region_addr(GuestAddress(a));
            });
        }
        for &o in &offs {
            let ra = MemoryRegionAddress(o);
            r.call("region.check_address", i as u64, o, 0, || {
                let _ = reg.check_address(ra);
                let _ = reg.address_in_range(ra);
                let _ = reg.get_host_address(ra);
            });
            r.call("region.obj/atomic", i as u64, o, 0, || {
                let _ = reg.write_obj(5u32, ra);
                let _ = reg.read_obj::<u64>(ra);
                let _ = reg.store(5u16, ra, Ordering::SeqCst);
                let _ = reg.load::<u32>(ra, Ordering::SeqCst);
            });
            for &c in &counts {
                r.call("region.checked_offset", i as u64, o, c as u64, || {
                    let _ = reg.checked_offset(ra, c);
                });
                r.call("region.get_slice", i as u64, o, c as u64, || {
                    let _ = reg.get_slice(ra, c);
                });
                r.call("region.streams", i as u64, o, c as u64, || {
                    let mut src: &[u8] = &src_data;
                    let _ = reg.read_volatile_from(ra, &mut src, c);
                    let mut src: &[u8] = &src_data;
                    let _ = reg.read_exact_volatile_from(ra, &mut src, c);
                    let mut sink: Vec<u8> = Vec::new();
                    let _ = reg.write_volatile_to(ra, &mut sink, c);
                    let mut sink: Vec<u8> = Vec::new();
                    let _ = reg.write_all_volatile_to(ra, &mut sink, c);
                });
                if c <= 5000 {
                    r.call("region.write/read", i as u64, o, c as u64, || {
                        let mut buf = vec![0x44u8; c];
                        let _ = reg.write(&buf, ra);
                        let _ = reg.read(&mut buf, ra);
                        let _ = reg.write_slice(&buf, ra);
                        let _ = reg.read_slice(&mut buf, ra);
                    });
                }
            }
        }
    }
}

fn slice_level(r: &Run) {
    let src_data = vec![0x5au8; 5000];
    for len in [0usize, 1, 9, 4097] {
        let mut backing = vec![0u8; len + 16];
        let base = backing.as_mut_ptr();
        for mis in [0usize, 1] {
            // SAFETY: backing outlives the slice
            let vs = unsafe { VolatileSlice::new(base.add(mis), len) };
            let p = base as usize + mis;
            let mut vals = count_set(&[len]);
            vals.extend([usize::MAX - p, (usize::MAX - p).wrapping_add(1)]);
            for &o in &vals {
                let ou = o as u64;
                r.call("slice.offset/split_at", len as u64, ou, 0, || {
                    let _ = vs.offset(o);
                    let _ = vs.split_at(o);
                });
                r.call("slice.refs", len as u64, ou, 0, || {
                    let _ = vs.get_ref::<u8>(o);
                    let _ = vs.get_ref::<u64>(o).map(|r| (r.len(), r.to_slice().len()));
                    let _ = vs.get_ref::<[u8; 3]>(o);
                    let _ = vs.get_atomic_ref::<AtomicU32>(o);
                    let _ = vs.get_atomic_ref::<AtomicU8>(o);
                    let _ = vs.get_atomic_ref::<AtomicUsize>(o);
                    // SAFETY: the references are dropped immediately
                    unsafe {
                        let _ = vs.aligned_as_ref::<u32>(o).map(|x| x as *const u32);
                        let _ = vs.aligned_as_mut::<u128>(o).map(|x| x as *mut u128);
                    }
                });
                r.call("slice.obj/atomic", len as u64, ou, 0, || {
                    let _ = vs.write_obj(0xaabbu16, o);
                    let _ = vs.read_obj::<u64>(o);
                    let _ = vs.store(9u64, o, Ordering::SeqCst);
                    let _ = vs.load::<u8>(o, Ordering::SeqCst);
                });
                for &c in &vals {
                    let cu = c as u64;
                    r.call("slice.subslice/get_slice", len as u64, ou, cu, || {
                        let _ = vs.subslice(o, c);
                        let _ = vs.get_slice(o, c);
                        let _ = vs.compute_end_offset(o, c);
                        let _ = vm_memory::volatile_memory::compute_offset(o, c);
                    });
                    r.call("slice.get_array_ref", len as u64, ou, cu, || {
                        let _ = vs.get_array_ref::<u8>(o, c).map(|a| (a.len(), a.element_size(), a.is_empty(), a.to_slice().len()));
                        let _ = vs.get_array_ref::<u16>(o, c).map(|a| a.to_slice().len());
                        let _ = vs.get_array_ref::<u64>(o, c).map(|a| a.to_slice().len());
                        let _ = vs.get_array_ref::<[u8; 3]>(o, c).map(|a| a.to_slice().len());
                        let _ = vs.get_array_ref::<u128>(o, c).map(|a| a.to_slice().len());
                    });
                    r.call("slice.streams", len as u64, ou, cu, || {
                        let mut src: &[u8] = &src_data;
                        let _ = vs.read_volatile_from(o, &mut src, c);
                        let mut src: &[u8] = &src_data;
                        let _ = vs.read_exact_volatile_from(o, &mut src, c);
                        let mut sink: Vec<u8> = Vec::new();
                        let _ = vs.write_volatile_to(o, &mut sink, c);
                        let mut sink: Vec<u8> = Vec::new();
                        let _ = vs.write_all_volatile_to(o, &mut sink, c);
                    });
                    if c <= 5000 {
                        r.call("slice.write/read", len as u64, ou, cu, || {
                            let mut buf = vec![0x44u8; c];
                            let _ = vs.write(&buf, o);
                            let _ = vs.read(&mut buf, o);
                            let _ = vs.write_slice(&buf, o);
                            let _ = vs.read_slice(&mut buf, o);
                        });
                        if o <= len {
                            r.call("slice.copies", len as u64, ou, cu, || {
                                if let Ok(sub) = vs.offset(o) {
                                    let mut b8 = vec![0u8; c];
                                    let _ = sub.copy_to(&mut b8);
                                    sub.copy_from(&b8);
                                    let mut b16 = vec![0u16; c.min(64)];
                                    let _ = sub.copy_to(&mut b16);
                                    sub.copy_from(&b16);
                                    let mut b128 = vec![0u128; c.min(8)];
                                    let _ = sub.copy_to(&mut b128);
                                    sub.copy_from(&b128);
                                    if let Ok(dst) = vs.subslice(0, c.min(len)) {
                                        sub.copy_to_volatile_slice(dst);
                                    }
                                    if let Ok(a) = sub.get_array_ref::<u32>(0, sub.len() / 4) {
                                        let mut b32 = vec![0u32; c.min(32)];
                                        let _ = a.copy_to(&mut b32);
                                        a.copy_from(&b32);
                                        a.copy_to_volatile_slice(vs);
                                    }
                                }
                            });
                        }
                    }
                }
            }
        }
    }
}

fn bitmap_level(r: &Run) {
    // (initial byte size, page size, amounts the bitmap is enlarged by afterwards - a program
    // action; what is probed with guest-controlled values is the bitmap it leaves behind)
    let configs: Vec<(usize, usize, Vec<usize>)> = vec![
        (0, 1, vec![]),
        (1, 1, vec![]),
        (130, 1, vec![]),
        (64 * 4096, 4096, vec![]),
        (64 * 4096 + 1, 4096, vec![]),
        (100, 7, vec![]),
        (5, 4096, vec![]),
        (1 << 20, 3, vec![]),
        // growth by a part of a page, within a word, across a word boundary, in several steps
        (64 * 4096, 4096, vec![0x800]),
        (64 * 4096, 4096, vec![4096]),
        (63 * 4096, 4096, vec![0x800, 0x800, 1]),
        (59 * 4096 + 2048, 4096, vec![4 * 4096 + 2500]),
        (60, 1, vec![3, 1, 1, 64]),
        (0, 7, vec![1, 6, 1]),
        (128 * 3, 3, vec![1, 1, 1, 1]),
        (1, 4096, vec![4095, 1]),
    ];
    for (bytes0, page, grow) in configs {
        let mut bm = AtomicBitmap::new(bytes0, NonZeroUsize::new(page).unwrap());
        for g in &grow {
            bm.enlarge(*g);
        }
        let bm = bm;
        let bytes = bytes0 + grow.iter().sum::<usize>();
        let mut vals = count_set(&[bytes, bytes0, bytes / page.max(1), bytes.div_ceil(page.max(1)), page, 64 * page]);
        vals.extend([usize::MAX / 2, usize::MAX / page, (usize::MAX / page).saturating_add(1)]);
        r.call("bitmap.queries", bytes as u64, page as u64, 0, || {
            let _ = bm.len();
            let _ = bm.byte_size();
            let _ = bm.clone().get_and_reset();
        });
        for &a in &vals {
            let au = a as u64;
            r.call("bitmap.bits", bytes as u64, page as u64, au, || {
                bm.set_bit(a);
                let _ = bm.is_bit_set(a);
                bm.reset_bit(a);
                let _ = bm.is_addr_set(a);
                let _ = bm.dirty_at(a);
            });
            for &l in &vals {
                r.call("bitmap.ranges", page as u64, au, l as u64, || {
                    bm.set_addr_range(a, l);
                    bm.reset_addr_range(a, l);
                    bm.mark_dirty(a, l);
                    let _ = bm.get_and_reset();
                });
                r.call("bitmap.slices", page as u64, au, l as u64, || {
                    let s = bm.slice_at(a);
                    s.mark_dirty(l, 1);
                    s.mark_dirty(0, l);
                    let _ = s.dirty_at(l);
                    let s2 = s.slice_at(l);
                    s2.mark_dirty(a, l);
                    let _ = s2.dirty_at(a);
                    let o = Some(AtomicBitmap::new(bytes.min(4096), NonZeroUsize::new(page).unwrap()));
                    o.mark_dirty(a, l);
                    let _ = o.dirty_at(a);
                    let _ = o.slice_at(a).dirty_at(l);
                    bm.reset();
                });
            }
        }
    }
}

pub fn run(tier: Tier, replay: Option<String>) -> i32 {
    let ctx = crate::new_ctx("C07", tier, "exploration", &replay);
    let profile: &'static str = if cfg!(debug_assertions) { "overflow-checked (dev) profile" } else { "release profile (overflow checks off)" };
    ctx.set_rule("every public access/query entry point of guest memory (mmap collection and trait-default implementation), regions, volatile slices, typed/array/atomic accessors, bitmaps (fresh and after enlarge by page parts, within and across a 64-page word) and stream helpers x every address in {0, 1, region starts/ends +-1, 2^32+-1, 2^63+-1, 2^64-9..2^64-1} x every count/offset/element count in {0,1,2,7,8,9, every region/slice length +-1, values around isize::MAX and usize::MAX, pointer-overflowing values} x layouts with no region at all and with regions of 1 and 4097 bytes at the bottom, in the middle and at the very top of the address space; every call runs under catch_unwind plus a SIGABRT/SIGSEGV/SIGFPE handler and a watchdog (no progress for 20 s = endless loop), in the overflow-checked profile and in the release profile. Outcome required: the call returns (Ok or Err). One case = one call group; non-trivial = at least one argument beyond 4096; distinct by construction.");
    ctx.assume("program-controlled arguments (element type, the amount a bitmap is enlarged by - bitmaps that were enlarged are probed like fresh ones -, non-power-of-two alignment, out-of-range array index - the documented panic) are not in the alphabet");
    if ctx.replay_of.is_some() {
        println!("replay: deterministic enumeration; re-running it");
    }
    THOROUGH.store(tier.thorough(), Ordering::Relaxed);
    // watchdog: no heartbeat for 20 s while the sweep is running = a call that does not return
    let done = std::sync::Arc::new(std::sync::atomic::AtomicBool::new(false));
    {
        let done = done.clone();
        let prop_out = std::env::var("VERIF_OUT").unwrap_or_else(|_| "/verif".into());
        std::thread::spawn(move || {
            let mut last = 0;
            let mut stalled = 0;
            while !done.load(Ordering::Relaxed) {
                std::thread::sleep(std::time::Duration::from_secs(2));
                let h = HEARTBEAT.load(Ordering::Relaxed);
                if h == last && h > 0 {
                    stalled += 1;
                } else {
                    stalled = 0;
                }
                last = h;
                if stalled >= 10 {
                    let name = *CUR_NAME.lock().unwrap();
                    let path = format!("{}/replays/C07-hang.json", prop_out);
                    let body = json!({"property": "C07", "key": "C07/hang", "detail": "a call did not return within 20 s", "group": name,
                        "case": {"args": [CUR[0].load(Ordering::Relaxed), CUR[1].load(Ordering::Relaxed), CUR[2].load(Ordering::Relaxed)]}});
                    let _ = std::fs::write(&path, body.to_string());
                    println!("  key=C07/hang detail=a call in group {} did not return within 20 s", name);
                    println!("VIOLATION property=C07 replay={}", path);
                    std::process::exit(1);
                }
            }
        });
    }
    let set_group = |g: &'static str| *CUR_NAME.lock().unwrap() = g;
    // layouts
    let mut layouts: Vec<(&'static str, Layout, bool)> = Vec::new();
    for (name, size) in [("1-byte-regions", 1u64), ("4097-byte-regions", 4097)] {
        let _ = name;
        layouts.push(("mmap", Layout { regs: vec![(0, size), ((1 << 32) - 1, size), (u64::MAX - size, size)] }, false));
        layouts.push(("mock", Layout { regs: vec![(0, size), ((1 << 63) - 1, size), (u64::MAX - size + 1, size)] }, true));
        layouts.push(("mmap", Layout { regs: vec![(1, size), (1 + size, size)] }, false));
    }
    // no regions at all (GuestMemoryMmap::new(), or what remove_region leaves behind at the end)
    layouts.push(("mmap", Layout { regs: vec![] }, false));
    if tier.thorough() {
        layouts.push(("mmap", Layout { regs: vec![(0x1000, 4096), (0x2000, 1), (0x2001, 4095), (0x4000, 8192)] }, false));
        layouts.push(("mock", Layout { regs: vec![(0, 1), (1, 1), (u64::MAX - 1, 1), (u64::MAX, 1)] }, true));
        layouts.push(("mmap", Layout { regs: vec![(u64::MAX - 8192, 4096), (u64::MAX - 4096, 4096)] }, false));
    }
    for (imp, l, mock) in &layouts {
        if *mock {
            set_group("guest-memory(trait defaults)");
            let r = Run { ctx: &ctx, profile, group: "guest-memory(trait defaults)" };
            let m = MockMemory::new(l);
            memory_level(&r, &m, l);
        } else {
            set_group("guest-memory(mmap)");
            let r = Run { ctx: &ctx, profile, group: "guest-memory(mmap)" };
            match crate::layouts::build_mmap(l) {
                Ok(m) => memory_level(&r, &m, l),
                Err(e) => ctx.machinery(&format!("cannot build {} {}: {}", imp, l.describe(), e)),
            }
        }
    }
    set_group("volatile-slice");
    slice_level(&Run { ctx: &ctx, profile, group: "volatile-slice" });
    set_group("bitmap");
    bitmap_level(&Run { ctx: &ctx, profile, group: "bitmap" });
    done.store(true, Ordering::Relaxed);
    ctx.extra("profile", json!(profile));
    ctx.sample(json!({"group": "guest-memory(mmap)", "layout": "[0x0,+4097) [0xffffffff,+4097) [0xffffffffffffeffe,+4097)", "entry_point": "read_volatile_from", "args": ["0xfffffffffffffffe (address)", "0xffffffffffffffff (count)"], "required": "returns Ok or Err"}));
    ctx.sample(json!({"group": "bitmap", "config": "byte_size 262145, page 4096", "entry_point": "set_addr_range", "args": ["0xfffffffffffffff7", "0x7fffffffffffffff"]}));
    ctx.set_exhaustive(true);
    ctx.finish()
}
