use crate::report::Tier;

pub mod c01;
pub mod c02;
pub mod c03;
pub mod c04;
pub mod c05;
#[cfg(not(feature = "xen"))]
pub mod c06;
pub mod c07;
#[cfg(not(feature = "xen"))]
pub mod c08;
pub mod c09;
pub mod c10;
#[cfg(not(feature = "xen"))]
pub mod c11;
pub mod c12;
pub mod c13;
pub mod c14;
pub mod c15;
pub mod c17;
pub mod c18;
pub mod c19;
pub mod c20;

pub fn dispatch(prop: &str, tier: Tier, replay: Option<String>) -> i32 {
    match prop {
        "C01" => c01::run(tier, replay),
        "C02" => c02::run(tier, replay),
        "C03" => c03::run(tier, replay),
        "C04" => c04::run(tier, replay),
        "C05" => c05::run("C05", tier, replay),
        #[cfg(not(feature = "xen"))]
        "C06" => c06::run(tier, replay),
        "C07" => c07::run(tier, replay),
        #[cfg(not(feature = "xen"))]
        "C08" => c08::run(tier, replay),
        "C09" => c09::run(tier, replay),
        "C10" => c10::run(tier, replay),
        #[cfg(not(feature = "xen"))]
        "C11" => c11::run(tier, replay),
        "C12" => c12::run(tier, replay),
        "C13" => c13::run(tier, replay),
        "C14" => c14::run(tier, replay),
        "C15" => c15::run(tier, replay),
        "C17" => c17::run(tier, replay),
        "C18" => c18::run(tier, replay),
        "C16" => c05::run("C16", tier, replay),
        "C19" => c19::run(tier, replay),
        "C20" => c20::run(tier, replay),
        _ => {
            eprintln!("MACHINERY: unknown or unsupported property {} in this build", prop);
            2
        }
    }
}
