//! C19 — address arithmetic reports overflow instead of wrapping into a valid address.

use crate::report::{Ctx, Tier};
use serde_json::json;
use vm_memory::{Address, GuestAddress, MemoryRegionAddress};

#[allow(dead_code, unused_imports, clippy::all)]
mod copy {
    include!(concat!(env!("OUT_DIR"), "/address_copy.rs"));

    #[derive(Clone, Copy, Debug, Eq, PartialEq, Ord, PartialOrd)]
    pub struct A8(pub u8);
    impl_address_ops!(A8, u8);

    #[derive(Clone, Copy, Debug, Eq, PartialEq, Ord, PartialOrd)]
    pub struct A16(pub u16);
    impl_address_ops!(A16, u16);
}

use copy::Address as CAddress;

/// Checks every operation for one operand pair at width `bits`, given closures over the real ops.
macro_rules! check_pair {
    ($ctx:expr, $name:expr, $T:ident, $V:ty, $bits:expr, $a:expr, $b:expr, $tr:path) => {{
        use $tr as Tr;
        let a: $V = $a;
        let b: $V = $b;
        let (wa, wb) = (a as u128, b as u128);
        let modulus: u128 = 1u128 << $bits;
        let x = $T(a);
        let mut bad: Option<(&str, String)> = None;
        // checked / overflowing add
        let sum = wa + wb;
        let want = (sum < modulus).then(|| sum);
        if Tr::checked_add(&x, b).map(|r| r.0 as u128) != want {
            bad = Some(("checked_add", format!("{:?}", Tr::checked_add(&x, b))));
        }
        let (r, o) = Tr::overflowing_add(&x, b);
        if r.0 as u128 != sum % modulus || o != (sum >= modulus) {
            bad = Some(("overflowing_add", format!("({:?}, {})", r, o)));
        }
        if sum < modulus && Tr::unchecked_add(&x, b).0 as u128 != sum {
            bad = Some(("unchecked_add", "".into()));
        }
        // checked / overflowing sub, distance
        let want = (wa >= wb).then(|| wa - wb);
        if Tr::checked_sub(&x, b).map(|r| r.0 as u128) != want {
            bad = Some(("checked_sub", format!("{:?}", Tr::checked_sub(&x, b))));
        }
        let (r, o) = Tr::overflowing_sub(&x, b);
        if r.0 as u128 != (wa + modulus - wb) % modulus || o != (wa < wb) {
            bad = Some(("overflowing_sub", format!("({:?}, {})", r, o)));
        }
        if wa >= wb {
            if Tr::unchecked_sub(&x, b).0 as u128 != wa - wb {
                bad = Some(("unchecked_sub", "".into()));
            }
            if Tr::unchecked_offset_from(&x, $T(b)) as u128 != wa - wb {
                bad = Some(("unchecked_offset_from", "".into()));
            }
        }
        if Tr::checked_offset_from(&x, $T(b)).map(|r| r as u128) != want {
            bad = Some(("checked_offset_from", format!("{:?}", Tr::checked_offset_from(&x, $T(b)))));
        }
        // mask and bit operations act on the raw value
        if Tr::mask(&x, b) != a & b || (x & b).0 != a & b || (x | b).0 != a | b {
            bad = Some(("mask/bitand/bitor", "".into()));
        }
        // ordering and equality follow the raw values
        let y = $T(b);
        if (x < y) != (a < b) || (x == y) != (a == b) || (x <= y) != (a <= b) || x.cmp(&y) != a.cmp(&b) || x.max(y).0 != a.max(b) {
            bad = Some(("ordering", "".into()));
        }
        if Tr::raw_value(&x) != a || <$T as Tr>::new(a) != x {
            bad = Some(("new/raw_value", "".into()));
        }
        // align up for every power of two (b's low bits select the exponent)
        let e = (b as u32) % $bits;
        let p: u128 = 1u128 << e;
        let up = (wa + p - 1) / p * p;
        let want = (up < modulus).then(|| up);
        if Tr::checked_align_up(&x, p as $V).map(|r| r.0 as u128) != want {
            bad = Some(("checked_align_up", format!("align {} -> {:?}, expected {:?}", p, Tr::checked_align_up(&x, p as $V), want)));
        }
        if up < modulus && wa + p - 1 < modulus && Tr::unchecked_align_up(&x, p as $V).0 as u128 != up {
            bad = Some(("unchecked_align_up", "".into()));
        }
        if let Some((op, d)) = bad {
            let key = format!("C19/{}/{}", $name, op);
            $ctx.fail(&key, &format!("a={:#x} b={:#x}: {}", a, b, d), json!({"type": $name, "a": format!("{:#x}", a), "b": format!("{:#x}", b), "op": op}));
        }
    }};
}

fn grid64() -> Vec<u64> {
    let mut v = Vec::new();
    for c in [0u128, 1 << 8, 1 << 16, 1 << 31, 1 << 32, 1 << 63, 1 << 64] {
        for d in -4i128..=4 {
            let x = c as i128 + d;
            if x >= 0 && x < (1i128 << 64) {
                v.push(x as u64);
            }
        }
    }
    v.sort();
    v.dedup();
    v
}

pub fn run(tier: Tier, replay: Option<String>) -> i32 {
    let ctx = crate::new_ctx("C19", tier, "exploration", &replay);
    ctx.set_rule("impl_address_ops! and the Address default methods are compiled from the current tree's src/address.rs and instantiated at width 8 (and 16 in the thorough tier): every operand pair (2^16 resp. 2^32) x every operation (checked/overflowing/unchecked add and sub, checked/unchecked offset_from, mask, &, |, ordering, equality, new/raw_value, checked/unchecked align_up with every power of two) against u128 arithmetic; the crate's own GuestAddress and MemoryRegionAddress (width 64) on the grid of all values within +-4 of {0, 2^8, 2^16, 2^31, 2^32, 2^63, 2^64} squared and all 64 alignments. A case is one operand pair (all operations); non-trivial = the exact result of at least one operation does not fit the width; distinct by construction.");
    ctx.assume("the operations are width-generic (one macro, one trait): exhaustiveness at width 8/16 plus the boundary grid at width 64 stands for the 64-bit space; unchecked_* are compared only where no overflow occurs; non-power-of-two alignments panic by documentation and are excluded");
    // width 8: all pairs
    for a in 0..=u8::MAX {
        for b in 0..=u8::MAX {
            let nontrivial = a as u32 + b as u32 > 255 || a < b;
            ctx.case(nontrivial);
            check_pair!(ctx, "width8", A8, u8, 8, a, b, copy::Address);
        }
    }
    use copy::{A16, A8};
    if tier.thorough() {
        std::thread::scope(|s| {
            let ctx = &ctx;
            for t in 0..16u32 {
                s.spawn(move || {
                    let (mut n, mut nt) = (0u64, 0u64);
                    for a in (t * 4096)..((t + 1) * 4096) {
                        for b in 0..=u16::MAX {
                            let (a, b) = (a as u16, b);
                            n += 1;
                            nt += (a as u32 + b as u32 > 65535 || a < b) as u64;
                            check_pair!(ctx, "width16", A16, u16, 16, a, b, copy::Address);
                        }
                    }
                    ctx.evaluations.fetch_add(n, std::sync::atomic::Ordering::Relaxed);
                    ctx.nontrivial.fetch_add(nt, std::sync::atomic::Ordering::Relaxed);
                });
            }
        });
    } else {
        // boundary grid at width 16
        let g: Vec<u16> = (0..=20).chain(120..=136).chain(250..=262).chain(32760..=32776).chain(65515..=65535).collect();
        for &a in &g {
            for &b in &g {
                ctx.case(a as u32 + b as u32 > 65535 || a < b);
                check_pair!(ctx, "width16", A16, u16, 16, a, b, copy::Address);
            }
        }
    }
    // width 64: the crate's own types
    let g = grid64();
    for &a in &g {
        for &b in &g {
            ctx.case(a.checked_add(b).is_none() || a < b);
            check_pair!(ctx, "GuestAddress", GuestAddress, u64, 64, a, b, vm_memory::Address);
            check_pair!(ctx, "MemoryRegionAddress", MemoryRegionAddress, u64, 64, a, b, vm_memory::Address);
        }
        for e in 0..64u32 {
            // all 64 alignments for every grid value
            let p = 1u128 << e;
            let up = (a as u128 + p - 1) / p * p;
            let want = (up < (1u128 << 64)).then(|| up as u64);
            ctx.case(want.is_none());
            let got = GuestAddress(a).checked_align_up(p as u64).map(|x| x.0);
            let got2 = MemoryRegionAddress(a).checked_align_up(p as u64).map(|x| x.0);
            if got != want || got2 != want {
                ctx.fail("C19/GuestAddress/checked_align_up", &format!("a={:#x} align=2^{}: {:?}, expected {:?}", a, e, got, want), json!({"a": format!("{:#x}", a), "align_log2": e}));
            }
        }
    }
    let _ = A8(0).raw_value();
    if GuestAddress::default() != GuestAddress(0) || MemoryRegionAddress::default().0 != 0 {
        ctx.fail("C19/default", "default address is not 0", json!({}));
    }
    ctx.sample(json!({"type": "width8", "a": "0xf9", "b": "0x08", "checks": "checked_add -> None, overflowing_add -> (0x01, true), checked_align_up(2^3) -> None (0x100 does not fit)"}));
    ctx.sample(json!({"type": "GuestAddress", "a": "0xfffffffffffffffd", "b": "0x4", "checks": "checked_add -> None; checked_sub -> Some(0xfffffffffffffff9); checked_align_up(2^2) -> None"}));
    ctx.extra("width64_grid_values", json!(g.len()));
    ctx.set_exhaustive(true);
    ctx.finish()
}
