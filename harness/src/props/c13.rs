//! C13 — volatile stream adapters transfer data exactly like their std::io counterparts.

use super::c04::Local;
use crate::layouts::tempfile;
use crate::report::{hex, Ctx, Tier};
use serde_json::json;
use std::io::{Cursor, ErrorKind, Read, Seek, SeekFrom, Write};
use std::os::fd::{AsFd, AsRawFd, OwnedFd};
use vm_memory::{ReadVolatile, VolatileMemoryError, VolatileSlice, WriteVolatile};

#[derive(Clone, Debug, PartialEq)]
enum R {
    N(usize),
    Unit,
    Eof,
    WriteZero,
    OtherErr(String),
}

fn vr<T>(r: Result<T, VolatileMemoryError>, f: impl FnOnce(T) -> R) -> R {
    match r {
        Ok(v) => f(v),
        Err(VolatileMemoryError::IOError(e)) => match e.kind() {
            ErrorKind::UnexpectedEof => R::Eof,
            ErrorKind::WriteZero => R::WriteZero,
            k => R::OtherErr(format!("{:?}", k)),
        },
        Err(e) => R::OtherErr(format!("{:?}", e)),
    }
}

fn sr<T>(r: std::io::Result<T>, f: impl FnOnce(T) -> R) -> R {
    match r {
        Ok(v) => f(v),
        Err(e) => match e.kind() {
            ErrorKind::UnexpectedEof => R::Eof,
            ErrorKind::WriteZero => R::WriteZero,
            k => R::OtherErr(format!("{:?}", k)),
        },
    }
}

fn content(n: usize) -> Vec<u8> {
    // (no short period: the high bits of the index are mixed in)
    (0..n).map(|i| 0x30u8.wrapping_add(i as u8).wrapping_add(((i >> 8) as u8).wrapping_mul(7))).collect()
}

#[derive(Clone, Copy, Debug)]
struct Call {
    len: usize,
    exact: bool,
    mis: usize,
}

fn sequences(thorough: bool) -> Vec<Vec<Call>> {
    let mut v = Vec::new();
    // single calls: every buffer length 0..=20, both forms, two misalignment classes
    for len in 0..=20usize {
        for exact in [false, true] {
            for mis in [0usize, 3] {
                v.push(vec![Call { len, exact, mis }]);
            }
        }
    }
    // two and three consecutive calls
    let lens: &[usize] = if thorough { &[0, 1, 2, 3, 7, 8, 9, 13, 20] } else { &[0, 1, 3, 8, 9, 20] };
    for &a in lens {
        for &b in lens {
            for ea in [false, true] {
                for eb in [false, true] {
                    v.push(vec![Call { len: a, exact: ea, mis: 1 }, Call { len: b, exact: eb, mis: 6 }]);
                    for &c in lens {
                        if thorough || (c % 2 == 1) {
                            v.push(vec![Call { len: a, exact: ea, mis: 1 }, Call { len: b, exact: eb, mis: 6 }, Call { len: c, exact: ea != eb, mis: 0 }]);
                        }
                    }
                }
            }
        }
    }
    // alignment combinations: the first call leaves the stream at every address mod 8, the second
    // moves 1, 2, 3, 4 or 8 bytes into a buffer of every alignment class (a transfer may be
    // carried out differently when one side is aligned and the other is not)
    for a in 0..8usize {
        for b in [2usize, 4, 8, 1, 3] {
            for mis in [0usize, 1, 2, 4] {
                for eb in [true, false] {
                    v.push(vec![Call { len: a, exact: false, mis: 0 }, Call { len: b, exact: eb, mis }, Call { len: 2, exact: !eb, mis: 0 }]);
                }
            }
        }
    }
    if thorough {
        // four consecutive calls over the lengths around the small-copy threshold
        let l4 = [0usize, 1, 8, 9];
        for &a in &l4 {
            for &b in &l4 {
                for &c in &l4 {
                    for &d in &l4 {
                        for e in 0..16u32 {
                            v.push(vec![
                                Call { len: a, exact: e & 1 != 0, mis: 1 },
                                Call { len: b, exact: e & 2 != 0, mis: 6 },
                                Call { len: c, exact: e & 4 != 0, mis: 0 },
                                Call { len: d, exact: e & 8 != 0, mis: 3 },
                            ]);
                        }
                    }
                }
            }
        }
    }
    v
}

fn positions() -> Vec<u64> {
    (0..=22u64).chain([u64::MAX - 1, u64::MAX]).collect()
}

struct Rep<'a> {
    ctx: &'a Ctx,
    adapter: &'static str,
}

impl Rep<'_> {
    fn bad(&self, what: &str, l: usize, pos: u64, seq: &[Call], i: usize, detail: String) {
        let key = format!("C13/{}/{}", self.adapter, what);
        let rp = if self.ctx.has_failed(&key) {
            serde_json::Value::Null
        } else {
            json!({"adapter": self.adapter, "stream_len": l, "position": pos, "calls": format!("{:?}", seq), "failing_call": i})
        };
        self.ctx.fail(&key, &format!("stream len {} pos {} calls {:?} call #{}: {}", l, pos, seq, i, detail), rp);
    }
}

/// Drives one volatile reader and its std twin through `seq`. `state` renders the comparable
/// stream state (remaining bytes / position).
fn drive_reader<A: ReadVolatile, B: Read>(rep: &Rep, l: usize, pos: u64, seq: &[Call], a: &mut A, b: &mut B, state: &dyn Fn(&A, &B) -> (String, String)) {
    crate::crash::beat_label(rep.adapter);
    for (i, c) in seq.iter().enumerate() {
        let mut vbuf = Local::new(c.len, c.mis, &[]);
        let mut pbuf = vec![0xEEu8; c.len];
        let p = vbuf.slice_mut().as_mut_ptr();
        // SAFETY: vbuf outlives the slice
        let mut vs = unsafe { VolatileSlice::new(p, c.len) };
        let (ra, rb) = if c.exact {
            (vr(a.read_exact_volatile(&mut vs), |_| R::Unit), sr(b.read_exact(&mut pbuf), |_| R::Unit))
        } else {
            (vr(a.read_volatile(&mut vs), R::N), sr(b.read(&mut pbuf), R::N))
        };
        rep.ctx.case(c.len > 0);
        crate::crash::beat();
        if ra != rb {
            // one specific divergence has its own key (std receives with recv(2), which reports
            // EAGAIN for an empty buffer on an idle non-blocking socket; read(2) returns 0)
            let idle_empty = c.len == 0 && matches!(ra, R::N(0) | R::Unit) && rb == R::OtherErr("WouldBlock".into());
            rep.bad(if idle_empty { "result/empty-buffer-on-an-idle-non-blocking-socket" } else { "result" }, l, pos, seq, i, format!("volatile {:?} vs std {:?}", ra, rb));
            if idle_empty {
                continue;
            }
            return;
        }
        if !vbuf.canaries_ok() {
            rep.bad("wrote-outside-buffer", l, pos, seq, i, "bytes outside the volatile buffer changed".into());
            return;
        }
        let failed = matches!(ra, R::Eof | R::WriteZero | R::OtherErr(_));
        if !failed && vbuf.slice() != &pbuf[..] {
            rep.bad("bytes", l, pos, seq, i, format!("volatile buffer {} vs std buffer {}", hex(vbuf.slice()), hex(&pbuf)));
            return;
        }
        if failed && c.exact {
            // std leaves the stream state after a failed read_exact unspecified
            return;
        }
        let (sa, sb) = state(a, b);
        if sa != sb {
            rep.bad("stream-state", l, pos, seq, i, format!("volatile stream state {} vs std {}", sa, sb));
            return;
        }
    }
}

fn drive_writer<A: WriteVolatile, B: Write>(rep: &Rep, l: usize, pos: u64, seq: &[Call], a: &mut A, b: &mut B, state: &dyn Fn(&A, &B) -> (String, String)) {
    crate::crash::beat_label(rep.adapter);
    for (i, c) in seq.iter().enumerate() {
        let data: Vec<u8> = (0..c.len).map(|j| 0x80u8.wrapping_add((i * 32 + j + (j >> 8) * 7) as u8)).collect();
        let mut vbuf = Local::new(c.len, c.mis, &data);
        let p = vbuf.slice_mut().as_mut_ptr();
        // SAFETY: vbuf outlives the slice
        let vs = unsafe { VolatileSlice::new(p, c.len) };
        let (ra, rb) = if c.exact {
            (vr(a.write_all_volatile(&vs), |_| R::Unit), sr(b.write_all(&data), |_| R::Unit))
        } else {
            (vr(a.write_volatile(&vs), R::N), sr(b.write(&data), R::N))
        };
        rep.ctx.case(c.len > 0);
        crate::crash::beat();
        if ra != rb {
            rep.bad("result", l, pos, seq, i, format!("volatile {:?} vs std {:?}", ra, rb));
            return;
        }
        if !vbuf.canaries_ok() || vbuf.slice() != &data[..] {
            rep.bad("source-buffer-changed", l, pos, seq, i, "the volatile source buffer or its surroundings changed".into());
            return;
        }
        let failed = matches!(ra, R::Eof | R::WriteZero | R::OtherErr(_));
        // a failed write_all is compared too: what std's sinks do with the part that fits and
        // with their position is fixed by their write(), which write_all is documented to call
        // until it fails
        let (sa, sb) = state(a, b);
        if sa != sb {
            rep.bad(if failed && c.exact { "stream-state-after-failed-write_all" } else { "stream-state" }, l, pos, seq, i, format!("volatile sink state {} vs std {}", sa, sb));
            return;
        }
        if failed && c.exact {
            return;
        }
    }
}

fn in_memory(ctx: &Ctx, thorough: bool) {
    let seqs = sequences(thorough);
    let small: Vec<usize> = (0..=20).collect();
    in_memory_cfg(ctx, &small, &seqs, &positions(), thorough);
    // long streams and buffers (around one page and 2^16): single calls and pairs
    let big = [4095usize, 4096, 4097, 65536, 65537];
    let mut seqs: Vec<Vec<Call>> = Vec::new();
    for &a in &big {
        for ea in [false, true] {
            seqs.push(vec![Call { len: a, exact: ea, mis: 3 }]);
            for &b in &[1usize, 4096, 65537] {
                seqs.push(vec![Call { len: a, exact: ea, mis: 0 }, Call { len: b, exact: !ea, mis: 5 }]);
            }
        }
    }
    for l in [4096usize, 65537, 70001] {
        in_memory_cfg(ctx, &[l], &seqs, &[0, 1, l as u64 - 4096, l as u64 - 1, l as u64, l as u64 + 1], true);
    }
    // transfers around 2^20 and 2^21 bytes (thorough: 2^24) in one call: no adapter caps a copy
    const M: usize = 1 << 20;
    let mut huge = vec![M - 1, M, M + 1, 2 * M + 3];
    if thorough {
        huge.extend([16 * M - 1, 16 * M + 1]);
    }
    let mut seqs: Vec<Vec<Call>> = Vec::new();
    for &a in &huge {
        for ea in [false, true] {
            seqs.push(vec![Call { len: a, exact: ea, mis: 1 }]);
            if ea && a != M {
                seqs.push(vec![Call { len: a, exact: ea, mis: 0 }, Call { len: 5, exact: !ea, mis: 2 }]);
            }
        }
    }
    let mut lens = vec![M + 1, 2 * M + 7];
    if thorough {
        lens.push(16 * M + 5);
    }
    for l in lens {
        in_memory_cfg(ctx, &[l], &seqs, &[0, 3, l as u64 - M as u64 - 1], false);
    }
}

fn in_memory_cfg(ctx: &Ctx, lens: &[usize], seqs: &[Vec<Call>], positions: &[u64], thorough: bool) {
    for &l in lens {
        let data = content(l);
        for seq in seqs {
            // &[u8]
            {
                let rep = Rep { ctx, adapter: "&[u8]" };
                let (mut a, mut b): (&[u8], &[u8]) = (&data, &data);
                drive_reader(&rep, l, 0, seq, &mut a, &mut b, &|a, b| (hex(a), hex(b)));
            }
            // &mut [u8]
            {
                let rep = Rep { ctx, adapter: "&mut [u8]" };
                let (mut da, mut db) = (data.clone(), data.clone());
                let (mut a, mut b): (&mut [u8], &mut [u8]) = (&mut da, &mut db);
                drive_writer(&rep, l, 0, seq, &mut a, &mut b, &|a, b| (format!("remaining {}", a.len()), format!("remaining {}", b.len())));
                if da != db {
                    rep.bad("bytes", l, 0, seq, 0, format!("sink holds {} vs std {}", hex(&da), hex(&db)));
                }
            }
            // Vec<u8>
            {
                let rep = Rep { ctx, adapter: "Vec<u8>" };
                let (mut a, mut b) = (data.clone(), data.clone());
                drive_writer(&rep, l, 0, seq, &mut a, &mut b, &|a, b| (hex(a), hex(b)));
            }
            for &pos in positions {
                {
                    let rep = Rep { ctx, adapter: "Cursor<&[u8]>" };
                    let (mut a, mut b) = (Cursor::new(&data[..]), Cursor::new(&data[..]));
                    a.set_position(pos);
                    b.set_position(pos);
                    drive_reader(&rep, l, pos, seq, &mut a, &mut b, &|a, b| (format!("pos {}", a.position()), format!("pos {}", b.position())));
                }
                if pos % 3 == 0 || pos > 22 || thorough {
                    let rep = Rep { ctx, adapter: "Cursor<Vec<u8>>" };
                    let (mut a, mut b) = (Cursor::new(data.clone()), Cursor::new(data.clone()));
                    a.set_position(pos);
                    b.set_position(pos);
                    drive_reader(&rep, l, pos, seq, &mut a, &mut b, &|a, b| (format!("pos {}", a.position()), format!("pos {}", b.position())));
                }
                {
                    let rep = Rep { ctx, adapter: "Cursor<&mut [u8]>" };
                    let (mut da, mut db) = (data.clone(), data.clone());
                    {
                        let (mut a, mut b) = (Cursor::new(&mut da[..]), Cursor::new(&mut db[..]));
                        a.set_position(pos);
                        b.set_position(pos);
                        drive_writer(&rep, l, pos, seq, &mut a, &mut b, &|a, b| (format!("pos {}", a.position()), format!("pos {}", b.position())));
                    }
                    if da != db {
                        rep.bad("bytes", l, pos, seq, 0, format!("sink holds {} vs std {}", hex(&da), hex(&db)));
                    }
                }
            }
        }
    }
}

fn file_with(data: &[u8], pos: u64) -> std::fs::File {
    let mut f = tempfile().unwrap();
    f.write_all(data).unwrap();
    f.seek(SeekFrom::Start(pos)).unwrap();
    f
}

fn file_state(f: &std::fs::File) -> String {
    let mut g = f.try_clone().unwrap();
    let pos = g.stream_position().unwrap();
    let mut all = Vec::new();
    g.seek(SeekFrom::Start(0)).unwrap();
    g.read_to_end(&mut all).unwrap();
    g.seek(SeekFrom::Start(pos)).unwrap();
    format!("pos {} contents {}", pos, hex(&all))
}

fn fd_adapters(ctx: &Ctx, thorough: bool) -> Vec<String> {
    let mut not_exercised = Vec::new();
    let lens: Vec<usize> = if thorough { (0..=9).collect() } else { vec![0, 1, 5, 8, 9] };
    let mut seqs: Vec<Vec<Call>> = Vec::new();
    for &a in &lens {
        for ea in [false, true] {
            seqs.push(vec![Call { len: a, exact: ea, mis: 2 }]);
            for &b in &lens {
                seqs.push(vec![Call { len: a, exact: ea, mis: 2 }, Call { len: b, exact: !ea, mis: 5 }]);
            }
        }
    }
    for l in [0usize, 1, 4, 8, 9, 12] {
        let data = content(l);
        for pos in [0u64, 1, l as u64, l as u64 + 2] {
            for seq in &seqs {
                // File: read and write at the current position
                {
                    let rep = Rep { ctx, adapter: "File(read)" };
                    let (mut a, mut b) = (file_with(&data, pos), file_with(&data, pos));
                    drive_reader(&rep, l, pos, seq, &mut a, &mut b, &|a, b| (file_state(a), file_state(b)));
                }
                // the same with a kernel that moves at most k bytes per read(2)/write(2): the exact
                // forms need several calls (both the adapter and its std twin see the short calls)
                for k in [1usize, 3] {
                    let short = move |fds: [i32; 2]| -> Box<dyn FnMut(&crate::interpose::IoReq) -> crate::interpose::IoAnswer> {
                        Box::new(move |r: &crate::interpose::IoReq| {
                            if !fds.contains(&r.fd) {
                                return crate::interpose::IoAnswer::Pass;
                            }
                            let n = r.count.min(k);
                            // SAFETY: forwards a shortened request to the kernel
                            let ret = unsafe { libc::syscall(if r.is_read { libc::SYS_read } else { libc::SYS_write }, r.fd as libc::c_long, r.buf, n) };
                            if ret < 0 {
                                crate::interpose::IoAnswer::Err(std::io::Error::last_os_error().raw_os_error().unwrap_or(libc::EIO))
                            } else {
                                crate::interpose::IoAnswer::Ret(ret as usize)
                            }
                        })
                    };
                    // the same with read(2)/write(2) interrupted by a signal before any byte moved:
                    // every m-th call on a descriptor fails with EINTR (std's exact forms retry,
                    // the plain forms report it)
                    let eintr = move |fds: [i32; 2], m: usize| -> Box<dyn FnMut(&crate::interpose::IoReq) -> crate::interpose::IoAnswer> {
                        let mut calls = [0usize; 2];
                        Box::new(move |r: &crate::interpose::IoReq| {
                            let Some(slot) = fds.iter().position(|f| *f == r.fd) else {
                                return crate::interpose::IoAnswer::Pass;
                            };
                            calls[slot] += 1;
                            if (calls[slot] - 1) % m == 0 {
                                return crate::interpose::IoAnswer::Err(libc::EINTR);
                            }
                            let n = r.count.min(k + 1);
                            // SAFETY: forwards a shortened request to the kernel
                            let ret = unsafe { libc::syscall(if r.is_read { libc::SYS_read } else { libc::SYS_write }, r.fd as libc::c_long, r.buf, n) };
                            if ret < 0 {
                                crate::interpose::IoAnswer::Err(std::io::Error::last_os_error().raw_os_error().unwrap_or(libc::EIO))
                            } else {
                                crate::interpose::IoAnswer::Ret(ret as usize)
                            }
                        })
                    };
                    for m in [2usize, 3] {
                        {
                            let rep = Rep { ctx, adapter: "File(read, interrupted syscalls)" };
                            let (mut a, mut b) = (file_with(&data, pos), file_with(&data, pos));
                            let fds = [a.as_raw_fd(), b.as_raw_fd()];
                            crate::interpose::with_io_handler(eintr(fds, m), || drive_reader(&rep, l, pos, seq, &mut a, &mut b, &|_, _| (String::new(), String::new())));
                            let (sa, sb) = (file_state(&a), file_state(&b));
                            if sa != sb {
                                rep.bad("stream-state", l, pos, seq, seq.len(), format!("{} vs {}", sa, sb));
                            }
                        }
                        {
                            let rep = Rep { ctx, adapter: "File(write, interrupted syscalls)" };
                            let (mut a, mut b) = (file_with(&data, pos), file_with(&data, pos));
                            let fds = [a.as_raw_fd(), b.as_raw_fd()];
                            crate::interpose::with_io_handler(eintr(fds, m), || drive_writer(&rep, l, pos, seq, &mut a, &mut b, &|_, _| (String::new(), String::new())));
                            let (sa, sb) = (file_state(&a), file_state(&b));
                            if sa != sb {
                                rep.bad("stream-state", l, pos, seq, seq.len(), format!("{} vs {}", sa, sb));
                            }
                        }
                    }
                    {
                        let rep = Rep { ctx, adapter: "File(read, short syscalls)" };
                        let (mut a, mut b) = (file_with(&data, pos), file_with(&data, pos));
                        let fds = [a.as_raw_fd(), b.as_raw_fd()];
                        crate::interpose::with_io_handler(short(fds), || drive_reader(&rep, l, pos, seq, &mut a, &mut b, &|_, _| (String::new(), String::new())));
                        let (sa, sb) = (file_state(&a), file_state(&b));
                        if sa != sb {
                            rep.bad("stream-state", l, pos, seq, seq.len(), format!("{} vs {}", sa, sb));
                        }
                    }
                    {
                        let rep = Rep { ctx, adapter: "File(write, short syscalls)" };
                        let (mut a, mut b) = (file_with(&data, pos), file_with(&data, pos));
                        let fds = [a.as_raw_fd(), b.as_raw_fd()];
                        crate::interpose::with_io_handler(short(fds), || drive_writer(&rep, l, pos, seq, &mut a, &mut b, &|_, _| (String::new(), String::new())));
                        let (sa, sb) = (file_state(&a), file_state(&b));
                        if sa != sb {
                            rep.bad("stream-state", l, pos, seq, seq.len(), format!("{} vs {}", sa, sb));
                        }
                    }
                }
                {
                    let rep = Rep { ctx, adapter: "File(write)" };
                    let (mut a, mut b) = (file_with(&data, pos), file_with(&data, pos));
                    drive_writer(&rep, l, pos, seq, &mut a, &mut b, &|a, b| (file_state(a), file_state(b)));
                }
                // OwnedFd / BorrowedFd: the crate's impl vs File's std impl on a twin
                {
                    let rep = Rep { ctx, adapter: "OwnedFd(read)" };
                    let fa = file_with(&data, pos);
                    let mut a: OwnedFd = fa.try_clone().unwrap().into();
                    let mut b = file_with(&data, pos);
                    drive_reader(&rep, l, pos, seq, &mut a, &mut b, &|_a, b| (file_state(&fa), file_state(b)));
                }
                {
                    let rep = Rep { ctx, adapter: "BorrowedFd(write)" };
                    let fa = file_with(&data, pos);
                    let mut a = fa.as_fd();
                    let mut b = file_with(&data, pos);
                    drive_writer(&rep, l, pos, seq, &mut a, &mut b, &|_a, b| (file_state(&fa), file_state(b)));
                }
            }
        }
        // UnixStream: data queued in a socket pair
        for seq in &seqs {
            use std::os::unix::net::UnixStream;
            let rep = Rep { ctx, adapter: "UnixStream(read)" };
            let (mut wa, mut a) = UnixStream::pair().unwrap();
            let (mut wb, mut b) = UnixStream::pair().unwrap();
            wa.write_all(&data).unwrap();
            wb.write_all(&data).unwrap();
            drop(wa);
            drop(wb);
            drive_reader(&rep, l, 0, seq, &mut a, &mut b, &|_, _| (String::new(), String::new()));
            let (mut r1, mut r2) = (Vec::new(), Vec::new());
            a.read_to_end(&mut r1).unwrap();
            b.read_to_end(&mut r2).unwrap();
            if r1 != r2 {
                rep.bad("stream-state", l, 0, seq, seq.len(), format!("left in the socket: {} vs {}", hex(&r1), hex(&r2)));
            }
            let rep = Rep { ctx, adapter: "UnixStream(write)" };
            let (mut a, mut ra) = UnixStream::pair().unwrap();
            let (mut b, mut rb) = UnixStream::pair().unwrap();
            drive_writer(&rep, l, 0, seq, &mut a, &mut b, &|_, _| (String::new(), String::new()));
            drop(a);
            drop(b);
            let (mut r1, mut r2) = (Vec::new(), Vec::new());
            ra.read_to_end(&mut r1).unwrap();
            rb.read_to_end(&mut r2).unwrap();
            if r1 != r2 {
                rep.bad("bytes", l, 0, seq, seq.len(), format!("received {} vs {}", hex(&r1), hex(&r2)));
            }
        }
    }
    // non-blocking stream sockets that cannot make progress: std reports WouldBlock (after the
    // partial transfer in the exact forms); an adapter that retries it never returns
    for l in [0usize, 4, 9] {
        use std::os::unix::net::UnixStream;
        let data = content(l);
        for seq in &seqs {
            {
                let rep = Rep { ctx, adapter: "UnixStream(read, non-blocking, peer still open)" };
                let (mut wa, mut a) = UnixStream::pair().unwrap();
                let (mut wb, mut b) = UnixStream::pair().unwrap();
                wa.write_all(&data).unwrap();
                wb.write_all(&data).unwrap();
                a.set_nonblocking(true).unwrap();
                b.set_nonblocking(true).unwrap();
                drive_reader(&rep, l, 0, seq, &mut a, &mut b, &|_, _| (String::new(), String::new()));
                drop(wa);
                drop(wb);
                let (mut r1, mut r2) = (Vec::new(), Vec::new());
                let _ = a.read_to_end(&mut r1);
                let _ = b.read_to_end(&mut r2);
                if r1 != r2 {
                    rep.bad("stream-state", l, 0, seq, seq.len(), format!("left in the socket: {} vs {}", hex(&r1), hex(&r2)));
                }
            }
            if l == 0 {
                let rep = Rep { ctx, adapter: "UnixStream(write, non-blocking, send buffer full)" };
                let (mut a, ra) = UnixStream::pair().unwrap();
                let (mut b, rb) = UnixStream::pair().unwrap();
                a.set_nonblocking(true).unwrap();
                b.set_nonblocking(true).unwrap();
                let fill = [0x5au8; 4096];
                for s in [&mut a, &mut b] {
                    while s.write(&fill).is_ok() {}
                }
                drive_writer(&rep, l, 0, seq, &mut a, &mut b, &|_, _| (String::new(), String::new()));
                drop(ra);
                drop(rb);
            }
        }
    }
    // descriptors on which even an empty call is observable: the wrong access mode (every call
    // fails with EBADF, std issues the syscall for an empty buffer too) and datagram sockets
    // (every write(2), also an empty one, is a message; message boundaries on the read side)
    {
        use std::fs::OpenOptions;
        use std::os::unix::net::UnixDatagram;
        let reopen = |f: &std::fs::File, write: bool| -> std::fs::File {
            let path = format!("/proc/self/fd/{}", f.as_raw_fd());
            if write {
                OpenOptions::new().write(true).open(path).unwrap()
            } else {
                OpenOptions::new().read(true).open(path).unwrap()
            }
        };
        let data = content(9);
        for seq in &seqs {
            {
                let rep = Rep { ctx, adapter: "File(read on a write-only descriptor)" };
                let (fa, fb) = (file_with(&data, 0), file_with(&data, 0));
                let (mut a, mut b) = (reopen(&fa, true), reopen(&fb, true));
                drive_reader(&rep, 9, 0, seq, &mut a, &mut b, &|_, _| (file_state(&fa), file_state(&fb)));
            }
            {
                let rep = Rep { ctx, adapter: "OwnedFd(write on a read-only descriptor)" };
                let (fa, fb) = (file_with(&data, 0), file_with(&data, 0));
                let mut a: OwnedFd = reopen(&fa, false).into();
                let mut b = reopen(&fb, false);
                drive_writer(&rep, 9, 0, seq, &mut a, &mut b, &|_, _| (file_state(&fa), file_state(&fb)));
            }
            {
                // every write is one datagram
                let rep = Rep { ctx, adapter: "OwnedFd(write to a datagram socket)" };
                let (ta, ra) = UnixDatagram::pair().unwrap();
                let (tb, rb) = UnixDatagram::pair().unwrap();
                let mut a: OwnedFd = ta.into();
                let mut b: std::fs::File = OwnedFd::from(tb).into();
                drive_writer(&rep, 0, 0, seq, &mut a, &mut b, &|_, _| (String::new(), String::new()));
                let drain = |r: &UnixDatagram| -> Vec<Vec<u8>> {
                    r.set_nonblocking(true).unwrap();
                    let mut msgs = Vec::new();
                    let mut buf = [0u8; 64];
                    while let Ok(n) = r.recv(&mut buf) {
                        msgs.push(buf[..n].to_vec());
                    }
                    msgs
                };
                let (ma, mb) = (drain(&ra), drain(&rb));
                if ma != mb {
                    rep.bad("messages", 0, 0, seq, seq.len(), format!("datagrams received {:?} vs {:?}", ma.iter().map(|m| hex(m)).collect::<Vec<_>>(), mb.iter().map(|m| hex(m)).collect::<Vec<_>>()));
                }
            }
            {
                // message boundaries on the read side: datagrams of 4, 0, 9 and 1 bytes queued
                let rep = Rep { ctx, adapter: "OwnedFd(read from a datagram socket)" };
                let (ta, ra) = UnixDatagram::pair().unwrap();
                let (tb, rb) = UnixDatagram::pair().unwrap();
                for t in [&ta, &tb] {
                    for m in [&data[..4], &data[..0], &data[..9], &data[..1]] {
                        t.send(m).unwrap();
                    }
                }
                ra.set_nonblocking(true).unwrap();
                rb.set_nonblocking(true).unwrap();
                let mut a: OwnedFd = ra.try_clone().unwrap().into();
                let mut b: std::fs::File = OwnedFd::from(rb.try_clone().unwrap()).into();
                drive_reader(&rep, 14, 0, seq, &mut a, &mut b, &|_, _| (String::new(), String::new()));
                let drain = |r: &UnixDatagram| -> Vec<Vec<u8>> {
                    let mut msgs = Vec::new();
                    let mut buf = [0u8; 64];
                    while let Ok(n) = r.recv(&mut buf) {
                        msgs.push(buf[..n].to_vec());
                    }
                    msgs
                };
                let (ma, mb) = (drain(&ra), drain(&rb));
                if ma != mb {
                    rep.bad("stream-state", 14, 0, seq, seq.len(), format!("datagrams left {:?} vs {:?}", ma.len(), mb.len()));
                }
            }
        }
    }
    // TcpStream over loopback, if the sandbox has one
    match std::net::TcpListener::bind("127.0.0.1:0") {
        Ok(listener) => {
            let addr = listener.local_addr().unwrap();
            let pair = || {
                let c = std::net::TcpStream::connect(addr).unwrap();
                let (s, _) = listener.accept().unwrap();
                (c, s)
            };
            for seq in seqs.iter().take(40) {
                let rep = Rep { ctx, adapter: "TcpStream(read)" };
                let data = content(9);
                let (mut wa, mut a) = pair();
                let (mut wb, mut b) = pair();
                wa.write_all(&data).unwrap();
                wb.write_all(&data).unwrap();
                drop(wa);
                drop(wb);
                // wait until all 9 bytes (and the FIN) are queued on both sockets, so that the
                // comparison does not depend on delivery timing
                for sock in [&a, &b] {
                    let mut tmp = [0u8; 16];
                    let t0 = std::time::Instant::now();
                    while sock.peek(&mut tmp).unwrap_or(0) < 9 && t0.elapsed().as_secs() < 5 {
                        std::thread::sleep(std::time::Duration::from_millis(1));
                    }
                }
                std::thread::sleep(std::time::Duration::from_millis(2));
                drive_reader(&rep, 9, 0, seq, &mut a, &mut b, &|_, _| (String::new(), String::new()));
                let rep = Rep { ctx, adapter: "TcpStream(write)" };
                let (mut a, mut ra) = pair();
                let (mut b, mut rb) = pair();
                drive_writer(&rep, 9, 0, seq, &mut a, &mut b, &|_, _| (String::new(), String::new()));
                drop(a);
                drop(b);
                let (mut r1, mut r2) = (Vec::new(), Vec::new());
                ra.read_to_end(&mut r1).unwrap();
                rb.read_to_end(&mut r2).unwrap();
                if r1 != r2 {
                    rep.bad("bytes", 9, 0, seq, seq.len(), format!("received {} vs {}", hex(&r1), hex(&r2)));
                }
            }
        }
        Err(e) => not_exercised.push(format!("TcpStream (no loopback: {})", e)),
    }
    // Stdout: fd 1 temporarily redirected to an in-memory file
    {
        let rep = Rep { ctx, adapter: "Stdout" };
        let mut sink = tempfile().unwrap();
        let _ = std::io::stdout().flush();
        // SAFETY: plain dup/dup2 on our own descriptors
        unsafe {
            let saved = libc::dup(1);
            libc::dup2(sink.as_raw_fd(), 1);
            let data: Vec<u8> = content(9);
            let mut l = Local::new(9, 3, &data);
            let vs = VolatileSlice::new(l.slice_mut().as_mut_ptr(), 9);
            let mut out = std::io::stdout();
            let r = vr(out.write_volatile(&vs), R::N);
            let r2 = vr(out.write_all_volatile(&vs), |_| R::Unit);
            libc::dup2(saved, 1);
            libc::close(saved);
            let mut got = Vec::new();
            sink.seek(SeekFrom::Start(0)).unwrap();
            sink.read_to_end(&mut got).unwrap();
            let mut want = data.clone();
            want.extend_from_slice(&data);
            ctx.case(true);
            if r != R::N(9) || r2 != R::Unit || got != want {
                rep.bad("bytes", 9, 0, &[], 0, format!("{:?} {:?} wrote {}", r, r2, hex(&got)));
            }
        }
    }
    not_exercised
}

pub fn run(tier: Tier, replay: Option<String>) -> i32 {
    let ctx = crate::new_ctx("C13", tier, "exploration", &replay);
    ctx.set_rule("for every adapter the crate provides (&[u8], &mut [u8], Vec<u8>, Cursor<&[u8]>, Cursor<Vec<u8>>, Cursor<&mut [u8]>, File, OwnedFd, BorrowedFd, UnixStream, TcpStream, Stdout): every stream length 0..=20 (plus 4096, 65537 and 70001 with buffers of 4095..65537 bytes, single calls and pairs), every cursor position 0..=22 plus u64::MAX-1 and u64::MAX, every buffer length 0..=20 (single calls, plain and exact form, two buffer misalignments) and every sequence of 2 and 3 (thorough: also 4) consecutive calls over a boundary set of buffer lengths, plus every stream address mod 8 x transfer of 1/2/3/4/8 bytes x buffer alignment class (fd adapters: lengths 0..=9, 2 calls; also read(2)/write(2) that move at most k bytes or are interrupted (EINTR) on every 2nd / 3rd call, non-blocking stream sockets that cannot make progress (WouldBlock is reported, a watchdog turns a call that never returns into a finding), descriptors opened in the wrong access mode and datagram sockets, where an empty call is observable: error kinds and the list of datagrams delivered / left are compared) - each executed on the volatile adapter and on its std::io twin with an ordinary buffer; count / error kind, bytes landed, remaining stream / position / vector contents and canaries around the volatile buffer are compared after every call. After a failed write_all the sink state (position / remaining room / contents) is compared as well. One case = one call; non-trivial = non-empty buffer; distinct by construction.");
    ctx.assume("stream state after a failed exact call is not compared (std leaves it unspecified)");
    if ctx.replay_of.is_some() {
        println!("replay: deterministic enumeration; re-running it");
    }
    let thorough = tier.thorough();
    // a call that never returns (a retry loop that cannot make progress) is reported, not waited for
    let watch = crate::crash::watchdog(30);
    let ne = std::thread::scope(|s| {
        let ctx = &ctx;
        let h = s.spawn(move || fd_adapters(ctx, thorough));
        in_memory(ctx, thorough);
        h.join().unwrap()
    });
    watch.store(true, std::sync::atomic::Ordering::Relaxed);
    ctx.extra("adapters_not_exercised", json!(ne));
    ctx.sample(json!({"adapter": "Cursor<&[u8]>", "stream_len": 5, "position": "u64::MAX", "calls": "[read_volatile(len 3)]", "expected": "Ok(0), position unchanged, buffer untouched - as std"}));
    ctx.sample(json!({"adapter": "&mut [u8]", "stream_len": 4, "calls": "[write_all_volatile(len 9)]", "expected": "WriteZero, as std's write_all"}));
    ctx.set_exhaustive(true);
    ctx.finish()
}
