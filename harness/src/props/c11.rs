//! C11 — a memory-map snapshot stays whole and usable while the map is being replaced (E3 + E1).

use crate::explore::{explore_seq, Explorer};
use crate::interpose::{global_recording, take_global_log, MapEvent};
use crate::report::{Ctx, Tier};
use crate::sched::{run_threads, step, ThreadBody};
use serde_json::{json, Value};
use std::collections::{BTreeSet, HashMap, HashSet, VecDeque};
use std::sync::{Arc, Mutex};
use vm_memory::{GuestAddress, GuestAddressSpace, GuestMemory, GuestMemoryAtomic, GuestMemoryMmap, GuestMemoryRegion, GuestRegionMmap};

type Mem = GuestMemoryMmap<()>;
pub const REMOVE: u64 = 1 << 63;
/// (SWAP | start): replace the region starting there by a fresh region of the same range in one
/// locked update - the layout stays the same, the memory behind it changes
pub const SWAP: u64 = 1 << 62;
/// a round that takes the update lock, looks at the map and gives the lock back without replacing
const ABANDON: u64 = 1 << 60;
/// a round that runs from a destructor while a (caught) panic unwinds the updater thread
const UNWIND: u64 = 1 << 59;
type Atomic = GuestMemoryAtomic<Mem>;

fn region(start: u64, tag: u8) -> Arc<GuestRegionMmap<()>> {
    let r = GuestRegionMmap::<()>::from_range(GuestAddress(start), 4096, None).unwrap();
    unsafe { std::ptr::write_volatile(r.as_ptr(), tag) };
    Arc::new(r)
}

fn starts(m: &Mem) -> Vec<u64> {
    m.iter().map(|r| r.start_addr().0).collect()
}

/// (start, host pointer, tag read through the mapping) of every region; None if a mapping of the
/// snapshot has already been handed to munmap (checked in the interposed log, never dereferenced)
fn read_map(m: &Mem, unmapped: &HashSet<usize>) -> Result<Vec<(u64, u8)>, String> {
    let mut v = Vec::new();
    for r in m.iter() {
        let p = r.as_ptr() as usize;
        if unmapped.contains(&p) {
            return Err(format!("region [{:#x},+4096) of a live snapshot was unmapped", r.start_addr().0));
        }
        v.push((r.start_addr().0, unsafe { std::ptr::read_volatile(r.as_ptr()) }));
    }
    Ok(v)
}

#[derive(Clone, Debug)]
enum Log {
    Published { by: usize, regions: Vec<(u64, u8)> },
    Snapshot { by: usize, regions: Vec<(u64, u8)> },
    Reread { by: usize, first: Vec<(u64, u8)>, again: Result<Vec<(u64, u8)>, String> },
}

#[derive(Clone, Debug)]
pub struct Config {
    pub name: &'static str,
    /// per updater thread, one entry per round: insert a region at this start address, or
    /// (REMOVE | start) remove the region starting there
    pub updaters: Vec<Vec<u64>>,
    pub readers: usize,
    pub bound: Option<u32>,
    /// all threads use ONE GuestMemoryAtomic handle through a shared reference (no clone of the
    /// handle exists anywhere) instead of one cloned handle per thread
    pub share_handle: bool,
}

/// Addresses that are unmapped at the end of `log` (a later mmap may reuse an address).
fn unmapped_set(log: &[MapEvent]) -> HashSet<usize> {
    let mut s = HashSet::new();
    for e in log {
        match e {
            MapEvent::Map { addr, ok: true, .. } => {
                s.remove(addr);
            }
            MapEvent::Unmap { addr, .. } => {
                s.insert(*addr);
            }
            _ => {}
        }
    }
    s
}

fn unmapped_now() -> HashSet<usize> {
    // peek: the global log is drained at the end of the execution, so copy it here
    let log = take_global_log();
    let s: HashSet<usize> = log.iter().filter_map(|e| if let MapEvent::Unmap { addr, .. } = e { Some(*addr) } else { None }).collect();
    // put it back (single explorer: nobody else appends concurrently except the running thread)
    REPLAY_LOG.lock().unwrap().extend(log);
    let _ = s;
    let all = unmapped_set(&REPLAY_LOG.lock().unwrap());
    all
}

static REPLAY_LOG: Mutex<Vec<MapEvent>> = Mutex::new(Vec::new());

struct ExecResult {
    violation: Option<(String, String)>,
    outcome: String,
    trace: Vec<String>,
    preemptions: u32,
}

fn execute(cfg: &Config, ex: &mut Explorer) -> ExecResult {
    REPLAY_LOG.lock().unwrap().clear();
    let _ = take_global_log();
    global_recording(true);
    let r0 = region(0x10_0000, 1);
    let mut all_regions: Vec<(u64, usize, u8)> = vec![(0x10_0000, r0.as_ptr() as usize, 1)];
    let atomic: Arc<Atomic> = Arc::new(GuestMemoryAtomic::new(GuestMemoryMmap::from_arc_regions(vec![r0]).unwrap()));
    let share = cfg.share_handle;
    // per thread: the shared handle itself, or a clone of it
    let handle_for_thread = |a: &Arc<Atomic>| -> Arc<Atomic> { if share { a.clone() } else { Arc::new(Atomic::clone(a)) } };
    let log: Arc<Mutex<Vec<Log>>> = Arc::new(Mutex::new(Vec::new()));
    let mut bodies: Vec<ThreadBody> = Vec::new();
    let mut tid = 0usize;
    let mut removed: BTreeSet<u64> = BTreeSet::new();
    // start -> tag of the instance that must be in the final map
    let mut final_tag: HashMap<u64, u8> = [(0x10_0000u64, 1u8)].into_iter().collect();
    for ups in &cfg.updaters {
        let mut regs: Vec<(Option<u64>, Option<Arc<GuestRegionMmap<()>>>)> = Vec::new(); // (remove this start, insert this region)
        let unwinding: Vec<bool> = ups.iter().map(|s| s & UNWIND != 0).collect();
        for s in ups {
            let s = &(*s & !UNWIND);
            if s & ABANDON != 0 {
                regs.push((None, None));
                continue;
            }
            if s & REMOVE != 0 {
                removed.insert(s & !REMOVE);
                final_tag.remove(&(s & !REMOVE));
                regs.push((Some(s & !REMOVE), None));
                continue;
            }
            let start = s & !SWAP;
            let tag = 10 + all_regions.len() as u8;
            let r = region(start, tag);
            all_regions.push((start, r.as_ptr() as usize, tag));
            final_tag.insert(start, tag);
            regs.push((if s & SWAP != 0 { Some(start) } else { None }, Some(r)));
        }
        let a = handle_for_thread(&atomic);
        let lg = log.clone();
        let me = tid;
        bodies.push(Box::new(move || {
            for (round, r) in regs.into_iter().enumerate() {
                if unwinding[round] {
                    // the same update, carried out by a destructor during unwinding
                    let mut r = Some(r);
                    let mut body = || {
                        let r = r.take().unwrap();
                        let guard = a.lock().unwrap_or_else(|e| e.into_inner());
                        let cur = a.memory();
                        step("derive-new-map");
                        let mut new: Option<Mem> = None;
                        if let Some(start) = r.0 {
                            new = Some(cur.remove_region(GuestAddress(start), 4096).unwrap().0);
                        }
                        if let Some(reg) = r.1 {
                            new = Some(match &new {
                                Some(m) => m.insert_region(reg).unwrap(),
                                None => cur.insert_region(reg).unwrap(),
                            });
                        }
                        let new = new.unwrap();
                        let regions = read_map(&new, &HashSet::new()).unwrap_or_default();
                        drop(cur);
                        guard.replace(new);
                        lg.lock().unwrap().push(Log::Published { by: me, regions });
                    };
                    struct OnDrop<'a>(&'a mut dyn FnMut());
                    impl Drop for OnDrop<'_> {
                        fn drop(&mut self) {
                            (self.0)()
                        }
                    }
                    let _ = crate::crash::quiet_unwind(|| {
                        let _d = OnDrop(&mut body);
                        std::panic::panic_any(0u8);
                    });
                    continue;
                }
                let guard = a.lock().unwrap();
                let cur = a.memory();
                step("derive-new-map");
                if r.0.is_none() && r.1.is_none() {
                    // an update that is given up: the lock goes back, nothing is published
                    drop(cur);
                    drop(guard);
                    continue;
                }
                let mut new: Option<Mem> = None;
                if let Some(start) = r.0 {
                    new = Some(cur.remove_region(GuestAddress(start), 4096).unwrap().0);
                }
                if let Some(reg) = r.1 {
                    new = Some(match &new {
                        Some(m) => m.insert_region(reg).unwrap(),
                        None => cur.insert_region(reg).unwrap(),
                    });
                }
                let new = new.unwrap();
                let regions = read_map(&new, &HashSet::new()).unwrap_or_default();
                drop(cur);
                guard.replace(new);
                lg.lock().unwrap().push(Log::Published { by: me, regions });
            }
        }));
        tid += 1;
    }
    for _ in 0..cfg.readers {
        let a = handle_for_thread(&atomic);
        let lg = log.clone();
        let me = tid;
        bodies.push(Box::new(move || {
            let snap = a.memory();
            let first = read_map(&snap, &unmapped_now()).unwrap_or_default();
            lg.lock().unwrap().push(Log::Snapshot { by: me, regions: first.clone() });
            step("clone-snapshot");
            let c = snap.clone();
            // a clone of a snapshot shows the same map as the snapshot it was cloned from
            let via_clone = read_map(&c, &unmapped_now());
            lg.lock().unwrap().push(Log::Reread { by: me, first: first.clone(), again: via_clone });
            step("into_inner");
            let owned: Arc<Mem> = snap.into_inner();
            step("drop-clone");
            drop(c);
            step("re-read");
            let again = read_map(&owned, &unmapped_now());
            lg.lock().unwrap().push(Log::Reread { by: me, first, again });
            step("drop-owned");
            drop(owned);
        }));
        tid += 1;
    }
    let res = run_threads(ex, bodies, 2000);
    let mut out = ExecResult { violation: None, outcome: String::new(), trace: res.normalized(), preemptions: res.preemptions };
    if res.deadlock {
        out.violation = Some(("deadlock".into(), "no thread is enabled but some have not finished".into()));
        global_recording(false);
        return out;
    }
    if res.horizon_hit || !res.panics.is_empty() {
        out.violation = Some(("panic-or-livelock".into(), format!("{:?}", res.panics)));
        global_recording(false);
        return out;
    }
    // ---- oracle ---------------------------------------------------------------------------
    let log = log.lock().unwrap().clone();
    let tags: HashSet<(u64, u8)> = all_regions.iter().map(|(s, _, t)| (*s, *t)).collect();
    // a map is the list of its (start, tag) pairs: the tag names the region instance
    let mut published: Vec<Vec<(u64, u8)>> = vec![vec![(0x10_0000, 1)]];
    let mut completed: BTreeSet<u64> = [0x10_0000u64].into_iter().collect();
    let mut fail = |k: &str, d: String| {
        if out.violation.is_none() {
            out.violation = Some((k.to_string(), d));
        }
    };
    let mut outcome = Vec::new();
    for e in &log {
        match e {
            Log::Published { regions, .. } => {
                published.push(regions.clone());
                completed.extend(regions.iter().map(|r| r.0));
            }
            Log::Snapshot { by, regions } => {
                let list: Vec<(u64, u8)> = regions.clone();
                outcome.push(format!("s{}={:x?}", by, list));
                // the updaters may have published a map that is not logged yet (the log entry is
                // written after replace returns): accept any map that is published by the end
                for (s, t) in regions {
                    if !tags.contains(&(*s, *t)) {
                        fail("snapshot-region-unreadable", format!("region {:#x} reads tag {}, which no region placed there carries", s, t));
                    }
                }
                // once a replacement has completed, later snapshots show it (or a later one):
                // the snapshot must not be a map that was published *before* the last completed one
                let last_completed = published.len() - 1;
                if let Some(pos) = published.iter().position(|p| *p == list) {
                    let later_same = published.iter().rposition(|p| *p == list).unwrap_or(pos);
                    if later_same < last_completed {
                        fail("stale-snapshot-after-completed-replace", format!("snapshot {:x?} is generation {} but generation {} ({:x?}) had already been published completely", list, later_same, last_completed, published[last_completed]));
                    }
                }
                let _ = &completed;
            }
            Log::Reread { by, first, again } => match again {
                Ok(a) => {
                    if a != first {
                        fail("snapshot-changed-while-held", format!("reader {}: first {:x?}, later {:x?}", by, first, a));
                    }
                }
                Err(d) => fail("snapshot-memory-unmapped-while-held", d.clone()),
            },
        }
    }
    // every snapshot equals exactly one published map
    for e in &log {
        if let Log::Snapshot { regions, .. } = e {
            let list: Vec<(u64, u8)> = regions.clone();
            if !published.contains(&list) {
                fail("snapshot-is-not-a-published-map", format!("snapshot {:x?}; maps ever published: {:x?}", list, published));
            }
        }
    }
    // no replacement is lost
    let final_map = atomic.memory();
    let final_list = read_map(&final_map, &HashSet::new()).unwrap_or_default();
    outcome.push(format!("final={:x?}", final_list));
    let want: BTreeSet<(u64, u8)> = final_tag.iter().map(|(s, t)| (*s, *t)).collect();
    if final_list.iter().cloned().collect::<BTreeSet<(u64, u8)>>() != want {
        fail("lost-replacement", format!("final map (start, region tag) {:x?} but the updates leave {:x?}", final_list, want));
    }
    let _ = &removed;
    drop(final_map);
    // everything is unmapped exactly once when the last owner is gone
    drop(atomic);
    global_recording(false);
    let mut maplog = std::mem::take(&mut *REPLAY_LOG.lock().unwrap());
    maplog.extend(take_global_log());
    for (s, p, _) in &all_regions {
        // unmaps after the (last) mapping of this address
        let from = maplog.iter().rposition(|e| matches!(e, MapEvent::Map { addr, ok: true, .. } if addr == p)).unwrap_or(0);
        let n = maplog[from..].iter().filter(|e| matches!(e, MapEvent::Unmap { addr, len, .. } if addr == p && *len == 4096)).count();
        if n != 1 {
            fail("mapping-not-released-exactly-once", format!("region {:#x} was unmapped {} time(s) after every handle was dropped", s, n));
        }
    }
    out.outcome = outcome.join(";");
    out
}

fn run_config(ctx: &Ctx, cfg: &Config) {
    // determinism self-check
    let mut e1 = Explorer::for_replay(&[]);
    e1.begin();
    let a = execute(cfg, &mut e1);
    let mut e2 = Explorer::for_replay(&[]);
    e2.begin();
    let b = execute(cfg, &mut e2);
    if a.trace != b.trace || a.outcome != b.outcome {
        ctx.machinery(&format!("C11 {}: default schedule not deterministic", cfg.name));
        return;
    }
    let mut outcomes: BTreeSet<String> = BTreeSet::new();
    let mut max_pre = 0;
    let mut sample: Option<Value> = None;
    let stats = explore_seq(cfg.bound, |ex| {
        let r = execute(cfg, ex);
        outcomes.insert(r.outcome.clone());
        max_pre = max_pre.max(r.preemptions);
        if sample.is_none() && r.preemptions >= 1 {
            sample = Some(json!({"config": cfg.name, "schedule": ex.current_choices(), "trace": r.trace, "outcome": r.outcome}));
        }
        if let Some((k, d)) = r.violation {
            ctx.fail(&format!("C11/{}/{}", cfg.name, k), &d, json!({"config": cfg.name, "updaters": cfg.updaters, "readers": cfg.readers, "share_handle": cfg.share_handle, "schedule": ex.current_choices(), "trace": r.trace}));
            return false;
        }
        true
    });
    if let Some(d) = &stats.diverged {
        ctx.machinery(&format!("C11 {}: divergence {}", cfg.name, d));
    }
    ctx.add_traces(stats.executions);
    ctx.add_states(stats.nodes);
    ctx.add_transitions(stats.nodes);
    if let Some(s) = sample {
        ctx.sample(s);
    }
    CONFIG_INFO.lock().unwrap().push(json!({"config": cfg.name, "updaters": cfg.updaters.len(), "readers": cfg.readers, "schedules": stats.executions, "choice_tree_nodes": stats.nodes,
        "preemption_bound": cfg.bound.map(|b| json!(b)).unwrap_or(json!("unbounded")), "max_preemptions_seen": max_pre, "distinct_outcomes": outcomes.len(), "max_depth": stats.max_depth}));
    if cfg.bound.is_some() {
        ctx.set_exhaustive(false);
    }
}

static CONFIG_INFO: Mutex<Vec<Value>> = Mutex::new(Vec::new());

// ---------------------------------------------------------------------------------------------
// Sequential histories over several handles (E1): state = owner graph.

#[derive(Clone, Debug, PartialEq, Eq, Hash)]
enum SOp {
    CloneHandle,
    Snapshot,
    CloneSnapshot(usize),
    IntoInner(usize),
    Insert(u64),
    Remove(u64),
    /// replace the region at this start by a fresh one in a single locked update
    Swap(u64),
    DropSnapshot(usize),
    DropOwned(usize),
    DropHandle,
    /// an updater panics between lock() and replace(): the update mutex is poisoned from then
    /// on, later updaters recover the guard from the PoisonError
    PanicWhileLocked,
}

/// One locked update: lock, derive the new map from the current one, replace, unlock - run
/// normally, or from a destructor while a panic unwinds (a device that unplugs its memory when it
/// is dropped): the replacement is published either way.
fn publish(h: &Atomic, derive: &mut dyn FnMut(&Mem) -> Mem, unwinding: bool) {
    let mut body = || {
        let g = h.lock().unwrap_or_else(|e| e.into_inner());
        let cur = h.memory();
        let new = derive(&cur);
        drop(cur);
        g.replace(new);
    };
    if !unwinding {
        body();
    } else {
        struct OnDrop<'a>(&'a mut dyn FnMut());
        impl Drop for OnDrop<'_> {
            fn drop(&mut self) {
                (self.0)()
            }
        }
        let _ = crate::crash::quiet_unwind(|| {
            let _d = OnDrop(&mut body);
            std::panic::panic_any(0u8);
        });
    }
}

fn sequential(ctx: &Ctx, depth: usize, unmerged: usize) {
    // state key: (current map, multiset of held snapshot maps, owned maps, number of handles);
    // a map is a list of (start, region instance): the same guest address can be plugged again
    // with a new region while a snapshot still holds the earlier one. Instances are renamed to
    // their rank among the referenced instances of the same address, which keeps exactly the
    // information the futures depend on (which lists share an instance).
    type Inst = (u64, u32);
    type Key = (Vec<Inst>, Vec<Vec<Inst>>, Vec<Vec<Inst>>, usize);
    fn sts(l: &[Inst]) -> Vec<u64> {
        l.iter().map(|x| x.0).collect()
    }
    let mut seen: HashSet<Key> = HashSet::new();
    let mut frontier: VecDeque<Vec<SOp>> = VecDeque::new();
    frontier.push_back(vec![]);
    let mut transitions = 0u64;
    let universe = [0x20_0000u64, 0x30_0000];
    while let Some(hist) = frontier.pop_front() {
        // rebuild the real objects by replaying the history
        let _ = take_global_log();
        global_recording(true);
        let r0 = region(0x10_0000, 1);
        let mut ptr_of: HashMap<u64, (usize, u8)> = HashMap::new();
        ptr_of.insert(0x10_0000, (r0.as_ptr() as usize, 1));
        let mut handles: Vec<Atomic> = vec![GuestMemoryAtomic::new(GuestMemoryMmap::from_arc_regions(vec![r0]).unwrap())];
        let mut snaps: Vec<(vm_memory::GuestMemoryLoadGuard<Mem>, Vec<Inst>)> = Vec::new();
        let mut owned: Vec<(Arc<Mem>, Vec<Inst>)> = Vec::new();
        let mut current: Vec<Inst> = vec![(0x10_0000, 0)];
        let mut next_id = 1u32;
        let mut serial = 20u8;
        let acc: std::cell::RefCell<Vec<MapEvent>> = std::cell::RefCell::new(take_global_log());
        let mut ever: Vec<(u64, usize, usize, u32)> = vec![(0x10_0000, ptr_of[&0x10_0000].0, acc.borrow().len(), 0)];
        let mut bad: Option<(String, String)> = None;
        let mut poisoned = false;
        let mut updates = 0u32;
        let mut apply = |op: &SOp, handles: &mut Vec<Atomic>, snaps: &mut Vec<(vm_memory::GuestMemoryLoadGuard<Mem>, Vec<Inst>)>, owned: &mut Vec<(Arc<Mem>, Vec<Inst>)>, current: &mut Vec<Inst>| -> bool {
            match op {
                SOp::CloneHandle => {
                    if handles.is_empty() {
                        return false;
                    }
                    let h = handles[0].clone();
                    handles.push(h);
                }
                SOp::DropHandle => {
                    if handles.len() <= 1 {
                        return false;
                    }
                    handles.pop();
                }
                SOp::PanicWhileLocked => {
                    if poisoned {
                        return false;
                    }
                    let h = handles.last().unwrap();
                    let _ = crate::crash::quiet_unwind(|| {
                        let _g = h.lock().unwrap_or_else(|e| e.into_inner());
                        let _cur = h.memory();
                        std::panic::panic_any(0u8);
                    });
                    poisoned = true;
                }
                SOp::Snapshot => {
                    let h = handles.last().unwrap();
                    let s = h.memory();
                    let list = starts(&s);
                    if list != sts(current) {
                        bad = Some(("snapshot-not-current".into(), format!("snapshot {:x?} but the current map is {:x?}", list, sts(current))));
                    }
                    snaps.push((s, current.clone()));
                }
                SOp::CloneSnapshot(i) => {
                    if *i >= snaps.len() {
                        return false;
                    }
                    let c = snaps[*i].0.clone();
                    let l = snaps[*i].1.clone();
                    snaps.push((c, l));
                }
                SOp::IntoInner(i) => {
                    if *i >= snaps.len() {
                        return false;
                    }
                    let (s, l) = snaps.remove(*i);
                    owned.push((s.into_inner(), l));
                }
                SOp::DropSnapshot(i) => {
                    if *i >= snaps.len() {
                        return false;
                    }
                    snaps.remove(*i);
                }
                SOp::DropOwned(i) => {
                    if *i >= owned.len() {
                        return false;
                    }
                    owned.remove(*i);
                }
                SOp::Insert(s) => {
                    if current.iter().any(|x| x.0 == *s) {
                        return false;
                    }
                    serial += 1;
                    let r = region(*s, serial);
                    ptr_of.insert(*s, (r.as_ptr() as usize, serial));
                    acc.borrow_mut().extend(take_global_log());
                    ever.push((*s, r.as_ptr() as usize, acc.borrow().len(), next_id));
                    let h = &handles[0];
                    let mut r = Some(r);
                    updates += 1;
                    publish(h, &mut |cur: &Mem| cur.insert_region(r.take().unwrap()).unwrap(), updates % 3 == 2);
                    current.push((*s, next_id));
                    next_id += 1;
                    current.sort();
                }
                SOp::Swap(s) => {
                    if !current.iter().any(|x| x.0 == *s) {
                        return false;
                    }
                    serial += 1;
                    let r = region(*s, serial);
                    ptr_of.insert(*s, (r.as_ptr() as usize, serial));
                    acc.borrow_mut().extend(take_global_log());
                    ever.push((*s, r.as_ptr() as usize, acc.borrow().len(), next_id));
                    let h = handles.last().unwrap();
                    let mut r = Some(r);
                    let single = current.len() == 1;
                    let start = *s;
                    updates += 1;
                    publish(
                        h,
                        &mut |cur: &Mem| {
                            if single {
                                GuestMemoryMmap::from_arc_regions(vec![r.take().unwrap()]).unwrap()
                            } else {
                                cur.remove_region(GuestAddress(start), 4096).unwrap().0.insert_region(r.take().unwrap()).unwrap()
                            }
                        },
                        updates % 3 == 2,
                    );
                    current.retain(|x| x.0 != *s);
                    current.push((*s, next_id));
                    next_id += 1;
                    current.sort();
                }
                SOp::Remove(s) => {
                    if !current.iter().any(|x| x.0 == *s) {
                        return false;
                    }
                    // (removing the last region publishes an empty map; every other time an
                    // emptied map is published as a freshly constructed one)
                    let h = handles.last().unwrap();
                    let fresh_empty = current.len() == 1 && serial % 2 == 1;
                    let start = *s;
                    updates += 1;
                    publish(
                        h,
                        &mut |cur: &Mem| {
                            let (new, _removed) = cur.remove_region(GuestAddress(start), 4096).unwrap();
                            if fresh_empty {
                                GuestMemoryMmap::new()
                            } else {
                                new
                            }
                        },
                        updates % 3 == 2,
                    );
                    current.retain(|x| x.0 != *s);
                }
            }
            true
        };
        let mut valid = true;
        for op in &hist {
            if !apply(op, &mut handles, &mut snaps, &mut owned, &mut current) {
                valid = false;
                break;
            }
        }
        if !valid {
            global_recording(false);
            continue;
        }
        transitions += 1;
        // invariants in this state
        acc.borrow_mut().extend(take_global_log());
        let acc = acc.into_inner();
        let unmapped: HashSet<usize> = unmapped_set(&acc);
        for (s, l) in snaps.iter().map(|(s, l)| (starts(s), l)).chain(owned.iter().map(|(s, l)| (starts(s), l))) {
            if s != sts(l) {
                bad = Some(("snapshot-changed-while-held".into(), format!("{:x?} became {:x?}", sts(l), s)));
            }
        }
        // all handles show the current map: the same ranges backed by the same region instances
        let ptr_by_id: HashMap<u32, usize> = ever.iter().map(|e| (e.3, e.1)).collect();
        let inst_ptrs = |l: &[Inst]| -> Vec<(u64, usize)> { l.iter().map(|x| (x.0, ptr_by_id[&x.1])).collect() };
        let map_ptrs = |m: &Mem| -> Vec<(u64, usize)> { m.iter().map(|r| (r.start_addr().0, r.as_ptr() as usize)).collect() };
        for h in &handles {
            if starts(&h.memory()) != sts(&current) {
                bad = Some(("handles-disagree".into(), format!("a handle shows {:x?}, current is {:x?}", starts(&h.memory()), sts(&current))));
            } else if map_ptrs(&h.memory()) != inst_ptrs(&current) {
                bad = Some(("handle-shows-replaced-memory".into(), format!("a handle shows the ranges of the current map {:x?} but backed by other regions than the ones last published (host addresses {:x?}, expected {:x?})", sts(&current), map_ptrs(&h.memory()), inst_ptrs(&current))));
            }
        }
        for (m, l) in snaps.iter().map(|(s, l)| (map_ptrs(s), l)).chain(owned.iter().map(|(s, l)| (map_ptrs(s), l))) {
            if m != inst_ptrs(l) && bad.is_none() {
                bad = Some(("snapshot-changed-while-held".into(), format!("a held snapshot of {:x?} is now backed by other regions", sts(l))));
            }
        }
        // a region is unmapped iff no snapshot / owned map / current map contains it
        // (per region instance: the same guest address may have been plugged several times)
        let mut reachable: BTreeSet<u32> = current.iter().map(|x| x.1).collect();
        for (_, l) in snaps.iter().map(|(s, l)| (s, l)) {
            reachable.extend(l.iter().map(|x| x.1));
        }
        for (_, l) in &owned {
            reachable.extend(l.iter().map(|x| x.1));
        }
        for (s, p, born, id) in &ever {
            let still = reachable.contains(id);
            // this instance is gone iff its address was unmapped after it was created
            let gone = acc[*born..].iter().any(|e| matches!(e, MapEvent::Unmap { addr, .. } if addr == p));
            if still && gone {
                bad = Some(("mapping-released-while-reachable".into(), format!("region {:#x} is still listed by a live map or snapshot but was unmapped", s)));
            }
            if !still && !gone {
                bad = Some(("mapping-leaked".into(), format!("region {:#x} is not reachable any more but was not unmapped", s)));
            }
        }
        if bad.is_none() {
            // readable through every live snapshot
            for (s, _) in &snaps {
                for r in s.iter() {
                    let want = ptr_of.get(&r.start_addr().0);
                    let _ = want;
                    if !unmapped.contains(&(r.as_ptr() as usize)) {
                        let _ = unsafe { std::ptr::read_volatile(r.as_ptr()) };
                    }
                }
            }
        }
        global_recording(false);
        if let Some((k, d)) = bad {
            ctx.fail(&format!("C11/sequential/{}", k), &format!("after {:?}: {}", hist, d), json!({"history": format!("{:?}", hist)}));
            continue;
        }
        // canonical instance names: rank among the referenced instances of the same address
        let mut refd: BTreeSet<Inst> = current.iter().cloned().collect();
        for l in snaps.iter().map(|s| &s.1).chain(owned.iter().map(|s| &s.1)) {
            refd.extend(l.iter().cloned());
        }
        let canon = |l: &Vec<Inst>| -> Vec<Inst> { l.iter().map(|x| (x.0, refd.iter().filter(|y| y.0 == x.0 && y.1 < x.1).count() as u32)).collect() };
        let mut sl: Vec<Vec<Inst>> = snaps.iter().map(|s| canon(&s.1)).collect();
        sl.sort();
        let mut ol: Vec<Vec<Inst>> = owned.iter().map(|s| canon(&s.1)).collect();
        ol.sort();
        let key: Key = (canon(&current), sl, ol, handles.len() | if poisoned { 1 << 8 } else { 0 } | ((updates as usize % 3) << 9));
        // histories of fewer than `unmerged` operations are all expanded, whether or not their state
        // was seen before: what an object keeps beside the state named by the key (a handle that
        // was cloned before or after the lock was poisoned, ...) cannot hide behind the key
        let fresh = seen.insert(key);
        if (!fresh && hist.len() >= unmerged) || hist.len() >= depth {
            continue;
        }
        let mut ops = vec![SOp::CloneHandle, SOp::DropHandle, SOp::Snapshot, SOp::PanicWhileLocked];
        for i in 0..snaps.len() {
            ops.push(SOp::CloneSnapshot(i));
            ops.push(SOp::IntoInner(i));
            ops.push(SOp::DropSnapshot(i));
        }
        for i in 0..owned.len() {
            ops.push(SOp::DropOwned(i));
        }
        for u in universe {
            ops.push(SOp::Insert(u));
            ops.push(SOp::Remove(u));
        }
        ops.push(SOp::Remove(0x10_0000));
        ops.push(SOp::Swap(0x10_0000));
        ops.push(SOp::Swap(0x20_0000));
        for op in ops {
            let mut h = hist.clone();
            h.push(op);
            frontier.push_back(h);
        }
    }
    ctx.add_states(seen.len() as u64);
    ctx.add_transitions(transitions);
    ctx.add_traces(transitions);
    ctx.extra("sequential_states", json!(seen.len()));
    ctx.extra("sequential_depth", json!(depth));
    ctx.extra("sequential_histories_expanded_without_merging_up_to_length", json!(unmerged));
}

fn trivial_address_spaces(ctx: &Ctx) {
    // &M, Rc<M>, Arc<M> are snapshot providers that never change
    let m = GuestMemoryMmap::<()>::from_ranges(&[(GuestAddress(0), 4096)]).unwrap();
    let a = (&m).memory();
    let rc = std::rc::Rc::new(GuestMemoryMmap::<()>::from_ranges(&[(GuestAddress(0), 4096), (GuestAddress(0x2000), 4096)]).unwrap());
    let b = rc.memory();
    let arc = Arc::new(GuestMemoryMmap::<()>::from_ranges(&[(GuestAddress(0x1000), 4096)]).unwrap());
    let c = arc.memory();
    if a.num_regions() != 1 || b.num_regions() != 2 || starts(&c) != vec![0x1000] || !Arc::ptr_eq(&arc, &c) || !std::rc::Rc::ptr_eq(&rc, &b) {
        ctx.fail("C11/trivial-address-space", "memory() of &M / Rc<M> / Arc<M> is not the same map", json!({}));
    }
}

pub fn run(tier: Tier, replay: Option<String>) -> i32 {
    let ctx = crate::new_ctx("C11", tier, "model_checking", &replay);
    ctx.set_rule("E3: stateless DFS over the interleavings, within the stated preemption bound, of real updater threads (lock; memory(); derive a map with one more / one less region or with one region swapped for a fresh one of the same range; replace; unlock - or give the update up: lock; memory(); unlock) and reader threads (memory(); read regions and tags; clone the snapshot; into_inner; drop; re-read; drop) on one GuestMemoryAtomic<GuestMemoryMmap> shared through cloned handles, or (three configurations) through one handle that all threads use by reference; scheduling points: every ArcSwap load/store and Mutex lock/unlock of the crate (hook H3, blocking on the update mutex modelled) plus the harness steps between a reader's operations. Oracle per schedule: every snapshot is exactly one published map (maps compared as lists of (start, region instance)), readable (tags through the mappings), unchanged when re-read; snapshots taken after a replacement completed show it; the final map contains every updater's region; no deadlock; after all handles are dropped every region was munmap'ed exactly once (interposed log). E1: BFS over all sequential histories up to the stated depth of {clone handle, drop handle, snapshot, clone snapshot, into_inner, drop snapshot/owned, an updater that panics while it holds the update lock (later updaters recover the guard from the PoisonError), every third update of a history carried out from a destructor while a panic unwinds, lock+replace with insert/remove (down to the empty map, published as derived or as GuestMemoryMmap::new())/swap (same range, fresh region)} - histories of up to 3 (thorough 4) operations are all expanded, merged or not -, state = (current map, held snapshots, owned maps, handles), with the owner-graph invariant mapped <=> reachable checked against the interposed munmap log in every state.");
    ctx.assume("ArcSwap::load/store are treated as atomic steps (arc_swap internals execute for real but are not interleaved internally); SC");
    if let Some(r) = ctx.replay_of.clone() {
        let c = &r["case"];
        let updaters: Vec<Vec<u64>> = c["updaters"].as_array().map(|a| a.iter().map(|u| u.as_array().map(|x| x.iter().filter_map(|y| y.as_u64()).collect()).unwrap_or_default()).collect()).unwrap_or_default();
        let cfg = Config { name: "replay", updaters, readers: c["readers"].as_u64().unwrap_or(1) as usize, bound: None, share_handle: c["share_handle"].as_bool().unwrap_or(false) };
        let choices: Vec<u32> = c["schedule"].as_array().map(|a| a.iter().filter_map(|x| x.as_u64().map(|x| x as u32)).collect()).unwrap_or_default();
        let mut ex = Explorer::for_replay(&choices);
        ex.begin();
        let res = execute(&cfg, &mut ex);
        println!("trace: {:?}\noutcome: {}", res.trace, res.outcome);
        if let Some((k, d)) = res.violation {
            ctx.fail(&format!("C11/{}/{}", c["config"].as_str().unwrap_or("replay"), k), &d, c.clone());
        }
        return ctx.finish();
    }
    let thorough = tier.thorough();
    let configs = vec![
        Config { name: "1-updater-1-reader", updaters: vec![vec![0x20_0000]], readers: 1, bound: None, share_handle: false },
        Config { name: "2-updaters", updaters: vec![vec![0x20_0000], vec![0x30_0000]], readers: 0, bound: None, share_handle: false },
        Config { name: "2-updaters-1-reader", updaters: vec![vec![0x20_0000], vec![0x30_0000]], readers: 1, bound: Some(if thorough { 5 } else { 2 }), share_handle: false },
        Config { name: "1-updater-2-rounds-2-readers", updaters: vec![vec![0x20_0000, 0x30_0000]], readers: 2, bound: Some(if thorough { 4 } else { 2 }), share_handle: false },
        // the first region is removed while readers hold snapshots that still contain it
        Config { name: "insert-then-remove-vs-reader", updaters: vec![vec![0x20_0000, REMOVE | 0x10_0000]], readers: 1, bound: if thorough { None } else { Some(3) }, share_handle: false },
        // one handle shared by reference between all threads (nobody holds a clone of it)
        Config { name: "2-updaters-one-shared-handle", updaters: vec![vec![0x20_0000], vec![0x30_0000]], readers: 0, bound: None, share_handle: true },
        Config { name: "2-updaters-1-reader-one-shared-handle", updaters: vec![vec![0x20_0000], vec![0x30_0000]], readers: 1, bound: Some(if thorough { 4 } else { 2 }), share_handle: true },
        Config { name: "updater-2-rounds-vs-updater-one-shared-handle", updaters: vec![vec![0x20_0000, REMOVE | 0x10_0000], vec![0x30_0000]], readers: 0, bound: Some(if thorough { 5 } else { 3 }), share_handle: true },
        // an updater that gives an update up (lock, look, unlock) and then updates, against another updater
        Config { name: "abandoned-update-then-update-vs-updater", updaters: vec![vec![ABANDON, 0x20_0000], vec![0x30_0000]], readers: 0, bound: None, share_handle: false },
        Config { name: "abandoned-update-then-update-vs-updater-one-shared-handle", updaters: vec![vec![ABANDON, 0x20_0000], vec![0x30_0000]], readers: 0, bound: None, share_handle: true },
        Config { name: "abandoned-update-then-update-vs-updater-vs-reader", updaters: vec![vec![ABANDON, 0x20_0000], vec![0x30_0000]], readers: 1, bound: Some(if thorough { 4 } else { 2 }), share_handle: false },
        // an update carried out from a destructor during unwinding, against an ordinary updater
        Config { name: "update-while-unwinding-vs-updater", updaters: vec![vec![UNWIND | 0x20_0000], vec![0x30_0000]], readers: 0, bound: None, share_handle: false },
        Config { name: "update-while-unwinding-vs-updater-vs-reader", updaters: vec![vec![UNWIND | 0x20_0000], vec![0x30_0000]], readers: 1, bound: Some(if thorough { 4 } else { 2 }), share_handle: true },
        // the published map passes through the empty map
        Config { name: "remove-only-region-then-insert-vs-reader", updaters: vec![vec![REMOVE | 0x10_0000, 0x20_0000]], readers: 1, bound: if thorough { None } else { Some(3) }, share_handle: false },
        Config { name: "remover-to-empty-vs-inserter-vs-reader", updaters: vec![vec![REMOVE | 0x10_0000], vec![0x30_0000]], readers: 1, bound: Some(if thorough { 4 } else { 2 }), share_handle: true },
        // same layout, new memory: the replacement must be published like any other
        Config { name: "swap-region-vs-reader", updaters: vec![vec![SWAP | 0x10_0000]], readers: 1, bound: None, share_handle: false },
        Config { name: "insert-then-swap-vs-2-readers", updaters: vec![vec![0x20_0000, SWAP | 0x20_0000]], readers: 2, bound: Some(if thorough { 3 } else { 2 }), share_handle: false },
        Config { name: "inserter-and-remover-vs-reader", updaters: vec![vec![0x20_0000], vec![0x30_0000, REMOVE | 0x10_0000]], readers: 1, bound: Some(if thorough { 4 } else { 2 }), share_handle: false },
    ];
    for cfg in &configs {
        run_config(&ctx, cfg);
    }
    sequential(&ctx, if thorough { 7 } else { 5 }, if thorough { 4 } else { 3 });
    trivial_address_spaces(&ctx);
    ctx.extra("configs", json!(*CONFIG_INFO.lock().unwrap()));
    ctx.finish()
}
