//! C08 — a dirty mark is never lost when marking races with harvesting (E3).

use crate::explore::{explore_parallel, Explorer};
use crate::report::{Ctx, Tier};
use crate::sched::{multinomial, run_threads, ThreadBody};
use serde_json::{json, Value};
use std::collections::{BTreeMap, BTreeSet};
use std::num::NonZeroUsize;
use std::sync::{Arc, Mutex};
use vm_memory::bitmap::{AtomicBitmap, Bitmap};
use vm_memory::mmap::MmapRegionBuilder;
use vm_memory::{Bytes, GuestAddress, GuestMemoryRegion, GuestRegionMmap, MemoryRegionAddress};

#[derive(Clone, Debug, PartialEq)]
pub enum Op {
    SetBit(usize),
    ResetBit(usize),
    SetRange(usize, usize),
    ResetRange(usize, usize),
    /// mark through a bitmap slice at `base`: mark_dirty(off, len)
    SliceMark(usize, usize, usize),
    Harvest,
    Clone,
    /// real guest write of `len` bytes at region offset `off`
    RegionWrite(usize, usize),
}

impl Op {
    fn to_json(&self) -> Value {
        match self {
            Op::SetBit(p) => json!({"op":"set_bit","page":p}),
            Op::ResetBit(p) => json!({"op":"reset_bit","page":p}),
            Op::SetRange(s, l) => json!({"op":"set_addr_range","start":s,"len":l}),
            Op::ResetRange(s, l) => json!({"op":"reset_addr_range","start":s,"len":l}),
            Op::SliceMark(b, o, l) => json!({"op":"slice_mark","base":b,"off":o,"len":l}),
            Op::Harvest => json!({"op":"get_and_reset"}),
            Op::Clone => json!({"op":"clone"}),
            Op::RegionWrite(o, l) => json!({"op":"region_write","off":o,"len":l}),
        }
    }
    fn from_json(v: &Value) -> Option<Op> {
        let u = |k: &str| v.get(k).and_then(|x| x.as_u64()).map(|x| x as usize);
        Some(match v.get("op")?.as_str()? {
            "set_bit" => Op::SetBit(u("page")?),
            "reset_bit" => Op::ResetBit(u("page")?),
            "set_addr_range" => Op::SetRange(u("start")?, u("len")?),
            "reset_addr_range" => Op::ResetRange(u("start")?, u("len")?),
            "slice_mark" => Op::SliceMark(u("base")?, u("off")?, u("len")?),
            "get_and_reset" => Op::Harvest,
            "clone" => Op::Clone,
            "region_write" => Op::RegionWrite(u("off")?, u("len")?),
            _ => return None,
        })
    }
    /// pages marked (in order) / reset by this op; ranges are in bytes, `page` bytes per page
    fn marks(&self, page: usize) -> Vec<usize> {
        // (capped far above any bitmap of the harnesses: ranges may run to usize::MAX)
        let span = |s: usize, l: usize| if l == 0 { vec![] } else { (s / page..=(s.saturating_add(l - 1) / page).min(4096)).collect() };
        match self {
            Op::SetBit(p) => vec![*p],
            Op::SetRange(s, l) => span(*s, *l),
            Op::SliceMark(b, o, l) => span(*b + *o, *l),
            Op::RegionWrite(o, l) => span(*o, *l),
            _ => vec![],
        }
    }
    fn resets(&self, page: usize) -> Vec<usize> {
        match self {
            Op::ResetBit(p) => vec![*p],
            Op::ResetRange(s, l) if *l > 0 => (*s / page..=(s.saturating_add(*l - 1) / page).min(4096)).collect(),
            _ => vec![],
        }
    }
}

#[derive(Clone, Debug)]
pub struct Harness {
    pub name: String,
    pub pages: usize,
    pub threads: Vec<Vec<Op>>,
    pub bound: Option<u32>,
    /// pages marked (sequentially) before the threads start
    pub init: Vec<usize>,
    /// bytes per page; the tracked range is `pages * page - slack` bytes (a partial last page
    /// when slack > 0)
    pub page: usize,
    pub slack: usize,
}

impl Harness {
    fn to_json(&self) -> Value {
        json!({
            "name": self.name, "pages": self.pages, "page_size": self.page, "slack": self.slack, "premarked": self.init,
            "threads": self.threads.iter().map(|t| t.iter().map(|o| o.to_json()).collect::<Vec<_>>()).collect::<Vec<_>>(),
        })
    }
    fn from_json(v: &Value) -> Option<Harness> {
        let threads = v
            .get("threads")?
            .as_array()?
            .iter()
            .map(|t| t.as_array().map(|a| a.iter().filter_map(Op::from_json).collect::<Vec<_>>()))
            .collect::<Option<Vec<_>>>()?;
        Some(Harness {
            name: v.get("name")?.as_str()?.to_string(),
            pages: v.get("pages")?.as_u64()? as usize,
            threads,
            bound: None,
            init: v.get("premarked").and_then(|a| a.as_array()).map(|a| a.iter().filter_map(|x| x.as_u64().map(|x| x as usize)).collect()).unwrap_or_default(),
            page: v.get("page_size").and_then(|x| x.as_u64()).unwrap_or(1).max(1) as usize,
            slack: v.get("slack").and_then(|x| x.as_u64()).unwrap_or(0) as usize,
        })
    }
    fn byte_size(&self) -> usize {
        self.pages * self.page - self.slack
    }
    fn needs_region(&self) -> bool {
        self.threads
            .iter()
            .flatten()
            .any(|o| matches!(o, Op::RegionWrite(..)))
    }
}

enum Subject {
    Bm(AtomicBitmap),
    Region(GuestRegionMmap<AtomicBitmap>),
}

impl Subject {
    fn bm(&self) -> &AtomicBitmap {
        match self {
            Subject::Bm(b) => b,
            Subject::Region(r) => r.bitmap(),
        }
    }
}

enum Out {
    Harvest(Vec<u64>),
    Clone(AtomicBitmap),
}

fn bits(words: &[u64]) -> BTreeSet<usize> {
    let mut s = BTreeSet::new();
    for (w, v) in words.iter().enumerate() {
        for b in 0..64 {
            if v & (1u64 << b) != 0 {
                s.insert(w * 64 + b);
            }
        }
    }
    s
}

/// Logs the return of an operation when it goes out of scope (also on unwinding).
struct ReturnEvent<'a> {
    calls: &'a Mutex<Vec<(usize, usize, bool)>>,
    tid: usize,
    i: usize,
}

impl Drop for ReturnEvent<'_> {
    fn drop(&mut self) {
        if let Ok(mut g) = self.calls.lock() {
            g.push((self.tid, self.i, true));
        }
    }
}

struct ExecOutcome {
    violation: Option<(String, String)>, // (key suffix, detail)
    outcome: String,
    steps_per_thread: Vec<usize>,
    trace: Vec<String>,
    machinery: Option<String>,
}

fn execute(h: &Harness, ex: &mut Explorer) -> ExecOutcome {
    let one = NonZeroUsize::new(h.page).unwrap();
    let subject = if h.needs_region() {
        let region = MmapRegionBuilder::new_with_bitmap(h.pages, AtomicBitmap::new(h.pages, one))
            .with_mmap_prot(libc::PROT_READ | libc::PROT_WRITE)
            .with_mmap_flags(libc::MAP_ANONYMOUS | libc::MAP_PRIVATE)
            .build()
            .expect("mmap");
        Subject::Region(GuestRegionMmap::new(region, GuestAddress(0x1000)).unwrap())
    } else {
        Subject::Bm(AtomicBitmap::new(h.byte_size(), one))
    };
    for p in &h.init {
        subject.bm().set_bit(*p);
    }
    let subject = Arc::new(subject);
    let outs: Arc<Mutex<Vec<(usize, usize, Out)>>> = Arc::new(Mutex::new(Vec::new()));
    // call / return events in execution order (one thread runs at a time under the scheduler,
    // and this lock is not a scheduling point): (thread, op index, is_return)
    let calls: Arc<Mutex<Vec<(usize, usize, bool)>>> = Arc::new(Mutex::new(Vec::new()));
    let mut bodies: Vec<ThreadBody> = Vec::new();
    for (tid, ops) in h.threads.iter().enumerate() {
        let ops = ops.clone();
        let subject = subject.clone();
        let outs = outs.clone();
        let calls = calls.clone();
        bodies.push(Box::new(move || {
            let bm = subject.bm();
            for (i, op) in ops.iter().enumerate() {
                calls.lock().unwrap().push((tid, i, false));
                let _ret = ReturnEvent { calls: &calls, tid, i };
                match op {
                    Op::SetBit(p) => bm.set_bit(*p),
                    Op::ResetBit(p) => bm.reset_bit(*p),
                    Op::SetRange(s, l) => bm.set_addr_range(*s, *l),
                    Op::ResetRange(s, l) => bm.reset_addr_range(*s, *l),
                    Op::SliceMark(b, o, l) => bm.slice_at(*b).mark_dirty(*o, *l),
                    Op::Harvest => {
                        let w = bm.get_and_reset();
                        outs.lock().unwrap().push((tid, i, Out::Harvest(w)));
                    }
                    Op::Clone => {
                        let c = bm.clone();
                        outs.lock().unwrap().push((tid, i, Out::Clone(c)));
                    }
                    Op::RegionWrite(o, l) => {
                        if let Subject::Region(r) = &*subject {
                            let buf = vec![0xa5u8; *l];
                            let n = r.write(&buf, MemoryRegionAddress(*o as u64)).unwrap();
                            assert_eq!(n, *l);
                        }
                    }
                }
            }
        }));
    }
    let res = run_threads(ex, bodies, 10_000);
    let trace = res.normalized();
    let mut steps = vec![0usize; h.threads.len()];
    for (t, _) in &res.trace {
        steps[*t] += 1;
    }
    let mut oc = ExecOutcome {
        violation: None,
        outcome: String::new(),
        steps_per_thread: steps,
        trace,
        machinery: None,
    };
    if let Some(d) = &ex.diverged {
        oc.machinery = Some(format!("divergence while replaying: {}", d));
        return oc;
    }
    if res.deadlock || res.horizon_hit {
        oc.violation = Some((
            "no-progress".into(),
            format!("deadlock={} horizon_hit={}", res.deadlock, res.horizon_hit),
        ));
        return oc;
    }
    if !res.panics.is_empty() {
        oc.violation = Some(("panic".into(), format!("{:?}", res.panics)));
        return oc;
    }
    // ---- oracle -------------------------------------------------------------------------
    let bm = subject.bm();
    let final_words = bm.get_and_reset();
    let final_set = bits(&final_words);
    let mut marked: BTreeMap<usize, usize> = BTreeMap::new();
    let mut reset: BTreeSet<usize> = BTreeSet::new();
    for p in &h.init {
        *marked.entry(*p).or_insert(0) += 1;
    }
    for ops in &h.threads {
        for op in ops {
            for p in op.marks(h.page) {
                if p < h.pages {
                    *marked.entry(p).or_insert(0) += 1;
                }
            }
            for p in op.resets(h.page) {
                reset.insert(p);
            }
        }
    }
    let outs = outs.lock().unwrap();
    let mut reported: BTreeMap<usize, usize> = BTreeMap::new();
    let mut outcome = Vec::new();
    let mut sorted: Vec<&(usize, usize, Out)> = outs.iter().collect();
    sorted.sort_by_key(|(t, i, _)| (*t, *i));
    for (t, i, o) in sorted {
        match o {
            Out::Harvest(w) => {
                let s = bits(w);
                outcome.push(format!("h{}.{}={:?}", t, i, s));
                for p in s {
                    *reported.entry(p).or_insert(0) += 1;
                }
            }
            Out::Clone(c) => {
                let words = c.get_and_reset();
                let s = bits(&words);
                outcome.push(format!("c{}.{}={:?}", t, i, s));
                if c.len() != h.pages || c.byte_size() != h.byte_size() {
                    oc.violation = Some((
                        "clone-geometry".into(),
                        format!("clone len {} byte_size {}", c.len(), c.byte_size()),
                    ));
                }
                // every clone word must be a value the original word held at some time: with
                // markers only (no reset/harvest in clone harnesses) that is a union of one
                // prefix of each marker thread's bit sequence within that word.
                let only_markers = h
                    .threads
                    .iter()
                    .flatten()
                    .all(|o| o.resets(h.page).is_empty() && *o != Op::Harvest);
                for p in &s {
                    if !marked.contains_key(p) {
                        oc.violation = Some((
                            "clone-phantom".into(),
                            format!("clone shows page {} that nobody marked", p),
                        ));
                    }
                }
                if only_markers {
                    for w in 0..words.len() {
                        for ops in &h.threads {
                            let seq: Vec<usize> = ops
                                .iter()
                                .flat_map(|o| o.marks(h.page))
                                .filter(|p| p / 64 == w && *p < h.pages)
                                .collect();
                            let mut gap = false;
                            for p in &seq {
                                let present = s.contains(p);
                                // a page marked by several threads may be present for another reason
                                let shared = marked.get(p).copied().unwrap_or(0) > 1;
                                if !present {
                                    gap = true;
                                } else if gap && !shared {
                                    oc.violation = Some((
                                        "clone-not-a-past-value".into(),
                                        format!(
                                            "clone word {} = {:?} is not a value the original held (marks in order {:?})",
                                            w, s, seq
                                        ),
                                    ));
                                }
                            }
                        }
                    }
                }
                // independence: a later mark in the original must not show up in the clone
                bm.set_bit(0);
                if c.is_bit_set(0) {
                    oc.violation =
                        Some(("clone-aliases-original".into(), "mark after clone visible in clone".into()));
                }
                bm.reset_bit(0);
            }
        }
    }
    outcome.push(format!("final={:?}", final_set));
    for p in &final_set {
        *reported.entry(*p).or_insert(0) += 1;
    }
    for (p, n) in &reported {
        if *p >= h.pages {
            oc.violation = Some((
                "index-beyond-page-count".into(),
                format!("page {} reported but the bitmap has {} pages", p, h.pages),
            ));
        }
        match marked.get(p) {
            None => {
                oc.violation = Some((
                    "phantom".into(),
                    format!("page {} reported {} time(s) but nobody marked it", p, n),
                ))
            }
            Some(m) if n > m => {
                oc.violation = Some((
                    "duplicated".into(),
                    format!("page {} reported {} times but marked only {} time(s)", p, n, m),
                ))
            }
            _ => {}
        }
    }
    for (p, _) in &marked {
        if !reset.contains(p) && reported.get(p).copied().unwrap_or(0) == 0 {
            oc.violation = Some((
                "lost-mark".into(),
                format!(
                    "page {} was marked, never reset, but no fetch-and-clear reported it and it is not set at the end",
                    p
                ),
            ));
        }
    }
    // real-time order: a mark takes effect between its call and its return and stays until a
    // clearing operation that takes effect later. So for every mark call M of page p: p is set at
    // the end, or a fetch-and-clear that returned after M was called reported p, or a reset
    // covering p returned after M was called. (A harvest that returned before the mark was even
    // called cannot account for it.)
    {
        let calls = calls.lock().unwrap();
        let pos = |t: usize, i: usize, ret: bool| calls.iter().position(|e| *e == (t, i, ret));
        let mut harvest_sets: BTreeMap<(usize, usize), BTreeSet<usize>> = BTreeMap::new();
        for (t, i, o) in outs.iter() {
            if let Out::Harvest(w) = o {
                harvest_sets.insert((*t, *i), bits(w));
            }
        }
        for (t, ops) in h.threads.iter().enumerate() {
            for (i, op) in ops.iter().enumerate() {
                let begin = match pos(t, i, false) {
                    Some(b) => b,
                    None => continue,
                };
                for p in op.marks(h.page) {
                    if p >= h.pages || final_set.contains(&p) {
                        continue;
                    }
                    let mut accounted = false;
                    for (t2, ops2) in h.threads.iter().enumerate() {
                        for (i2, op2) in ops2.iter().enumerate() {
                            let end2 = pos(t2, i2, true).unwrap_or(usize::MAX);
                            if end2 < begin {
                                continue;
                            }
                            if op2.resets(h.page).contains(&p) {
                                accounted = true;
                            }
                            if *op2 == Op::Harvest && harvest_sets.get(&(t2, i2)).map_or(false, |s| s.contains(&p)) {
                                accounted = true;
                            }
                        }
                    }
                    if !accounted && oc.violation.is_none() {
                        oc.violation = Some((
                            "mark-after-harvest-lost".into(),
                            format!(
                                "thread {} op {} ({:?}) marked page {} after every fetch-and-clear that reported it had already returned, no reset of it was pending, and it is not set at the end",
                                t, i, op, p
                            ),
                        ));
                    }
                }
            }
        }
    }
    oc.outcome = outcome.join(";");
    oc
}

fn harnesses(tier: Tier) -> Vec<Harness> {
    use Op::*;
    let h = |name: &str, threads: Vec<Vec<Op>>, bound: Option<u32>| Harness {
        name: name.to_string(),
        pages: 130,
        threads,
        bound,
        init: vec![],
        page: 1,
        slack: 0,
    };
    let hi = |name: &str, init: Vec<usize>, threads: Vec<Vec<Op>>, bound: Option<u32>| Harness {
        name: name.to_string(),
        pages: 130,
        threads,
        bound,
        init,
        page: 1,
        slack: 0,
    };
    // page sizes above one byte, the tracked range ending in a partial page
    let hg = |name: &str, pages: usize, page: usize, slack: usize, init: Vec<usize>, threads: Vec<Vec<Op>>| Harness {
        name: name.to_string(),
        pages,
        threads,
        bound: None,
        init,
        page,
        slack,
    };
    let mut v = vec![
        h("two-markers-same-word", vec![vec![SetBit(3)], vec![SetBit(5)]], None),
        h("two-markers-same-page", vec![vec![SetBit(63)], vec![SetRange(62, 3)]], None),
        h("marker-range-vs-harvest", vec![vec![SetRange(62, 5)], vec![Harvest]], None),
        h(
            "two-markers-vs-harvest",
            vec![vec![SetRange(62, 5)], vec![SetBit(63), SetBit(64)], vec![Harvest]],
            None,
        ),
        h("reset-vs-mark-same-word", vec![vec![ResetRange(10, 2)], vec![SetBit(12), SetBit(9)]], None),
        h("reset-bit-vs-mark", vec![vec![ResetBit(70)], vec![SetRange(69, 3)]], None),
        h("marker-vs-clone", vec![vec![SetRange(62, 5)], vec![Clone]], None),
        h("two-markers-vs-clone", vec![vec![SetRange(62, 3)], vec![SetBit(1), SetBit(65)], vec![Clone]], None),
        h("two-harvesters-vs-marker", vec![vec![Harvest], vec![Harvest], vec![SetRange(63, 2)]], None),
        h("slice-mark-vs-harvest", vec![vec![SliceMark(60, 3, 3)], vec![Harvest]], None),
        h("guest-write-vs-harvest", vec![vec![RegionWrite(62, 4)], vec![Harvest]], None),
        h(
            "guest-writes-vs-harvest-twice",
            vec![vec![RegionWrite(63, 2)], vec![RegionWrite(64, 2)], vec![Harvest, Harvest]],
            Some(3),
        ),
    ];
    // a word that is already dirty, one thread clearing or marking in it while the other thread
    // (or two others) makes TWO changes to the same word: an update that retries after losing a
    // race must re-apply its own bits only
    v.push(hi("premarked-reset-bit-vs-two-marks-same-word", vec![10], vec![vec![ResetBit(10)], vec![SetBit(12), SetBit(9)]], None));
    v.push(hi("premarked-reset-range-vs-two-markers", vec![10], vec![vec![ResetRange(10, 1)], vec![SetBit(12)], vec![SetBit(9)]], None));
    v.push(hi("premarked-mark-vs-mark-then-harvest", vec![3], vec![vec![SetBit(5)], vec![SetBit(7), Harvest]], None));
    v.push(hi("premarked-range-mark-vs-mark-vs-harvest", vec![3], vec![vec![SetRange(5, 1)], vec![SetBit(7)], vec![Harvest]], None));
    v.push(h("reset-range-vs-mark-vs-harvest", vec![vec![ResetRange(62, 3)], vec![SetBit(63), SetBit(66)], vec![Harvest]], None));
    v.push(h("nested-slice-mark-vs-reset-bit", vec![vec![SliceMark(32, 31, 3)], vec![ResetBit(64), SetBit(64)]], None));
    v.push(h("clone-vs-reset-vs-mark", vec![vec![Clone], vec![ResetBit(5)], vec![SetBit(5), SetBit(6)]], None));
    // words that are already dirty when the race starts (a harvest of a clean word may take a
    // shortcut that a harvest of a dirty one cannot)
    v.push(hi("premarked-word-harvest-vs-mark", vec![3], vec![vec![Harvest], vec![SetBit(7)]], None));
    v.push(hi("premarked-word-harvest-vs-mark-range", vec![62, 70], vec![vec![Harvest], vec![SetRange(63, 2)]], None));
    v.push(hi("premarked-word-harvest-vs-two-marks", vec![3], vec![vec![Harvest], vec![SetBit(7), SetBit(3)]], None));
    v.push(hi("premarked-word-reset-range-vs-mark", vec![10], vec![vec![ResetRange(10, 1)], vec![SetBit(12)]], None));
    v.push(hi("premarked-word-reset-bit-vs-mark", vec![10], vec![vec![ResetBit(10)], vec![SetRange(12, 1)]], None));
    v.push(hi("premarked-two-words-harvest-vs-guest-write", vec![1, 65], vec![vec![Harvest], vec![RegionWrite(63, 2)]], None));
    // a range whose end pages are already dirty (from other threads, or from before) while its
    // interior is not: every page of the range has to end up marked
    v.push(hi("premarked-ends-range-mark-vs-harvest", vec![60, 66], vec![vec![SetRange(60, 7)], vec![Harvest]], None));
    v.push(hi("premarked-ends-slice-mark-vs-mark", vec![62, 65], vec![vec![SliceMark(60, 2, 4)], vec![SetBit(63)]], None));
    v.push(h("end-markers-vs-range-mark", vec![vec![SetBit(62)], vec![SetBit(66)], vec![SetRange(62, 5)]], None));
    v.push(h("range-reset-middle-range-again", vec![vec![SetRange(62, 5), ResetRange(63, 3), SetRange(62, 5)], vec![SetBit(0)]], None));
    // resets of 64 pages and more, not aligned to a bitmap word: pages outside the range keep
    // their marks, whether they were made before or are being made by another thread
    v.push(hi("long-unaligned-reset-vs-mark-below", vec![3], vec![vec![ResetRange(10, 71)], vec![SetBit(5)]], None));
    v.push(hi("long-unaligned-reset-vs-mark-above", vec![100], vec![vec![ResetRange(1, 64)], vec![SetBit(70)]], None));
    v.push(hi("long-reset-vs-mark-range", vec![2, 127], vec![vec![ResetRange(40, 80)], vec![SetRange(20, 2)]], None));
    // the same page marked again after a fetch-and-clear (histories on one page)
    v.push(h("remark-vs-harvest", vec![vec![SetRange(70, 1), SetRange(70, 1)], vec![Harvest]], None));
    v.push(h("remark-set-bit-vs-harvest", vec![vec![SetBit(70), SetBit(70)], vec![Harvest]], None));
    v.push(h("remark-via-slice-vs-harvest", vec![vec![SliceMark(64, 6, 1), SliceMark(64, 6, 1)], vec![Harvest]], None));
    v.push(h("harvest-then-mark-vs-marker", vec![vec![Harvest, SetRange(70, 1)], vec![SetRange(70, 1)]], None));
    v.push(h("remark-vs-reset-bit", vec![vec![SetRange(70, 1), SetRange(70, 1)], vec![ResetBit(70)]], None));
    v.push(h("guest-rewrite-vs-harvest", vec![vec![RegionWrite(70, 1), RegionWrite(70, 1)], vec![Harvest]], None));
    v.push(h("remark-vs-harvest-twice", vec![vec![SetRange(70, 1), SetRange(70, 1), SetRange(70, 1)], vec![Harvest, Harvest]], Some(4)));
    // the last page is a partial one (and the page count is not a multiple of 64): its mark is
    // harvested like any other
    v.push(hg("partial-last-page-mark-vs-harvest", 70, 128, 111, vec![], vec![vec![SetRange(69 * 128 + 3, 5)], vec![Harvest]]));
    v.push(hg("partial-last-page-set-bit-vs-harvest", 70, 128, 111, vec![0], vec![vec![SetBit(69), SetBit(68)], vec![Harvest]]));
    v.push(hg("partial-last-page-range-into-it-vs-harvest-twice", 3, 4, 3, vec![], vec![vec![SetRange(6, 3)], vec![Harvest, Harvest]]));
    v.push(hg("partial-last-page-premarked-harvest-vs-reset", 66, 5, 1, vec![65, 64], vec![vec![Harvest], vec![ResetRange(64 * 5, 5), SetBit(65)]]));
    v.push(hg("partial-single-page-mark-vs-harvest-vs-clone", 1, 4096, 4000, vec![], vec![vec![SetRange(10, 50)], vec![Harvest], vec![Clone]]));
    v.push(hg("whole-pages-wide-mark-vs-harvest", 65, 7, 0, vec![], vec![vec![SetRange(63 * 7 + 6, 2), SetBit(0)], vec![Harvest]]));
    // marks and resets that run past the end of a bitmap whose page count is not a multiple of
    // 64: the harvest reports existing pages only, a clone holds existing pages only
    // marks made through the Bitmap trait (slices) on page sizes that are not a power of two,
    // short ranges that cross a page boundary, inside one word and across two words
    v.push(hg("odd-page-slice-mark-across-pages-vs-harvest", 70, 100, 0, vec![], vec![vec![SliceMark(0, 95, 10)], vec![Harvest]]));
    v.push(hg("odd-page-slice-mark-across-words-vs-harvest", 70, 100, 0, vec![], vec![vec![SliceMark(0, 6395, 16), SliceMark(100, 195, 10)], vec![Harvest]]));
    v.push(hg("three-byte-pages-slice-mark-vs-harvest-vs-mark", 9, 3, 1, vec![], vec![vec![SliceMark(0, 1, 3)], vec![Harvest], vec![SliceMark(3, 4, 3)]]));
    v.push(hg("odd-page-nested-slice-mark-vs-reset", 9, 7, 0, vec![1], vec![vec![SliceMark(7, 5, 4)], vec![ResetRange(7, 7), SliceMark(0, 13, 2)]]));
    // (the library visits every page of the range, existing or not, and each visit is a
    // scheduling point: preemption-bounded)
    v.push(h("mark-past-the-end-vs-harvest", vec![vec![SetRange(128, 64)], vec![Harvest]], Some(2)));
    v.push(h("mark-past-the-end-vs-harvest-vs-clone", vec![vec![SetRange(127, 66)], vec![Harvest], vec![Clone]], Some(2)));
    v.push(hi("reset-past-the-end-vs-mark", vec![129, 3], vec![vec![ResetRange(128, 70)], vec![SetBit(129), SetBit(1)]], Some(2)));
    let mut w = hg("wide-pages-mark-past-the-end-vs-harvest", 70, 128, 111, vec![], vec![vec![SetRange(64 * 128, 64 * 128)], vec![Harvest, Harvest]]);
    w.bound = Some(2);
    v.push(w);
    let mut w = hg("nine-pages-mark-all-vs-harvest", 9, 1, 0, vec![], vec![vec![SetRange(0, 64), SetBit(8)], vec![Harvest]]);
    w.bound = Some(2);
    v.push(w);
    if tier.thorough() {
        v.push(h(
            "3x2-ops-mark-harvest",
            vec![
                vec![SetRange(62, 4), SetBit(0)],
                vec![SetRange(63, 3), Harvest],
                vec![Harvest, Harvest],
            ],
            Some(3),
        ));
        v.push(h(
            "3x2-ops-mark-reset-harvest",
            vec![
                vec![SetRange(62, 4), ResetBit(1)],
                vec![SetBit(1), SetBit(64)],
                vec![Harvest, SetBit(2)],
            ],
            None,
        ));
        v.push(h(
            "two-markers-long-vs-harvest",
            vec![vec![SetRange(60, 8)], vec![SetRange(62, 4)], vec![Harvest]],
            None,
        ));
        v.push(h(
            "marker-vs-two-clones",
            vec![vec![SetRange(62, 5)], vec![Clone], vec![Clone]],
            None,
        ));
        v.push(h(
            "guest-write-long-vs-two-harvesters",
            vec![vec![RegionWrite(60, 8)], vec![Harvest], vec![Harvest]],
            None,
        ));
    }
    v
}

fn run_harness(ctx: &Ctx, h: &Harness, workers: usize) {
    // determinism self-check: replay the default schedule twice
    let mut e1 = Explorer::for_replay(&[]);
    e1.begin();
    let a = execute(h, &mut e1);
    let mut e2 = Explorer::for_replay(&[]);
    e2.begin();
    let b = execute(h, &mut e2);
    if a.trace != b.trace || a.outcome != b.outcome {
        ctx.machinery(&format!(
            "harness {}: the default schedule is not deterministic: {:?} vs {:?}",
            h.name, a.trace, b.trace
        ));
        return;
    }
    let outcomes: Mutex<BTreeSet<String>> = Mutex::new(BTreeSet::new());
    let steps_seen: Mutex<BTreeSet<Vec<usize>>> = Mutex::new(BTreeSet::new());
    let first_sample: Mutex<Option<Value>> = Mutex::new(None);
    // budget: a change to the code under test can multiply the atomic steps of an operation and
    // with it the number of schedules; the harness then stops at the cap and says so
    let cap: u64 = if std::env::var("VERIF_TIER").map_or(false, |t| t == "thorough") { 30_000_000 } else { 300_000 };
    let done = std::sync::atomic::AtomicU64::new(0);
    let capped = std::sync::atomic::AtomicBool::new(false);
    let body = |ex: &mut Explorer| -> bool {
        if done.fetch_add(1, std::sync::atomic::Ordering::Relaxed) >= cap {
            capped.store(true, std::sync::atomic::Ordering::Relaxed);
            return false;
        }
        let oc = execute(h, ex);
        if let Some(m) = oc.machinery {
            ctx.machinery(&format!("harness {}: {}", h.name, m));
            return false;
        }
        steps_seen.lock().unwrap().insert(oc.steps_per_thread.clone());
        outcomes.lock().unwrap().insert(oc.outcome.clone());
        {
            let mut fs = first_sample.lock().unwrap();
            if fs.is_none() {
                *fs = Some(json!({"harness": h.to_json(), "schedule": ex.current_choices(), "trace": oc.trace, "outcome": oc.outcome}));
            }
        }
        if let Some((k, d)) = oc.violation {
            let key = format!("C08/{}/{}", h.name, k);
            ctx.fail(
                &key,
                &d,
                json!({"harness": h.to_json(), "schedule": ex.current_choices(), "trace": oc.trace, "detail": d}),
            );
            return false;
        }
        true
    };
    let stats = explore_parallel(h.bound, 3, workers, &body);
    if let Some(d) = &stats.diverged {
        ctx.machinery(&format!("harness {}: divergence: {}", h.name, d));
    }
    ctx.add_traces(stats.executions);
    ctx.add_states(stats.nodes);
    ctx.add_transitions(stats.nodes);
    let outcomes = outcomes.into_inner().unwrap();
    let steps_seen = steps_seen.into_inner().unwrap();
    let mut info = json!({
        "harness": h.name,
        "threads": h.threads.len(),
        "schedules": stats.executions,
        "choice_tree_nodes": stats.nodes,
        "max_depth": stats.max_depth,
        "preemption_bound": h.bound.map(|b| json!(b)).unwrap_or(json!("unbounded")),
        "distinct_outcomes": outcomes.len(),
        "stopped_at_first_violation": stats.stopped_early,
    });
    let capped = capped.load(std::sync::atomic::Ordering::Relaxed);
    if capped {
        info["capped_at_schedules"] = json!(cap);
        println!("NOTE: C08 harness {} stopped at the budget of {} schedules (not exhaustive for this harness)", h.name, cap);
    }
    if h.bound.is_none() && !stats.stopped_early && steps_seen.len() == 1 {
        let counts = steps_seen.iter().next().unwrap().clone();
        let expect = multinomial(&counts);
        info["steps_per_thread"] = json!(counts);
        info["multinomial_expected"] = json!(expect.to_string());
        info["multinomial_matches"] = json!(expect == stats.executions as u128);
        if expect != stats.executions as u128 {
            ctx.machinery(&format!(
                "harness {}: explored {} schedules but the multinomial of {:?} is {}",
                h.name, stats.executions, counts, expect
            ));
        }
    } else if steps_seen.len() > 1 {
        info["steps_per_thread"] = json!("varies with the schedule");
    }
    if h.bound.is_some() {
        ctx.set_exhaustive(false);
    } else {
        ctx.set_exhaustive(!stats.stopped_early);
    }
    {
        let mut g = ctx_harness_infos().lock().unwrap();
        g.push(info);
    }
    if let Some(s) = first_sample.into_inner().unwrap() {
        ctx.sample(s);
    }
}

fn ctx_harness_infos() -> &'static Mutex<Vec<Value>> {
    static INFOS: Mutex<Vec<Value>> = Mutex::new(Vec::new());
    &INFOS
}

pub fn run(tier: Tier, replay: Option<String>) -> i32 {
    let ctx = crate::new_ctx("C08", tier, "model_checking", &replay);
    ctx.set_rule("stateless DFS over all interleavings of the hooked atomic operations of 2..3 real threads on one AtomicBitmap (130 pages, page size 1: pages 63/64 straddle two words); a state is a node of the choice tree (schedule prefix), every schedule is an execution of the real code; oracle: per page, reports by fetch-and-clear (incl. a final one) are >=1 if marked and never reset and <= number of marks; nothing unmarked or beyond the page count is ever reported; real-time order from the recorded call/return events: for every mark call of a page, the page is set at the end, or was reported by a fetch-and-clear that returned after the mark was called, or a reset of it returned after the mark was called (harnesses that mark the same page again after a harvest); clone words are past values of the original");
    ctx.assume("sequentially consistent interleavings of whole atomic operations (per-word RMW atomicity is all the property needs)");
    ctx.assume("interception is by type: every operation on the bitmap's AtomicU64 words is a scheduling point (hook H2)");
    if let Some(r) = ctx.replay_of.clone() {
        // replay one recorded schedule without the explorer's search
        let case = &r["case"];
        let h = match Harness::from_json(&case["harness"]) {
            Some(h) => h,
            None => {
                eprintln!("MACHINERY: bad replay file");
                return 2;
            }
        };
        let choices: Vec<u32> = case["schedule"]
            .as_array()
            .map(|a| a.iter().filter_map(|x| x.as_u64().map(|x| x as u32)).collect())
            .unwrap_or_default();
        let mut ex = Explorer::for_replay(&choices);
        ex.begin();
        let oc = execute(&h, &mut ex);
        println!("replayed trace: {:?}", oc.trace);
        println!("outcome: {}", oc.outcome);
        if let Some((k, d)) = oc.violation {
            ctx.fail(&format!("C08/{}/{}", h.name, k), &d, case.clone());
        }
        return ctx.finish();
    }
    let mut hs = harnesses(tier);
    // smallest schedule spaces first (estimated from the number of atomic steps the unchanged
    // library makes per operation): should an implementation need more steps per operation, the
    // caps are reached in the largest harnesses last, after the small ones were explored fully
    hs.sort_by_key(|h| {
        let words = h.pages.div_ceil(64);
        let steps: Vec<usize> = h
            .threads
            .iter()
            .map(|t| t.iter().map(|o| match o {
                Op::Harvest | Op::Clone => words,
                o => o.marks(h.page).len().max(o.resets(h.page).len()).clamp(1, 80),
            }).sum::<usize>())
            .collect();
        multinomial(&steps).min(u64::MAX as u128) as u64
    });
    // the harnesses run smallest first; a wall-clock budget hit on a loaded machine is a coverage
    // statement (recorded in the evidence), never a verdict and never a failure of the check
    let mut skipped: Vec<String> = Vec::new();
    let mut capped = false;
    for h in &hs {
        if capped {
            skipped.push(h.name.to_string());
            continue;
        }
        run_harness(&ctx, h, 14);
        if ctx.elapsed() > if tier.thorough() { 3000.0 } else { 900.0 } {
            capped = true;
        }
    }
    if !skipped.is_empty() {
        println!("NOTE: wall-clock budget reached; {} of {} harnesses not explored in this run: {:?}", skipped.len(), hs.len(), skipped);
        ctx.assume(&format!("wall-clock budget reached in this run: harnesses not explored: {:?}", skipped));
    }
    if !skipped.is_empty() {
        ctx.set_exhaustive(false);
    }
    ctx.extra("harnesses_not_explored_budget", json!(skipped));
    let infos = ctx_harness_infos().lock().unwrap().clone();
    let total_outcomes: u64 = infos.iter().map(|i| i["distinct_outcomes"].as_u64().unwrap_or(0)).sum();
    ctx.extra("harnesses", json!(infos));
    ctx.extra("schedules", json!(ctx.traces.load(std::sync::atomic::Ordering::Relaxed)));
    ctx.extra("distinct_outcomes_total", json!(total_outcomes));
    ctx.finish()
}
