//! C03 — guest memory reads and writes behave like one flat sparse byte array (E1 + inputs).

use crate::layouts::{build_mmap, build_mmap_file, build_mmap_route_checked, cell_layouts, Layout, MockMemory, RegionPtrs};
use crate::report::{hex, Ctx, Tier};
use serde_json::{json, Value};
use std::collections::{HashSet, VecDeque};
use std::os::unix::fs::FileExt;
use std::sync::atomic::Ordering;
use vm_memory::{Bytes, GuestAddress, GuestMemory, GuestMemoryError, GuestMemoryRegion};

#[derive(Clone, Copy, Debug, PartialEq, Eq, Hash, PartialOrd, Ord)]
pub enum Route {
    Write,
    WriteSlice,
    WriteObj,
    ReadFrom,
    ReadExactFrom,
    Store,
    Read,
    ReadSlice,
    ReadObj,
    WriteTo,
    WriteAllTo,
    Load,
    /// the same stream forms over a stream that moves at most 2 (reader) / 3 (writer) bytes per call
    ReadFromShort,
    ReadExactFromShort,
    WriteToShort,
    WriteAllToShort,
}

pub const ROUTES: [Route; 16] = [
    Route::Write,
    Route::WriteSlice,
    Route::WriteObj,
    Route::ReadFrom,
    Route::ReadExactFrom,
    Route::Store,
    Route::Read,
    Route::ReadSlice,
    Route::ReadObj,
    Route::WriteTo,
    Route::WriteAllTo,
    Route::Load,
    Route::ReadFromShort,
    Route::ReadExactFromShort,
    Route::WriteToShort,
    Route::WriteAllToShort,
];

/// A reader / writer that moves only a few bytes per call although it has more.
pub struct Chunked {
    pub data: Vec<u8>,
    pub pos: usize,
    pub chunk: usize,
    /// calls made so far; with `eintr` every even-numbered call (the first, the third, ...)
    /// reports ErrorKind::Interrupted and moves nothing
    pub calls: usize,
    pub eintr: bool,
}

impl Chunked {
    fn interrupted(&mut self) -> bool {
        self.calls += 1;
        self.eintr && self.calls % 2 == 1
    }
}

impl vm_memory::ReadVolatile for Chunked {
    fn read_volatile<B: vm_memory::bitmap::BitmapSlice>(&mut self, buf: &mut vm_memory::VolatileSlice<B>) -> Result<usize, vm_memory::VolatileMemoryError> {
        if self.interrupted() {
            return Err(vm_memory::VolatileMemoryError::IOError(std::io::Error::from(std::io::ErrorKind::Interrupted)));
        }
        let n = buf.len().min(self.chunk).min(self.data.len() - self.pos);
        let r = buf.write(&self.data[self.pos..self.pos + n], 0);
        let _ = r;
        self.pos += n;
        Ok(n)
    }
}

impl vm_memory::WriteVolatile for Chunked {
    fn write_volatile<B: vm_memory::bitmap::BitmapSlice>(&mut self, buf: &vm_memory::VolatileSlice<B>) -> Result<usize, vm_memory::VolatileMemoryError> {
        if self.interrupted() {
            return Err(vm_memory::VolatileMemoryError::IOError(std::io::Error::from(std::io::ErrorKind::Interrupted)));
        }
        let n = buf.len().min(self.chunk);
        let mut tmp = vec![0u8; n];
        let _ = buf.read(&mut tmp, 0);
        self.data.extend_from_slice(&tmp);
        Ok(n)
    }
}

impl Route {
    /// the route whose reference semantics this one shares
    pub fn base(self) -> Route {
        match self {
            Route::ReadFromShort => Route::ReadFrom,
            Route::ReadExactFromShort => Route::ReadExactFrom,
            Route::WriteToShort => Route::WriteTo,
            Route::WriteAllToShort => Route::WriteAllTo,
            r => r,
        }
    }
}

impl Route {
    pub fn is_write(self) -> bool {
        matches!(self.base(), Route::Write | Route::WriteSlice | Route::WriteObj | Route::ReadFrom | Route::ReadExactFrom | Route::Store)
    }
    fn from_str(s: &str) -> Option<Route> {
        ROUTES.iter().cloned().find(|r| format!("{:?}", r) == s)
    }
    /// lengths this route can express
    fn supports(self, len: usize) -> bool {
        match self {
            Route::WriteObj | Route::ReadObj => matches!(len, 1 | 2 | 3 | 4 | 5 | 8 | 16),
            Route::Store | Route::Load => matches!(len, 1 | 2 | 4 | 8),
            _ => true,
        }
    }
}

#[derive(Clone, Copy, Debug, PartialEq, Eq, Hash)]
pub struct Op {
    pub route: Route,
    pub addr: u64,
    pub len: usize,
    pub tag: u8,
}

impl Op {
    fn data(&self) -> Vec<u8> {
        // tags from 0xF0: payloads an implementation may be tempted to treat specially - nothing
        // but zeroes, zeroes around one set byte, nothing but ones
        match self.tag {
            0xF0 => return vec![0u8; self.len],
            0xF1 => {
                let mut v = vec![0u8; self.len];
                if let Some(x) = v.last_mut() {
                    *x = 1;
                }
                return v;
            }
            0xF2 => return vec![0xFFu8; self.len],
            0xF3 => {
                let mut v = vec![0u8; self.len];
                if let Some(x) = v.first_mut() {
                    *x = 0x80;
                }
                return v;
            }
            _ => {}
        }
        // (the high bits of the index are mixed in so that long buffers have no short period)
        (0..self.len).map(|j| 0x80 | (self.tag.wrapping_mul(17).wrapping_add(j as u8).wrapping_add(((j >> 7) as u8).wrapping_mul(5)) & 0x7f)).collect()
    }
    fn to_json(&self) -> Value {
        json!({"route": format!("{:?}", self.route), "addr": self.addr, "len": self.len, "tag": self.tag})
    }
    fn from_json(v: &Value) -> Option<Op> {
        Some(Op {
            route: Route::from_str(v.get("route")?.as_str()?)?,
            addr: v.get("addr")?.as_u64()?,
            len: v.get("len")?.as_u64()? as usize,
            tag: v.get("tag")?.as_u64()? as u8,
        })
    }
}

#[derive(Clone, Debug, PartialEq)]
pub enum Out {
    Count(usize),
    Unit,
    Data(Vec<u8>),
    InvalidAddr,
    Partial(usize, usize),
    OtherErr(String),
}

fn cls<T>(r: Result<T, GuestMemoryError>, f: impl FnOnce(T) -> Out) -> Out {
    match r {
        Ok(v) => f(v),
        Err(GuestMemoryError::InvalidGuestAddress(_)) => Out::InvalidAddr,
        Err(GuestMemoryError::PartialBuffer { expected, completed }) => Out::Partial(expected, completed),
        Err(e) => Out::OtherErr(format!("{:?}", e)),
    }
}

macro_rules! by_len {
    ($len:expr, $f:ident, $($args:expr),*) => {
        match $len {
            1 => $f::<u8, _>($($args),*),
            2 => $f::<u16, _>($($args),*),
            3 => $f::<[u8; 3], _>($($args),*),
            4 => $f::<u32, _>($($args),*),
            5 => $f::<[u8; 5], _>($($args),*),
            8 => $f::<u64, _>($($args),*),
            16 => $f::<u128, _>($($args),*),
            _ => unreachable!(),
        }
    };
}

/// Object access erased to byte level so that the generic memory type does not explode the
/// number of monomorphised copies.
trait ObjAccess {
    fn write_obj_bytes(&self, bytes: &[u8], size: usize, a: GuestAddress) -> Out;
    fn read_obj_bytes(&self, size: usize, a: GuestAddress) -> (Out, Vec<u8>);
}

impl<M: GuestMemory> ObjAccess for M {
    fn write_obj_bytes(&self, bytes: &[u8], size: usize, a: GuestAddress) -> Out {
        fn w<T: vm_memory::ByteValued, M: GuestMemory>(m: &M, bytes: &[u8], a: GuestAddress) -> Out {
            let mut v: T = T::zeroed();
            v.as_mut_slice().copy_from_slice(bytes);
            cls(m.write_obj(v, a), |_| Out::Unit)
        }
        by_len!(size, w, self, bytes, a)
    }
    fn read_obj_bytes(&self, size: usize, a: GuestAddress) -> (Out, Vec<u8>) {
        fn r<T: vm_memory::ByteValued, M: GuestMemory>(m: &M, a: GuestAddress) -> (Out, Vec<u8>) {
            match m.read_obj::<T>(a) {
                Ok(v) => (Out::Data(v.as_slice().to_vec()), vec![]),
                Err(e) => (cls::<()>(Err(e), |_| Out::Unit), vec![]),
            }
        }
        by_len!(size, r, self, a)
    }
}

/// Executes `op` on the real memory. Returns the classified result and, for read routes with a
/// caller-visible buffer, the complete buffer afterwards (prefilled with 0xEE).
/// A local buffer of `len` bytes at a chosen address class modulo 8, between canaries.
struct Padded {
    store: Vec<u8>,
    at: usize,
    len: usize,
}

impl Padded {
    fn new(len: usize, mis: usize, fill: &[u8]) -> Padded {
        let mut store = vec![0xC3u8; len + 32];
        let at = (8 - store.as_ptr() as usize % 8) % 8 + 8 + mis % 8;
        if fill.is_empty() {
            store[at..at + len].fill(0xEE);
        } else {
            store[at..at + len].copy_from_slice(fill);
        }
        Padded { store, at, len }
    }
    fn get(&self) -> &[u8] {
        &self.store[self.at..self.at + self.len]
    }
    fn get_mut(&mut self) -> &mut [u8] {
        &mut self.store[self.at..self.at + self.len]
    }
    /// the buffer contents, followed by a marker if a byte around it changed
    fn result(&self) -> Vec<u8> {
        let mut v = self.get().to_vec();
        if self.store[..self.at].iter().chain(&self.store[self.at + self.len..]).any(|b| *b != 0xC3) {
            v.extend_from_slice(b"<bytes outside the caller's buffer were overwritten>");
        }
        v
    }
}

pub fn exec<M: GuestMemory>(m: &M, op: &Op) -> (Out, Vec<u8>) {
    let a = GuestAddress(op.addr);
    let data = op.data();
    // address class of the local buffer: relative to the class of the guest byte's host address,
    // equal, shifted by the length, or shifted by one (rotating with the operation)
    let g = m.get_host_address(a).map(|p| p as usize % 8).unwrap_or(op.addr as usize % 8);
    let mis = match (op.addr as usize).wrapping_add(op.len).wrapping_add(op.tag as usize) % 3 {
        0 => g,
        1 => (g + op.len) % 8,
        _ => (g + 1) % 8,
    };
    match op.route {
        Route::Write => {
            let src = Padded::new(data.len(), mis, &data);
            (cls(m.write(src.get(), a), Out::Count), vec![])
        }
        Route::WriteSlice => {
            let src = Padded::new(data.len(), mis, &data);
            (cls(m.write_slice(src.get(), a), |_| Out::Unit), vec![])
        }
        Route::WriteObj => {
            (m.write_obj_bytes(&data, op.len, a), vec![])
        }
        Route::ReadFrom => {
            // ample source: twice the count
            let src_data: Vec<u8> = data.iter().cloned().chain(std::iter::repeat(0x7f).take(op.len)).collect();
            let mut src: &[u8] = &src_data;
            let r = cls(m.read_volatile_from(a, &mut src, op.len), Out::Count);
            let consumed = src_data.len() - src.len();
            (r, vec![consumed as u8])
        }
        Route::ReadExactFrom => {
            let src_data: Vec<u8> = data.iter().cloned().chain(std::iter::repeat(0x7f).take(op.len)).collect();
            let mut src: &[u8] = &src_data;
            let r = cls(m.read_exact_volatile_from(a, &mut src, op.len), |_| Out::Unit);
            let consumed = src_data.len() - src.len();
            (r, vec![consumed as u8])
        }
        Route::Store => {
            let r = match op.len {
                1 => cls(m.store(data[0], a, Ordering::SeqCst), |_| Out::Unit),
                2 => cls(m.store(u16::from_ne_bytes([data[0], data[1]]), a, Ordering::SeqCst), |_| Out::Unit),
                4 => cls(m.store(u32::from_ne_bytes(data[..4].try_into().unwrap()), a, Ordering::SeqCst), |_| Out::Unit),
                8 => cls(m.store(u64::from_ne_bytes(data[..8].try_into().unwrap()), a, Ordering::SeqCst), |_| Out::Unit),
                _ => unreachable!(),
            };
            (r, vec![])
        }
        Route::Read => {
            let mut buf = Padded::new(op.len, mis, &[]);
            let r = cls(m.read(buf.get_mut(), a), Out::Count);
            (r, buf.result())
        }
        Route::ReadSlice => {
            let mut buf = Padded::new(op.len, mis, &[]);
            let r = cls(m.read_slice(buf.get_mut(), a), |_| Out::Unit);
            (r, buf.result())
        }
        Route::ReadObj => m.read_obj_bytes(op.len, a),
        Route::WriteTo => {
            let mut sink: Vec<u8> = Vec::new();
            let r = cls(m.write_volatile_to(a, &mut sink, op.len), Out::Count);
            (r, sink)
        }
        Route::WriteAllTo => {
            let mut sink: Vec<u8> = Vec::new();
            let r = cls(m.write_all_volatile_to(a, &mut sink, op.len), |_| Out::Unit);
            (r, sink)
        }
        Route::ReadFromShort | Route::ReadExactFromShort => {
            let src_data: Vec<u8> = data.iter().cloned().chain(std::iter::repeat(0x7f).take(op.len)).collect();
            let total = src_data.len();
            let mut src = Chunked { data: src_data, pos: 0, chunk: 2, calls: 0, eintr: (op.addr as usize).wrapping_add(op.len) % 2 == 1 };
            let r = if op.route == Route::ReadFromShort {
                cls(m.read_volatile_from(a, &mut src, op.len), Out::Count)
            } else {
                cls(m.read_exact_volatile_from(a, &mut src, op.len), |_| Out::Unit)
            };
            let _ = total;
            (r, vec![src.pos as u8])
        }
        Route::WriteToShort | Route::WriteAllToShort => {
            let mut sink = Chunked { data: Vec::new(), pos: 0, chunk: 3, calls: 0, eintr: (op.addr as usize).wrapping_add(op.len) % 2 == 0 };
            let r = if op.route == Route::WriteToShort {
                cls(m.write_volatile_to(a, &mut sink, op.len), Out::Count)
            } else {
                cls(m.write_all_volatile_to(a, &mut sink, op.len), |_| Out::Unit)
            };
            (r, sink.data)
        }
        Route::Load => {
            let r = match op.len {
                1 => cls(m.load::<u8>(a, Ordering::SeqCst), |v| Out::Data(vec![v])),
                2 => cls(m.load::<u16>(a, Ordering::SeqCst), |v| Out::Data(v.to_ne_bytes().to_vec())),
                4 => cls(m.load::<u32>(a, Ordering::SeqCst), |v| Out::Data(v.to_ne_bytes().to_vec())),
                8 => cls(m.load::<u64>(a, Ordering::SeqCst), |v| Out::Data(v.to_ne_bytes().to_vec())),
                _ => unreachable!(),
            };
            (r, vec![])
        }
    }
}

/// The flat sparse byte array.
#[derive(Clone, PartialEq, Eq, Hash)]
pub struct Model {
    pub cells: Vec<Vec<u8>>, // per region
}

impl Model {
    pub fn labelled(l: &Layout) -> Model {
        let mut k = 0u8;
        Model {
            cells: l
                .regs
                .iter()
                .map(|(_, n)| {
                    (0..*n)
                        .map(|_| {
                            k = k.wrapping_add(1);
                            0x10 + (k % 0x6f)
                        })
                        .collect()
                })
                .collect(),
        }
    }
    fn get(&self, l: &Layout, a: u64) -> Option<u8> {
        l.find(a).map(|(i, o)| self.cells[i][o as usize])
    }
    fn set(&mut self, l: &Layout, a: u64, v: u8) {
        if let Some((i, o)) = l.find(a) {
            self.cells[i][o as usize] = v;
        }
    }
    pub fn flat(&self) -> Vec<u8> {
        self.cells.concat()
    }
}

fn load_state<M: GuestMemory + RegionPtrs>(m: &M, model: &Model) {
    for (i, c) in model.cells.iter().enumerate() {
        // SAFETY: region i is c.len() bytes long
        unsafe { std::ptr::copy_nonoverlapping(c.as_ptr(), m.region_ptr(i), c.len()) };
    }
}

fn dump<M: GuestMemory + RegionPtrs>(m: &M, l: &Layout) -> Vec<u8> {
    let mut v = Vec::new();
    for (i, (_, n)) in l.regs.iter().enumerate() {
        // SAFETY: as above
        v.extend_from_slice(unsafe { std::slice::from_raw_parts(m.region_ptr(i), *n as usize) });
    }
    v
}

/// Expected outcome and model update. Returns (expected Out, expected visible buffer / sink /
/// consumed count, whether the outcome class `OtherErr` is acceptable).
pub fn expect(l: &Layout, model: &mut Model, op: &Op, aligned_ok: bool) -> (Out, Vec<u8>) {
    let n = l.run(op.addr, op.len as u128) as usize;
    let data = op.data();
    let base_op = Op { route: op.route.base(), ..*op };
    let op = &base_op;
    match op.route {
        Route::Write | Route::ReadFrom => {
            for j in 0..n {
                model.set(l, op.addr + j as u64, data[j]);
            }
            let aux = if op.route == Route::ReadFrom { vec![n as u8] } else { vec![] };
            if n == 0 {
                (Out::InvalidAddr, if op.route == Route::ReadFrom { vec![0] } else { vec![] })
            } else {
                (Out::Count(n), aux)
            }
        }
        Route::WriteSlice | Route::WriteObj | Route::ReadExactFrom => {
            for j in 0..n {
                model.set(l, op.addr + j as u64, data[j]);
            }
            let aux = if op.route == Route::ReadExactFrom { vec![n as u8] } else { vec![] };
            if n == op.len {
                (Out::Unit, aux)
            } else if n == 0 {
                (Out::InvalidAddr, aux)
            } else {
                (Out::Partial(op.len, n), aux)
            }
        }
        Route::Store => {
            let one = l.find(op.addr).map_or(false, |(i, o)| o + op.len as u64 <= l.regs[i].1);
            if l.find(op.addr).is_none() {
                (Out::InvalidAddr, vec![])
            } else if one && aligned_ok {
                for j in 0..op.len {
                    model.set(l, op.addr + j as u64, data[j]);
                }
                (Out::Unit, vec![])
            } else {
                (Out::OtherErr(String::new()), vec![])
            }
        }
        Route::Read | Route::WriteTo => {
            let mut buf = if op.route == Route::Read { vec![0xEEu8; op.len] } else { vec![] };
            for j in 0..n {
                let b = model.get(l, op.addr + j as u64).unwrap();
                if op.route == Route::Read {
                    buf[j] = b;
                } else {
                    buf.push(b);
                }
            }
            if n == 0 {
                (Out::InvalidAddr, buf)
            } else {
                (Out::Count(n), buf)
            }
        }
        Route::ReadSlice | Route::WriteAllTo => {
            let mut buf = if op.route == Route::ReadSlice { vec![0xEEu8; op.len] } else { vec![] };
            for j in 0..n {
                let b = model.get(l, op.addr + j as u64).unwrap();
                if op.route == Route::ReadSlice {
                    buf[j] = b;
                } else {
                    buf.push(b);
                }
            }
            if n == op.len {
                (Out::Unit, buf)
            } else if n == 0 {
                (Out::InvalidAddr, buf)
            } else {
                (Out::Partial(op.len, n), buf)
            }
        }
        Route::ReadObj => {
            if n == op.len {
                (Out::Data((0..n).map(|j| model.get(l, op.addr + j as u64).unwrap()).collect()), vec![])
            } else if n == 0 {
                (Out::InvalidAddr, vec![])
            } else {
                (Out::Partial(op.len, n), vec![])
            }
        }
        Route::Load => {
            let one = l.find(op.addr).map_or(false, |(i, o)| o + op.len as u64 <= l.regs[i].1);
            if l.find(op.addr).is_none() {
                (Out::InvalidAddr, vec![])
            } else if one && aligned_ok {
                (Out::Data((0..op.len).map(|j| model.get(l, op.addr + j as u64).unwrap()).collect()), vec![])
            } else {
                (Out::OtherErr(String::new()), vec![])
            }
        }
        Route::ReadFromShort | Route::ReadExactFromShort | Route::WriteToShort | Route::WriteAllToShort => unreachable!("mapped to the base route above"),
    }
}

pub fn same_class(got: &Out, want: &Out) -> bool {
    match (got, want) {
        (Out::OtherErr(_), Out::OtherErr(_)) => true,
        _ => got == want,
    }
}

/// One transition: restore `state`, run `op`, compare. Returns the successor state.
fn step<M: GuestMemory + RegionPtrs>(
    ctx: &Ctx,
    imp: &str,
    m: &M,
    l: &Layout,
    state: &Model,
    op: &Op,
    hist: &[Op],
    file: Option<(&std::fs::File, &[u64])>,
) -> Option<Model> {
    load_state(m, state);
    let mut model = state.clone();
    // atomic accesses need a host address aligned to the access size
    let aligned_ok = match l.find(op.addr) {
        Some((i, o)) => (m.region_ptr(i) as usize + o as usize) % op.len.max(1) == 0,
        None => false,
    };
    let (want, want_buf) = expect(l, &mut model, op, aligned_ok);
    let describe = || {
        (
            format!("C03/{}/{:?}", imp, op.route),
            format!("layout {} op {:?} addr {:#x} len {}", l.describe(), op.route, op.addr, op.len),
            json!({"impl": imp, "layout": l.regs, "history": hist.iter().map(|o| o.to_json()).collect::<Vec<_>>(), "op": op.to_json(), "state_before": hex(&state.flat())}),
        )
    };
    let (got, got_buf) = crate::crash::guarded(ctx, &describe, || exec(m, op))?;
    let after = dump(m, l);
    let wraps = op.addr as u128 + op.len as u128 > (1u128 << 64);
    let sub = if wraps { "/wraps-past-2^64" } else { "" };
    let mut bad: Option<(String, String)> = None;
    if !same_class(&got, &want) {
        bad = Some((format!("result{}", sub), format!("returned {:?}, expected {:?}", got, want)));
    } else if after != model.flat() {
        bad = Some((format!("memory{}", sub), format!("guest memory is {} but should be {}", hex(&after), hex(&model.flat()))));
    } else if !matches!(want, Out::OtherErr(_)) && got_buf != want_buf && !(matches!(got, Out::InvalidAddr | Out::Partial(..)) && matches!(op.route.base(), Route::WriteTo | Route::WriteAllTo)) {
        bad = Some((format!("buffer{}", sub), format!("buffer/sink/consumed is {} but should be {}", hex(&got_buf), hex(&want_buf))));
    }
    if bad.is_none() {
        if let Some((f, offs)) = file {
            // file-backed: the backing file must show the same bytes
            for (i, (_, n)) in l.regs.iter().enumerate() {
                let mut b = vec![0u8; *n as usize];
                if f.read_exact_at(&mut b, offs[i]).is_ok() && b != model.cells[i] {
                    bad = Some(("file-coherence".into(), format!("region {} of the backing file holds {} but should hold {}", i, hex(&b), hex(&model.cells[i]))));
                }
            }
        }
    }
    if let Some((k, d)) = bad {
        let key = format!("C03/{}/{:?}/{}", imp, op.route, k);
        let rp = if ctx.has_failed(&key) {
            Value::Null
        } else {
            json!({"impl": imp, "layout": l.regs, "history": hist.iter().map(|o| o.to_json()).collect::<Vec<_>>(), "op": op.to_json(), "state_before": hex(&state.flat())})
        };
        ctx.fail(&key, &format!("layout {} op {:?} addr {:#x} len {}: {}", l.describe(), op.route, op.addr, op.len, d), rp);
        return None;
    }
    Some(model)
}

fn depth1<M: GuestMemory + RegionPtrs>(ctx: &Ctx, imp: &str, m: &M, l: &Layout, base: u64, u: usize, file: Option<(&std::fs::File, &[u64])>) {
    let state = Model::labelled(l);
    let mut t = 0u64;
    for d in -1i64..=(u as i64 + 1) {
        let a = base.wrapping_add(d as u64);
        // skip the addresses that fell off the bottom of the address space
        if base == 0 && d < 0 {
            continue;
        }
        for len in 1..=u + 2 {
            for (ri, route) in ROUTES.iter().enumerate() {
                if !route.supports(len) {
                    continue;
                }
                let op = Op { route: *route, addr: a, len, tag: ri as u8 + 1 };
                t += 1;
                step(ctx, imp, m, l, &state, &op, &[], file);
            }
        }
        for len in [16usize] {
            for route in [Route::WriteObj, Route::ReadObj] {
                let op = Op { route, addr: a, len, tag: 9 };
                t += 1;
                step(ctx, imp, m, l, &state, &op, &[], file);
            }
        }
    }
    ctx.add_transitions(t);
    ctx.add_traces(t);
    ctx.add_states(1);
}

/// BFS over histories of a reduced alphabet; state = complete memory contents.
fn histories<M: GuestMemory + RegionPtrs>(ctx: &Ctx, imp: &str, m: &M, l: &Layout, ranges: &[(u64, usize)], depth: usize) {
    let mut alphabet: Vec<Op> = Vec::new();
    for (k, (a, len)) in ranges.iter().enumerate() {
        for (ri, route) in ROUTES.iter().enumerate() {
            if route.supports(*len) {
                alphabet.push(Op { route: *route, addr: *a, len: *len, tag: (k * 3 + ri % 3) as u8 });
            }
        }
    }
    let init = Model::labelled(l);
    let mut seen: HashSet<Model> = HashSet::new();
    let mut frontier: VecDeque<(Model, Vec<Op>)> = VecDeque::new();
    seen.insert(init.clone());
    frontier.push_back((init, vec![]));
    let mut t = 0u64;
    while let Some((st, hist)) = frontier.pop_front() {
        if hist.len() >= depth {
            continue;
        }
        for op in &alphabet {
            t += 1;
            if let Some(next) = step(ctx, imp, m, l, &st, op, &hist, None) {
                if !seen.contains(&next) {
                    seen.insert(next.clone());
                    let mut h = hist.clone();
                    h.push(*op);
                    if ctx.sample_n() < 8 && h.len() == depth {
                        ctx.sample(json!({"impl": imp, "layout": l.describe(), "history": h.iter().map(|o| o.to_json()).collect::<Vec<_>>(), "state": hex(&next.flat())}));
                    }
                    frontier.push_back((next, h));
                }
            }
        }
        if ctx.n_findings() > 30 {
            break;
        }
    }
    ctx.add_states(seen.len() as u64);
    ctx.add_transitions(t);
    ctx.add_traces(t);
}

/// Xen build: guest memory made of device-backed regions on the emulated gntdev/privcmd. The
/// harness keeps its own shared view of the backing file for loading and dumping the state, so
/// the regions under test (whose own pointer is null when they are mapped on demand) are only
/// ever accessed through the library.
#[cfg(feature = "xen")]
mod xen_dev {
    use super::*;
    use crate::xen_emu::{Emu, PAGE};
    use vm_memory::{GuestMemoryMmap, GuestRegionMmap};

    pub struct DevMem {
        pub mem: GuestMemoryMmap<()>,
        pub views: Vec<*mut u8>,
    }

    impl GuestMemory for DevMem {
        type R = GuestRegionMmap<()>;
        fn num_regions(&self) -> usize {
            self.mem.num_regions()
        }
        fn find_region(&self, addr: GuestAddress) -> Option<&Self::R> {
            self.mem.find_region(addr)
        }
        fn iter(&self) -> impl Iterator<Item = &Self::R> {
            self.mem.iter()
        }
    }

    impl RegionPtrs for DevMem {
        fn region_ptr(&self, i: usize) -> *mut u8 {
            self.views[i]
        }
    }

    pub fn run(ctx: &Ctx, thorough: bool) {
        use std::os::fd::AsRawFd;
        let emu = Emu::new(64);
        for (kind, on_demand) in [("xen-grant-on-demand", true), ("xen-grant-in-advance", false)] {
            // two adjacent one-page regions, a hole, and a third region of 100 bytes
            let specs: [(u64, usize); 3] = [(8, 4096), (9, 4096), (12, 100)];
            let mut regions = Vec::new();
            let mut views = Vec::new();
            let mut regs = Vec::new();
            for (page, size) in specs {
                regions.push(emu.grant_region(page, size, on_demand).unwrap());
                regs.push((page * PAGE, size as u64));
                // SAFETY: a shared view of the same file range, owned by the harness
                let v = unsafe { libc::mmap(std::ptr::null_mut(), 4096, libc::PROT_READ | libc::PROT_WRITE, libc::MAP_SHARED, emu.file.as_raw_fd(), (page * PAGE) as libc::off_t) };
                assert!(v != libc::MAP_FAILED);
                views.push(v as *mut u8);
            }
            let l = Layout { regs };
            let dm = DevMem { mem: GuestMemoryMmap::from_regions(regions).unwrap(), views };
            let st = Model::labelled(&l);
            let mut t = 0u64;
            let addrs: Vec<u64> = [0x8000u64, 0x8001, 0x8ff8, 0x8ffc, 0x8ffe, 0x8fff, 0x9000, 0x9001, 0x9ff0, 0x9ffd, 0x9fff, 0xa000, 0xbfff, 0xc000, 0xc060, 0xc063, 0xc064].to_vec();
            let lens: Vec<usize> = if thorough { vec![1, 2, 3, 4, 5, 8, 16, 17, 100, 4096, 4097, 8192, 8193] } else { vec![1, 2, 4, 5, 8, 16, 100, 4097, 8193] };
            for &a in &addrs {
                for &len in &lens {
                    for (ri, route) in ROUTES.iter().enumerate() {
                        if !route.supports(len) || (len > 200 && matches!(route.base(), Route::ReadFrom | Route::ReadExactFrom | Route::WriteTo | Route::WriteAllTo) && *route != route.base()) {
                            continue;
                        }
                        // atomic routes on on-demand regions are a recorded finding of C17 (get_atomic_ref)
                        let op = Op { route: *route, addr: a, len, tag: ri as u8 + 1 };
                        emu.take_log();
                        step(ctx, kind, &dm, &l, &st, &op, &[], None);
                        t += 1;
                        if on_demand && !emu.live().is_empty() {
                            ctx.fail(&format!("C03/{}/{:?}/window-left-mapped", kind, route), &format!("{:?}", emu.live()), json!({"op": op.to_json()}));
                            emu.state.borrow_mut().live.clear();
                        }
                    }
                }
            }
            ctx.add_transitions(t);
            ctx.add_traces(t);
            ctx.add_states(1);
            for v in &dm.views {
                unsafe { libc::munmap(*v as *mut _, 4096) };
            }
            drop(dm);
            let pe = std::mem::take(&mut emu.state.borrow_mut().protocol_errors);
            if !pe.is_empty() {
                ctx.fail(&format!("C03/{}/device-protocol", kind), &format!("{:?}", pe), json!({}));
            }
        }
    }
}

pub fn run(tier: Tier, replay: Option<String>) -> i32 {
    let ctx = crate::new_ctx("C03", tier, "model_checking", &replay);
    let xen = cfg!(feature = "xen");
    ctx.set_rule("E1: (a) depth 1 from a state in which every mapped byte carries a distinct label: every layout over U one-byte cells x bases {0, mid, top} (the mmap-backed map is built, rotating with the layout, by one constructor call, by inserting the regions one by one from the back, or together with extra regions that are removed again - a valid update may not be refused and the resulting map must behave the same) x every route (write, read, *_slice, *_obj of 1..16 bytes, the four stream forms with ample in-memory streams, store/load) x every start address in [base-1, base+U+1] x every length 1..=U+2; (a') three regions of 70000 / 66000 / 131073 bytes (two adjacent, one after a hole): every route with transfers of 2^16-1 .. 140000 bytes in one call, inside one region, crossing regions and ending in the hole; the same layout with payloads of nothing but zeroes (4095 .. 140000 bytes), zeroes around one set byte at either end, and nothing but ones, over memory that holds labels; two adjacent regions of 2 MiB + 70000 and 1 MiB + 5 bytes: every route with transfers of 1 MiB+1 .. 3 MiB+60000 bytes in one call; one region of 64 MiB + 70000 bytes: six routes with transfers of 2^26+1 and 2^26+60000 bytes in one call; (b) BFS over all histories up to depth 3 of a reduced alphabet (all routes x ranges that overlap and straddle region boundaries and holes), state = complete memory contents, restored from the snapshot. Every transition runs on the real memory object; result class, counts, the complete guest memory (all regions, via host pointers), read buffers incl. untouched tail and (file-backed) the backing file are compared with a sparse byte-array model.");
    ctx.assume("error variants other than InvalidGuestAddress and PartialBuffer{expected,completed} are compared by class only");
    if xen {
        ctx.assume("Xen build: the cell layouts use MmapXenFlags::UNIX mappings; grant regions (mapped in advance and on demand) are exercised on the emulated gntdev with page-sized regions");
    }
    let u = if tier.thorough() { 10 } else { 7 };
    if let Some(r) = ctx.replay_of.clone() {
        let c = &r["case"];
        let regs: Vec<(u64, u64)> = c["layout"].as_array().map(|a| a.iter().filter_map(|p| Some((p[0].as_u64()?, p[1].as_u64()?))).collect()).unwrap_or_default();
        let l = Layout { regs };
        let hist: Vec<Op> = c["history"].as_array().map(|a| a.iter().filter_map(Op::from_json).collect()).unwrap_or_default();
        let op = match Op::from_json(&c["op"]) {
            Some(o) => o,
            None => return 2,
        };
        let imp = c["impl"].as_str().unwrap_or("mock").to_string();
        let mut st = Model::labelled(&l);
        // recompute the state by replaying the history on the model
        for h in &hist {
            let _ = expect(&l, &mut st, h, true);
        }
        println!("replaying on {}: layout {} history {:?} op {:?}", imp, l.describe(), hist, op);
        if imp.starts_with("mock") {
            let m = MockMemory::new(&l);
            step(&ctx, &imp, &m, &l, &st, &op, &hist, None);
        } else {
            let m = build_mmap(&l).unwrap();
            step(&ctx, &imp, &m, &l, &st, &op, &hist, None);
        }
        return ctx.finish();
    }
    let cells = cell_layouts(u);
    let anon = if xen { "xen-unix" } else { "mmap-anon" };
    std::thread::scope(|s| {
        let ctx = &ctx;
        let cells = &cells;
        for t in 0..14usize {
            s.spawn(move || {
                for (ci, c) in cells.iter().enumerate() {
                    if ci % 14 != t {
                        continue;
                    }
                    for base in [0u64, (1u64 << 32) - 3, u64::MAX - u as u64] {
                        let l = Layout::from_cells(base, c);
                        // the construction route rotates with the layout: one call, insertions,
                        // or extra regions removed again
                        if let Some(m) = build_mmap_route_checked(ctx, "C03", &l, (ci + (base % 7) as usize) % 4) {
                            depth1(ctx, anon, &m, &l, base, u, None);
                        }
                        if !xen {
                            let mock = MockMemory::new(&l);
                            depth1(ctx, "mock", &mock, &l, base, u, None);
                        }
                    }
                    if !xen {
                        // the mock may own the very top of the address space
                        let l = Layout::from_cells((u64::MAX - u as u64).wrapping_add(1), c);
                        let mock = MockMemory::new(&l);
                        depth1(ctx, "mock", &mock, &l, (u64::MAX - u as u64).wrapping_add(1), u, None);
                    }
                    // file-backed on a subset of bases (same code path below the mapping)
                    let l = Layout::from_cells(0x1000, c);
                    match build_mmap_file(&l) {
                        Ok((m, f, offs)) => depth1(ctx, if xen { "xen-unix-file" } else { "mmap-file" }, &m, &l, 0x1000, u, Some((&f, &offs))),
                        Err(e) => ctx.machinery(&format!("cannot build file-backed {}: {}", l.describe(), e)),
                    }
                }
            });
        }
        // histories on boundary-rich layouts
        let hist_layouts: Vec<(u64, Vec<(usize, usize)>)> = vec![
            (0x1000, vec![(0, 2), (2, 2), (5, 1)]),
            (u64::MAX - 6, vec![(0, 3), (3, 1), (4, 2)]),
            (0, vec![(0, 1), (1, 3), (5, 1)]),
        ];
        for (base, c) in hist_layouts {
            s.spawn(move || {
                let l = Layout::from_cells(base, &c);
                let ranges: Vec<(u64, usize)> = vec![(base + 1, 2), (base, 4), (base + 3, 3), (base + 5, 1), (base + 2, 1), (base + 1, 4)];
                let depth = if tier.thorough() { 6 } else { 3 };
                let m = build_mmap(&l).unwrap();
                histories(ctx, anon, &m, &l, &ranges, depth);
                if !xen {
                    let mock = MockMemory::new(&l);
                    histories(ctx, "mock", &mock, &l, &ranges, depth);
                }
            });
        }
    });
    // layouts with many regions (more than any small universe can hold)
    for n in [9usize, 10, 16, 17, 33, 65] {
        for pattern in 0..3 {
            let l = super::c02::many_regions(0x1000, n, pattern);
            let st = Model::labelled(&l);
            let span = l.regs.last().unwrap().0 + l.regs.last().unwrap().1 - 0x1000;
            let m = match build_mmap_route_checked(&ctx, "C03", &l, pattern % 3 + if n % 2 == 0 { 1 } else { 0 }) {
                Some(m) => m,
                None => continue,
            };
            let mut t = 0u64;
            for d in 0..=span {
                for len in [1usize, 2, 3, 4, 5, 8, span as usize + 1] {
                    for (ri, route) in ROUTES.iter().enumerate() {
                        if route.supports(len) {
                            let op = Op { route: *route, addr: 0x1000 + d, len, tag: ri as u8 + 1 };
                            step(&ctx, anon, &m, &l, &st, &op, &[], None);
                            t += 1;
                        }
                    }
                }
            }
            ctx.add_transitions(t);
            ctx.add_traces(t);
            ctx.add_states(1);
        }
    }
    // large regions and transfers (tens of KiB up to more than 128 KiB in one call, crossing
    // regions, ending in a hole): sizes around 2^16 and 2^17
    {
        let (a, b, c) = (0x10000u64, 0x10000u64 + 70000, 0x80000u64);
        let l = Layout { regs: vec![(a, 70000), (b, 66000), (c, 131073)] };
        let st = Model::labelled(&l);
        if let Some(m) = build_mmap_route_checked(&ctx, "C03", &l, 0) {
            let mut t = 0u64;
            let cases: Vec<(u64, usize)> = vec![
                (a, 65535), (a, 65536), (a, 65537), (a, 70000), (a, 70001), (a, 136000), (a, 140000),
                (a + 1, 65536), (a + 4464, 65536), (a + 4465, 65536), (b - 1, 2), (b, 65999), (b, 66000), (b + 463, 65537),
                (c, 131072), (c, 131073), (c + 1, 131072), (c + 1, 131073), (c + 65536, 65537),
            ];
            for (ri, route) in ROUTES.iter().enumerate() {
                for (addr, len) in &cases {
                    if route.supports(*len) {
                        let op = Op { route: *route, addr: *addr, len: *len, tag: ri as u8 + 3 };
                        step(&ctx, anon, &m, &l, &st, &op, &[], None);
                        t += 1;
                    }
                }
            }
            // the same routes with payloads of nothing but zeroes (one page and more, over
            // memory that holds labels), zeroes around one set byte, nothing but ones
            let cases: Vec<(u64, usize)> = vec![(a, 4095), (a, 4096), (a + 1, 4096), (a + 3, 8192), (a, 65536), (a, 70000), (a, 70001), (a + 60000, 14097), (a, 140000), (b - 1, 8192), (c + 5, 131000)];
            for tag in [0xF0u8, 0xF1, 0xF2, 0xF3] {
                for route in ROUTES.iter() {
                    for (addr, len) in &cases {
                        if route.supports(*len) {
                            let op = Op { route: *route, addr: *addr, len: *len, tag };
                            step(&ctx, anon, &m, &l, &st, &op, &[], None);
                            t += 1;
                        }
                    }
                }
            }
            ctx.add_transitions(t);
            ctx.add_traces(t);
            ctx.add_states(1);
        }
    }
    // regions of more than a MiB and single transfers beyond 2^20 and 2^21 bytes
    {
        const M: u64 = 1 << 20;
        let (a, b) = (0x40_0000u64, 0x40_0000u64 + 2 * M + 70000);
        let l = Layout { regs: vec![(a, 2 * M + 70000), (b, M + 5)] };
        let st = Model::labelled(&l);
        if let Some(m) = build_mmap_route_checked(&ctx, "C03", &l, 0) {
            let mut t = 0u64;
            let cases: Vec<(u64, usize)> = vec![(a, (M + 1) as usize), (a + 3, (M + 4097) as usize), (a, (2 * M + 70000) as usize), (a + 7, (3 * M + 60000) as usize), (b, (M + 5) as usize), (b - 1, (M + 6) as usize)];
            for (ri, route) in ROUTES.iter().enumerate() {
                for (addr, len) in &cases {
                    if route.supports(*len) {
                        let op = Op { route: *route, addr: *addr, len: *len, tag: ri as u8 + 5 };
                        step(&ctx, anon, &m, &l, &st, &op, &[], None);
                        t += 1;
                    }
                }
            }
            ctx.add_transitions(t);
            ctx.add_traces(t);
            ctx.add_states(1);
        }
    }
    // one region of 64 MiB + 70000 bytes: single transfers beyond 2^26 bytes through the buffer,
    // slice and stream routes (no route caps or re-bases a transfer at any size)
    if !xen {
        const M: u64 = 1 << 20;
        let a = 0x1000_0000u64;
        let l = Layout { regs: vec![(a, 64 * M + 70000)] };
        let st = Model::labelled(&l);
        if let Some(m) = build_mmap_route_checked(&ctx, "C03", &l, 0) {
            let mut t = 0u64;
            let cases: Vec<(u64, usize)> = vec![(a, (64 * M + 1) as usize), (a + 5, (64 * M + 60000) as usize)];
            for (ri, route) in ROUTES.iter().enumerate() {
                if !matches!(route, Route::Write | Route::WriteSlice | Route::Read | Route::ReadSlice | Route::ReadFrom | Route::WriteAllTo) {
                    continue;
                }
                for (addr, len) in &cases {
                    let op = Op { route: *route, addr: *addr, len: *len, tag: ri as u8 + 9 };
                    step(&ctx, anon, &m, &l, &st, &op, &[], None);
                    t += 1;
                }
            }
            ctx.add_transitions(t);
            ctx.add_traces(t);
            ctx.add_states(1);
        }
    }
    if !xen {
        // wrap-around layouts, trait-default implementation only
        for lo in 1..=2u64 {
            for hi in 1..=3u64 {
                let l = Layout { regs: vec![(0, lo), (u64::MAX - hi + 1, hi)] };
                let m = MockMemory::new(&l);
                let st = Model::labelled(&l);
                for d in 0..4u64 {
                    for len in 1..=6usize {
                        for (ri, route) in ROUTES.iter().enumerate() {
                            if route.supports(len) {
                                let op = Op { route: *route, addr: u64::MAX - d, len, tag: ri as u8 };
                                step(&ctx, "mock", &m, &l, &st, &op, &[], None);
                                ctx.add_transitions(1);
                                ctx.add_traces(1);
                            }
                        }
                    }
                }
            }
        }
    }
    #[cfg(feature = "xen")]
    xen_dev::run(&ctx, tier.thorough());
    ctx.extra("universe_cells", json!(u));
    ctx.extra("cell_layouts", json!(cells.len()));
    ctx.sample(json!({"impl": anon, "layout": "[0xfffffffffffffff9,+2) [0xfffffffffffffffb,+1)", "op": {"route": "WriteSlice", "addr": "0xfffffffffffffffa", "len": 3}, "expected": "PartialBuffer{expected:3, completed:2}, bytes land in both regions"}));
    ctx.set_exhaustive(true);
    ctx.finish()
}
