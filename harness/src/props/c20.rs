//! C20 — endian-tagged integers keep their declared byte order for every value.

use crate::report::{Ctx, Tier};
use serde_json::json;
use std::mem::{align_of, size_of};
use vm_memory::{Be16, Be32, Be64, BeSize, ByteValued, Bytes, Le16, Le32, Le64, LeSize, VolatileSlice};

macro_rules! check_value {
    ($ctx:expr, $W:ident, $N:ty, $v:expr, $tobytes:ident, $slice:expr) => {{
        let v: $N = $v;
        let w: $W = v.into();
        let want = v.$tobytes();
        let mut bad: Option<&str> = None;
        let back: $N = w.into();
        if back != v || w.to_native() != v {
            bad = Some("round-trip");
        }
        if w.as_slice() != &want[..] {
            bad = Some("in-memory-bytes");
        }
        if !(w == v) || !(v == w) {
            bad = Some("equality-with-represented-value");
        }
        let other = v ^ 1;
        if w == other || other == w {
            bad = Some("equal-to-a-different-value");
        }
        let sw = v.swap_bytes();
        if sw != v && (w == sw || sw == w) {
            bad = Some("equal-to-the-byte-swapped-value");
        }
        let rot = v.rotate_left(8);
        if rot != v && (w == rot || rot == w) {
            bad = Some("equal-to-a-rotated-value");
        }
        if w != <$W>::from(v) || w == <$W>::from(other) {
            bad = Some("wrapper-equality");
        }
        if let Some(vs) = $slice {
            let vs: &VolatileSlice<()> = vs;
            vs.write_obj(w, 3).unwrap();
            let mut raw = [0u8; size_of::<$N>()];
            vs.read_slice(&mut raw, 3).unwrap();
            let r: $W = vs.read_obj(3).unwrap();
            if raw != want || r != w {
                bad = Some("wire-format-in-guest-memory");
            }
            // the same through the typed-reference and element-array accessors
            {
                use vm_memory::VolatileMemory;
                let sz = size_of::<$N>();
                vs.write_slice(&[0u8; 32], 0).unwrap();
                vs.get_ref::<$W>(5).unwrap().store(w);
                vs.read_slice(&mut raw, 5).unwrap();
                if raw != want || vs.get_ref::<$W>(5).unwrap().load() != w {
                    bad = Some("wire-format-through-typed-reference");
                }
                let arr = vs.get_array_ref::<$W>(1, 3).unwrap();
                let other_w: $W = other.into();
                for i in 0..3usize {
                    arr.store(i, if i == 1 { w } else { other_w });
                }
                for i in 0..3usize {
                    vs.read_slice(&mut raw, 1 + i * sz).unwrap();
                    let expect = if i == 1 { want } else { other.$tobytes() };
                    if raw != expect || arr.load(i) != (if i == 1 { w } else { other_w }) {
                        bad = Some("wire-format-through-element-array");
                    }
                }
                let mut back = [other_w; 3];
                arr.copy_to(&mut back);
                if back[1] != w || back[0] != other_w {
                    bad = Some("wire-format-through-array-copy");
                }
            }
        }
        if let Some(k) = bad {
            let key = format!("C20/{}/{}", stringify!($W), k);
            $ctx.fail(&key, &format!("value {:#x}: bytes {:02x?}, expected {:02x?}", v, w.as_slice(), want), json!({"type": stringify!($W), "value": format!("{:#x}", v)}));
        }
    }};
}

/// Long typed copies: arrays of 1..=257 wrappers (around every power of two an implementation
/// might switch strategies at) at every misalignment 0..8, host buffer as long as, one shorter
/// and one longer than the guest array, through the element-array and the slice copies in both
/// directions: every element in wire format, nothing else touched.
macro_rules! long_arrays {
    ($ctx:expr, $W:ident, $N:ty, $tobytes:ident) => {{
        use vm_memory::VolatileMemory;
        let sz = size_of::<$N>();
        for n in [1usize, 2, 3, 7, 8, 9, 15, 16, 17, 31, 32, 33, 40, 63, 64, 65, 100, 128, 129, 257] {
            for mis in 0..8usize {
                for delta in [0isize, -1, 1] {
                    let m = (n as isize + delta).max(0) as usize; // host elements
                    let moved = n.min(m);
                    let mut store = vec![0u64; (n * sz + 64) / 8 + 2];
                    let total = store.len() * 8;
                    let base = store.as_mut_ptr() as *mut u8;
                    // SAFETY: store outlives vs
                    let vs = unsafe { VolatileSlice::new(base, total) };
                    let val = |k: usize| -> $N { (0x0123_4567_89ab_cdefu64.rotate_left((k * 5 % 64) as u32) ^ (k as u64).wrapping_mul(0x0101_0101_0101_0101)) as $N };
                    let host: Vec<$W> = (0..m).map(|k| <$W>::from(val(k))).collect();
                    for route in 0..2usize {
                        $ctx.case(true);
                        vs.write_slice(&vec![0xa5u8; total], 0).unwrap();
                        let off = 8 + mis;
                        if route == 0 {
                            vs.get_array_ref::<$W>(off, n).unwrap().copy_from(&host);
                        } else {
                            vs.subslice(off, n * sz).unwrap().copy_from(&host);
                        }
                        let mut got = vec![0u8; total];
                        vs.read_slice(&mut got, 0).unwrap();
                        let mut want = vec![0xa5u8; total];
                        for k in 0..moved {
                            want[off + k * sz..off + (k + 1) * sz].copy_from_slice(&val(k).$tobytes());
                        }
                        let mut bad: Option<String> = None;
                        if got != want {
                            let i = (0..total).find(|i| got[*i] != want[*i]).unwrap();
                            bad = Some(format!("copy_from: container byte {} (element {}) is {:#04x}, expected {:#04x}", i, (i.saturating_sub(off)) / sz, got[i], want[i]));
                        }
                        // back into host elements
                        let filler = <$W>::from(0x5a as $N);
                        let mut back: Vec<$W> = vec![filler; m];
                        let cnt = if route == 0 {
                            vs.get_array_ref::<$W>(off, n).unwrap().copy_to(&mut back);
                            moved
                        } else {
                            vs.subslice(off, n * sz).unwrap().copy_to(&mut back)
                        };
                        if bad.is_none() && (cnt != moved || (0..m).any(|k| back[k] != if k < moved { host[k] } else { filler })) {
                            let k = (0..m).find(|k| back[*k] != if *k < moved { host[*k] } else { filler }).unwrap_or(0);
                            bad = Some(format!("copy_to: returned {} (expected {}), host element {} is {:?}", cnt, moved, k, back.get(k).map(|w| w.to_native())));
                        }
                        if let Some(d) = bad {
                            let key = format!("C20/{}/long-array-copy/{}", stringify!($W), if route == 0 { "VolatileArrayRef" } else { "VolatileSlice" });
                            $ctx.fail(&key, &format!("{} guest elements at address {} mod 8, {} host elements: {}", n, (base as usize + off) % 8, m, d), json!({"type": stringify!($W), "guest_elements": n, "host_elements": m, "address_mod_8": (base as usize + off) % 8}));
                        }
                    }
                }
            }
        }
    }};
}

/// The wire bytes through write_all_to / read_exact_from over std writers and readers that move 1..size+1 bytes per call and are interrupted in between. The wire bytes fetched into and written from a host byte buffer at every offset within a word x guest offset 8..24. A stored wrapper moved within guest memory to a place that overlaps its old one (up and down
/// by 1..size-1 bytes, and by its size) through the slice-to-slice copies: the wire format
/// arrives intact at the new place.
macro_rules! moves {
    ($ctx:expr, $W:ident, $N:ty, $tobytes:ident, $vals:expr) => {{
        use vm_memory::VolatileMemory;
        let sz = size_of::<$N>();
        let mut store = [0u64; 8];
        // SAFETY: store outlives vs
        let vs = unsafe { VolatileSlice::new(store.as_mut_ptr() as *mut u8, 64) };
        for &v64 in $vals.iter() {
            let v = v64 as $N;
            let w: $W = v.into();
            let want = v.$tobytes();
            for off in 16..24usize {
                for d in 1..=sz {
                    for up in [true, false] {
                        for route in 0..2usize {
                            $ctx.case(true);
                            vs.write_slice(&[0x5au8; 64], 0).unwrap();
                            vs.write_obj(w, off).unwrap();
                            let to = if up { off + d } else { off - d };
                            let dst = vs.subslice(to, sz).unwrap();
                            if route == 0 {
                                vs.subslice(off, sz).unwrap().copy_to_volatile_slice(dst);
                            } else {
                                vs.get_array_ref::<$W>(off, 1).unwrap().copy_to_volatile_slice(dst);
                            }
                            let mut raw = [0u8; size_of::<$N>()];
                            vs.read_slice(&mut raw, to).unwrap();
                            let back: $W = vs.read_obj(to).unwrap();
                            if raw != want || back != w {
                                let key = format!("C20/{}/moved-within-guest-memory/{}", stringify!($W), if route == 0 { "VolatileSlice::copy_to_volatile_slice" } else { "VolatileArrayRef::copy_to_volatile_slice" });
                                $ctx.fail(&key, &format!("value {:#x} stored at offset {} and moved {} by {}: bytes {:02x?}, expected {:02x?}", v, off, if up { "up" } else { "down" }, d, raw, want), json!({"type": stringify!($W), "value": format!("{:#x}", v), "offset": off, "distance": d, "up": up}));
                            }
                        }
                    }
                }
            }
        }
    }};
}

/// The wire bytes of a stored wrapper fetched into, and written from, a host byte buffer at every
/// offset within a word (the guest side at every offset too): same phase on both sides, and
/// every other combination; both buffers hold other bytes beforehand.
macro_rules! raw_phases {
    ($ctx:expr, $W:ident, $N:ty, $tobytes:ident, $vals:expr) => {{
        let sz = size_of::<$N>();
        let mut gstore = [0u64; 6];
        // SAFETY: gstore outlives vs
        let vs = unsafe { VolatileSlice::new(gstore.as_mut_ptr() as *mut u8, 48) };
        for &v64 in $vals.iter() {
            let v = v64 as $N;
            let w: $W = v.into();
            let want = v.$tobytes();
            for off in 8..24usize {
                for k in 0..8usize {
                    $ctx.case(true);
                    let mut hstore = [0xEEEE_EEEE_EEEE_EEEEu64; 4];
                    let host: &mut [u8] = unsafe { std::slice::from_raw_parts_mut(hstore.as_mut_ptr() as *mut u8, 32) };
                    let mut bad: Option<String> = None;
                    // guest -> host bytes
                    vs.write_slice(&[0x5au8; 48], 0).unwrap();
                    vs.write_obj(w, off).unwrap();
                    vs.read_slice(&mut host[k..k + sz], off).unwrap();
                    if host[k..k + sz] != want[..] || host[..k].iter().any(|x| *x != 0xEE) || host[k + sz..].iter().any(|x| *x != 0xEE) {
                        bad = Some(format!("read_slice into the host buffer at offset {}: got {:02x?}, expected {:02x?}", k, &host[k..k + sz], want));
                    }
                    // host bytes -> guest
                    if bad.is_none() {
                        vs.write_slice(&[0x5au8; 48], 0).unwrap();
                        host[k..k + sz].copy_from_slice(&want);
                        vs.write_slice(&host[k..k + sz], off).unwrap();
                        let back: $W = vs.read_obj(off).unwrap();
                        let mut raw = [0u8; 48];
                        vs.read_slice(&mut raw, 0).unwrap();
                        if back != w || raw[off..off + sz] != want[..] || raw[..off].iter().any(|x| *x != 0x5a) || raw[off + sz..].iter().any(|x| *x != 0x5a) {
                            bad = Some(format!("write_slice of the wire bytes from the host buffer at offset {}: guest memory holds {:02x?}, expected {:02x?}", k, &raw[off..off + sz], want));
                        }
                    }
                    if let Some(d) = bad {
                        let key = format!("C20/{}/wire-bytes-through-a-host-byte-buffer", stringify!($W));
                        $ctx.fail(&key, &format!("value {:#x} at guest offset {} (mod 8 = {}): {}", v, off, off % 8, d), json!({"type": stringify!($W), "value": format!("{:#x}", v), "guest_offset": off, "host_buffer_offset": k}));
                    }
                }
            }
        }
    }};
}

/// A writer / reader that moves at most `k` bytes per call and is interrupted before every other
/// call: the wrapper's bytes leave through `write_all_to` and come back through
/// `read_exact_from` in wire order, once each, whatever the chunking.
struct Trickle {
    data: Vec<u8>,
    pos: usize,
    k: usize,
    calls: usize,
}

impl std::io::Write for Trickle {
    fn write(&mut self, buf: &[u8]) -> std::io::Result<usize> {
        self.calls += 1;
        if self.calls % 3 == 2 {
            return Err(std::io::Error::from(std::io::ErrorKind::Interrupted));
        }
        let n = buf.len().min(self.k);
        self.data.extend_from_slice(&buf[..n]);
        Ok(n)
    }
    fn flush(&mut self) -> std::io::Result<()> {
        Ok(())
    }
}

impl std::io::Read for Trickle {
    fn read(&mut self, buf: &mut [u8]) -> std::io::Result<usize> {
        self.calls += 1;
        if self.calls % 3 == 2 {
            return Err(std::io::Error::from(std::io::ErrorKind::Interrupted));
        }
        let n = buf.len().min(self.k).min(self.data.len() - self.pos);
        buf[..n].copy_from_slice(&self.data[self.pos..self.pos + n]);
        self.pos += n;
        Ok(n)
    }
}

macro_rules! serialised {
    ($ctx:expr, $W:ident, $N:ty, $tobytes:ident, $vals:expr) => {{
        use vm_memory::ByteValued;
        let sz = size_of::<$N>();
        for &v64 in $vals.iter() {
            let v = v64 as $N;
            let w: $W = v.into();
            let want = v.$tobytes();
            for k in 1..=sz + 1 {
                $ctx.case(true);
                let mut sink = Trickle { data: vec![0xEE], pos: 0, k, calls: 0 };
                let r = w.write_all_to(&mut sink);
                let mut bad: Option<String> = None;
                if r.is_err() || sink.data[1..] != want[..] || sink.data[0] != 0xEE {
                    bad = Some(format!("write_all_to a writer taking {} byte(s) per call: {:?}, the writer holds {:02x?}, expected {:02x?}", k, r, &sink.data[1..], want));
                }
                let mut src = Trickle { data: want.iter().cloned().chain([0x77u8, 0x78]).collect(), pos: 0, k, calls: 0 };
                match <$W>::read_exact_from(&mut src) {
                    Ok(back) => {
                        if back != w || src.pos != sz {
                            bad = Some(format!("read_exact_from a reader giving {} byte(s) per call: value {:#x}, {} bytes consumed", k, back.to_native(), src.pos));
                        }
                    }
                    Err(e) => bad = Some(format!("read_exact_from a reader giving {} byte(s) per call: {:?}", k, e)),
                }
                if let Some(d) = bad {
                    let key = format!("C20/{}/wire-format-through-std-io", stringify!($W));
                    $ctx.fail(&key, &format!("value {:#x}: {}", v, d), json!({"type": stringify!($W), "value": format!("{:#x}", v), "bytes_per_call": k}));
                }
            }
        }
    }};
}

/// Placement sweep: one wrapper type stored and loaded at every offset 0..=24 of an 8-aligned
/// container whose bytes are not zero, through the object, slice and typed-reference routes of a
/// volatile slice and of mmap-backed guest memory; the whole container is compared afterwards.
macro_rules! placement {
    ($ctx:expr, $W:ident, $N:ty, $tobytes:ident, $vals:expr, $mem:expr) => {{
        let sz = size_of::<$N>();
        let mut store = [0u64; 6];
        // SAFETY: store outlives vs
        let vs: VolatileSlice<()> = unsafe { VolatileSlice::new(store.as_mut_ptr() as *mut u8, 48) };
        let mem: &vm_memory::GuestMemoryMmap<()> = $mem;
        for off in 0..=24usize {
            for (vi, v64) in $vals.iter().enumerate() {
                let v = *v64 as $N;
                let w: $W = v.into();
                let want = v.$tobytes();
                let fill = if vi % 2 == 0 { 0xa5u8 } else { 0x00 };
                for route in 0..5usize {
                    $ctx.case(true);
                    let mut expect = [fill; 48];
                    expect[off..off + sz].copy_from_slice(&want);
                    let (got, back): ([u8; 48], $W) = match route {
                        0 | 1 | 2 => {
                            vs.write_slice(&[fill; 48], 0).unwrap();
                            match route {
                                0 => vs.write_obj(w, off).unwrap(),
                                1 => vs.write_slice(w.as_slice(), off).unwrap(),
                                _ => {
                                    use vm_memory::VolatileMemory;
                                    vs.get_ref::<$W>(off).unwrap().store(w)
                                }
                            }
                            let mut g = [0u8; 48];
                            vs.read_slice(&mut g, 0).unwrap();
                            (g, vs.read_obj(off).unwrap())
                        }
                        _ => {
                            use vm_memory::GuestAddress;
                            let base = 0x1000u64;
                            mem.write_slice(&[fill; 48], GuestAddress(base)).unwrap();
                            if route == 3 {
                                mem.write_obj(w, GuestAddress(base + off as u64)).unwrap();
                            } else {
                                mem.write(w.as_slice(), GuestAddress(base + off as u64)).unwrap();
                            }
                            let mut g = [0u8; 48];
                            mem.read_slice(&mut g, GuestAddress(base)).unwrap();
                            (g, mem.read_obj(GuestAddress(base + off as u64)).unwrap())
                        }
                    };
                    if got != expect || back != w || back.to_native() != v {
                        let key = format!("C20/{}/wire-format-at-offset", stringify!($W));
                        $ctx.fail(&key, &format!("value {:#x} at offset {} (route {}, container filled with {:#x}): container {:02x?}, expected {:02x?}; read back {:#x}", v, off, route, fill, &got[off.saturating_sub(2)..(off + sz + 2).min(48)], &expect[off.saturating_sub(2)..(off + sz + 2).min(48)], back.to_native()), json!({"type": stringify!($W), "value": format!("{:#x}", v), "offset": off, "route": route, "fill": fill}));
                    }
                }
            }
        }
    }};
}

/// Records made of endian wrappers (alignment 1 and 4, sizes 6 and 12): typed copies, element
/// arrays and object accesses must move whole records in wire format and nothing else.
#[repr(C, packed)]
#[derive(Copy, Clone, Default, PartialEq, Debug)]
struct RecP {
    a: Le16,
    b: Be32,
}
// SAFETY: plain data without padding
unsafe impl ByteValued for RecP {}
#[repr(C)]
#[derive(Copy, Clone, Default, PartialEq, Debug)]
struct RecA {
    a: Le32,
    b: Be32,
    c: Be16,
    d: Le16,
}
// SAFETY: plain data without padding (4 + 4 + 2 + 2 bytes, alignment 4)
unsafe impl ByteValued for RecA {}

trait Rec: ByteValued + PartialEq + std::fmt::Debug + Default {
    fn make(k: u32) -> Self;
    fn wire(k: u32) -> Vec<u8>;
    const NAME: &'static str;
}
impl Rec for RecP {
    fn make(k: u32) -> Self {
        RecP { a: Le16::from((0x1234u32.wrapping_add(k * 0x101)) as u16), b: Be32::from(0xa1b2_c3d4u32.wrapping_add(k * 0x01010101)) }
    }
    fn wire(k: u32) -> Vec<u8> {
        let mut v = ((0x1234u32.wrapping_add(k * 0x101)) as u16).to_le_bytes().to_vec();
        v.extend_from_slice(&0xa1b2_c3d4u32.wrapping_add(k * 0x01010101).to_be_bytes());
        v
    }
    const NAME: &'static str = "packed{Le16,Be32}";
}
impl Rec for RecA {
    fn make(k: u32) -> Self {
        RecA { a: Le32::from(0x0102_0304u32.wrapping_add(k)), b: Be32::from(0x0a0b_0c0du32.wrapping_add(k << 8)), c: Be16::from(0xbeefu16.wrapping_add(k as u16)), d: Le16::from(0x1122u16.wrapping_add((k as u16) << 4)) }
    }
    fn wire(k: u32) -> Vec<u8> {
        let mut v = 0x0102_0304u32.wrapping_add(k).to_le_bytes().to_vec();
        v.extend_from_slice(&0x0a0b_0c0du32.wrapping_add(k << 8).to_be_bytes());
        v.extend_from_slice(&0xbeefu16.wrapping_add(k as u16).to_be_bytes());
        v.extend_from_slice(&0x1122u16.wrapping_add((k as u16) << 4).to_le_bytes());
        v
    }
    const NAME: &'static str = "repr(C){Le32,Be32,Be16,Le16}";
}

fn records<R: Rec>(ctx: &Ctx) {
    use vm_memory::VolatileMemory;
    let sz = size_of::<R>();
    let mut store = [0u64; 8];
    // SAFETY: store outlives vs
    let all: VolatileSlice<()> = unsafe { VolatileSlice::new(store.as_mut_ptr() as *mut u8, 64) };
    let fail = |what: &str, d: String, o: usize, l: usize, m: usize| {
        let key = format!("C20/record {}/{}", R::NAME, what);
        ctx.fail(&key, &d, json!({"record": R::NAME, "what": what, "slice_offset": o, "slice_len": l, "host_elements": m}));
    };
    for o in 0..8usize {
        for l in 0..=(3 * sz + 3) {
            for m in 0..=4usize {
                ctx.case(true);
                let whole = (l / sz).min(m);
                // copy_from: host records into a slice whose length need not be a multiple of the record size
                all.write_slice(&[0x5au8; 64], 0).unwrap();
                let host: Vec<R> = (0..m as u32).map(R::make).collect();
                let sl = all.subslice(o, l).unwrap();
                sl.copy_from(&host);
                let mut got = [0u8; 64];
                all.read_slice(&mut got, 0).unwrap();
                let mut want = [0x5au8; 64];
                for k in 0..whole {
                    want[o + k * sz..o + (k + 1) * sz].copy_from_slice(&R::wire(k as u32));
                }
                if got != want {
                    fail("VolatileSlice::copy_from", format!("slice [{},+{}) from {} records: container {:02x?}, expected {:02x?}", o, l, m, &got[..o + l + 4], &want[..o + l + 4]), o, l, m);
                }
                // copy_to: the slice's whole records into host records; the rest of the host buffer stays
                all.write_slice(&[0x5au8; 64], 0).unwrap();
                for k in 0..3usize {
                    if o + (k + 1) * sz <= 64 {
                        all.write_slice(&R::wire(10 + k as u32), o + k * sz).unwrap();
                    }
                }
                let mut back: Vec<R> = (0..m as u32).map(|k| R::make(100 + k)).collect();
                let n = sl.copy_to(&mut back);
                let ok = n == whole && (0..m).all(|k| back[k] == if k < whole { R::make(10 + k as u32) } else { R::make(100 + k as u32) });
                if !ok {
                    fail("VolatileSlice::copy_to", format!("slice [{},+{}) into {} records: returned {}, host records {:?}", o, l, m, n, back), o, l, m);
                }
                // element arrays and object accesses
                if m >= 1 && l >= m * sz {
                    all.write_slice(&[0x5au8; 64], 0).unwrap();
                    if let Ok(arr) = all.get_array_ref::<R>(o, m) {
                        for k in 0..m {
                            arr.store(k, R::make(20 + k as u32));
                        }
                        all.read_slice(&mut got, 0).unwrap();
                        let mut want = [0x5au8; 64];
                        for k in 0..m {
                            want[o + k * sz..o + (k + 1) * sz].copy_from_slice(&R::wire(20 + k as u32));
                        }
                        let loaded_ok = (0..m).all(|k| arr.load(k) == R::make(20 + k as u32));
                        let obj: R = all.read_obj(o + (m - 1) * sz).unwrap();
                        if got != want || !loaded_ok || obj != R::make(20 + (m - 1) as u32) {
                            fail("VolatileArrayRef::store/load", format!("array at {} of {} records: container {:02x?}", o, m, &got[..o + m * sz + 4]), o, l, m);
                        }
                    }
                }
            }
        }
    }
}

/// A wrapper stored across region boundaries: three adjacent regions of 5, 2 and 9 bytes, so
/// that 4- and 8-byte objects span two or three regions at some offsets.
macro_rules! across_regions {
    ($ctx:expr, $W:ident, $N:ty, $tobytes:ident, $vals:expr, $mem:expr) => {{
        use vm_memory::GuestAddress;
        let sz = size_of::<$N>();
        let mem: &vm_memory::GuestMemoryMmap<()> = $mem;
        for off in 0..=(16 - sz) {
            for (vi, v64) in $vals.iter().enumerate() {
                let v = *v64 as $N;
                let w: $W = v.into();
                let fill = if vi % 2 == 0 { 0xa5u8 } else { 0x00 };
                for route in 0..2usize {
                    $ctx.case(true);
                    // (the fill and the read-back go through the regions' raw pointers, so that only
                    // the store and the load under test use the library's access path)
                    let raw = |f: &mut dyn FnMut(*mut u8, usize, usize)| {
                        use vm_memory::{GuestMemory, GuestMemoryRegion};
                        let mut at = 0usize;
                        for r in mem.iter() {
                            f(r.as_ptr(), at, r.len() as usize);
                            at += r.len() as usize;
                        }
                    };
                    // SAFETY: inside the regions
                    raw(&mut |p, _, l| unsafe { std::ptr::write_bytes(p, fill, l) });
                    let wr = if route == 0 {
                        mem.write_obj(w, GuestAddress(0x2000 + off as u64)).map_err(|e| format!("{:?}", e))
                    } else {
                        mem.write_slice(w.as_slice(), GuestAddress(0x2000 + off as u64)).map_err(|e| format!("{:?}", e))
                    };
                    let mut got = [0u8; 16];
                    // SAFETY: inside the regions
                    raw(&mut |p, at, l| unsafe { std::ptr::copy_nonoverlapping(p, got.as_mut_ptr().add(at), l) });
                    let mut expect = [fill; 16];
                    expect[off..off + sz].copy_from_slice(&v.$tobytes());
                    let rd: Result<$W, String> = mem.read_obj(GuestAddress(0x2000 + off as u64)).map_err(|e| format!("{:?}", e));
                    let refused: Option<String> = wr.as_ref().err().cloned().or_else(|| rd.as_ref().err().cloned());
                    if let Some(e) = refused {
                        let key = format!("C20/{}/wire-format-across-regions", stringify!($W));
                        $ctx.fail(&key, &format!("value {:#x} at offset {} of regions 5+2+9 bytes (route {}): the access was refused: {}", v, off, route, e), json!({"type": stringify!($W), "value": format!("{:#x}", v), "offset": off, "route": route}));
                        continue;
                    }
                    let back: $W = rd.unwrap();
                    if got != expect || back != w {
                        let key = format!("C20/{}/wire-format-across-regions", stringify!($W));
                        $ctx.fail(&key, &format!("value {:#x} at offset {} of regions 5+2+9 bytes (route {}): memory {:02x?}, expected {:02x?}, read back {:#x}", v, off, route, got, expect, back.to_native()), json!({"type": stringify!($W), "value": format!("{:#x}", v), "offset": off, "route": route}));
                    }
                }
            }
        }
    }};
}

fn structured64() -> impl Iterator<Item = u64> {
    const B: [u8; 6] = [0x00, 0x01, 0x7f, 0x80, 0xfe, 0xff];
    (0..6usize.pow(8)).map(|mut k| {
        let mut bytes = [0u8; 8];
        for b in bytes.iter_mut() {
            *b = B[k % 6];
            k /= 6;
        }
        u64::from_le_bytes(bytes)
    })
}

pub fn run(tier: Tier, replay: Option<String>) -> i32 {
    let ctx = crate::new_ctx("C20", tier, "exploration", &replay);
    ctx.set_rule("all 2^16 values for Le16/Be16; all 2^32 values for Le32/Be32 in the thorough tier (quick: every value whose bytes are drawn from {00,01,7f,80,fe,ff} plus rotations of 0x01234567 and single bits); for Le64/Be64/LeSize/BeSize every value whose 8 bytes are drawn from {00,01,7f,80,fe,ff} (6^8 = 1679616 values; every 36th in the quick tier) plus all rotations of 0x0123456789abcdef and all single-bit values. Per value: native->wrapper->native, in-memory bytes == to_le_bytes/to_be_bytes, == with the represented value both ways, != with v^1, the byte-swapped and a rotated value, and (every 97th value) the bytes found in a volatile slice after write_obj at an unaligned offset. Placement sweep: every wrapper x every offset 0..=24 of an 8-aligned container (so every address class mod 8) x 20 boundary values (thorough: + all rotations and single bits) x container pre-filled with 0xa5 / 0x00 x five routes (write_obj, write_slice of as_slice, typed reference store on a volatile slice; write_obj and write on mmap-backed guest memory): the whole container must equal the fill with exactly the wire bytes at the offset, and read_obj must return the value. Every wrapper also stored at every offset of guest memory made of three adjacent regions of 5, 2 and 9 bytes (objects spanning two and three regions). The wire bytes through write_all_to / read_exact_from over std writers and readers that move 1..size+1 bytes per call and are interrupted in between. The wire bytes fetched into and written from a host byte buffer at every offset within a word x guest offset 8..24. A stored wrapper moved within guest memory up and down by 1..size bytes (overlapping its old place) through both slice-to-slice copies. Long typed copies: arrays of 1..257 wrappers (around the powers of two) at every address mod 8 with a host buffer of the same length, one shorter and one longer, through the element-array and the slice copies in both directions. Records made of wrappers (a packed {Le16,Be32} of alignment 1 and a repr(C) {Le32,Be32,Be16,Le16}): typed slice copies in both directions for every slice offset 0..8 x slice length 0..=3 records+3 (so also lengths that are not a multiple of the record size) x 0..=4 host records, element arrays and object reads: whole records in wire format move, nothing else changes. Non-trivial = the value is not a byte palindrome (its two byte orders differ). Distinct by construction.");
    ctx.assume("64-bit and pointer-sized wrappers are covered by a bounded byte alphabet, not exhaustively");
    let mut fails = 0;
    for (n, s, a) in [
        ("Le16", size_of::<Le16>() == 2, align_of::<Le16>() == align_of::<u16>()),
        ("Be16", size_of::<Be16>() == 2, align_of::<Be16>() == align_of::<u16>()),
        ("Le32", size_of::<Le32>() == 4, align_of::<Le32>() == align_of::<u32>()),
        ("Be32", size_of::<Be32>() == 4, align_of::<Be32>() == align_of::<u32>()),
        ("Le64", size_of::<Le64>() == 8, align_of::<Le64>() == align_of::<u64>()),
        ("Be64", size_of::<Be64>() == 8, align_of::<Be64>() == align_of::<u64>()),
        ("LeSize", size_of::<LeSize>() == size_of::<usize>(), align_of::<LeSize>() == align_of::<usize>()),
        ("BeSize", size_of::<BeSize>() == size_of::<usize>(), align_of::<BeSize>() == align_of::<usize>()),
    ] {
        if !s || !a {
            fails += 1;
            ctx.fail(&format!("C20/{}/size-or-alignment", n), "size or alignment differs from the native type", json!({"type": n}));
        }
    }
    let _ = fails;
    let mut backing = [0u8; 32];
    // SAFETY: backing outlives vs
    let vs = unsafe { VolatileSlice::new(backing.as_mut_ptr(), 32) };
    for v in 0..=u16::MAX {
        ctx.case(v.swap_bytes() != v);
        let sl = (v % 97 == 0).then_some(&vs);
        check_value!(ctx, Le16, u16, v, to_le_bytes, sl);
        check_value!(ctx, Be16, u16, v, to_be_bytes, sl);
    }
    if tier.thorough() {
        std::thread::scope(|s| {
            let ctx = &ctx;
            for t in 0..16u64 {
                s.spawn(move || {
                    let mut b = [0u8; 32];
                    let vs = unsafe { VolatileSlice::new(b.as_mut_ptr(), 32) };
                    let (mut n, mut nt) = (0u64, 0u64);
                    for v in (t << 28)..((t + 1) << 28) {
                        let v = v as u32;
                        n += 1;
                        nt += (v.swap_bytes() != v) as u64;
                        if v & 0xff_ffff == 0xff_ffff {
                            ctx.evaluations.fetch_add(n, std::sync::atomic::Ordering::Relaxed);
                            ctx.nontrivial.fetch_add(nt, std::sync::atomic::Ordering::Relaxed);
                            n = 0;
                            nt = 0;
                        }
                        let sl = (v % 9973 == 0).then_some(&vs);
                        check_value!(ctx, Le32, u32, v, to_le_bytes, sl);
                        check_value!(ctx, Be32, u32, v, to_be_bytes, sl);
                    }
                });
            }
        });
    } else {
        const B: [u8; 6] = [0x00, 0x01, 0x7f, 0x80, 0xfe, 0xff];
        let mut vals: Vec<u32> = (0..6usize.pow(4))
            .map(|mut k| {
                let mut bytes = [0u8; 4];
                for b in bytes.iter_mut() {
                    *b = B[k % 6];
                    k /= 6;
                }
                u32::from_le_bytes(bytes)
            })
            .collect();
        for r in 0..32 {
            vals.push(0x0123_4567u32.rotate_left(r));
            vals.push(1u32 << r);
        }
        for v in vals {
            ctx.case(v.swap_bytes() != v);
            check_value!(ctx, Le32, u32, v, to_le_bytes, Some(&vs));
            check_value!(ctx, Be32, u32, v, to_be_bytes, Some(&vs));
        }
    }
    let step = if tier.thorough() { 1 } else { 36 };
    let extra: Vec<u64> = (0..64).flat_map(|r| [0x0123_4567_89ab_cdefu64.rotate_left(r), 1u64 << r]).collect();
    for (i, v) in structured64().enumerate().filter(|(i, _)| i % step == 0).map(|(i, v)| (i, v)).chain(extra.into_iter().enumerate()) {
        ctx.case(v.swap_bytes() != v);
        let sl = (i % 97 == 0).then_some(&vs);
        check_value!(ctx, Le64, u64, v, to_le_bytes, sl);
        check_value!(ctx, Be64, u64, v, to_be_bytes, sl);
        check_value!(ctx, LeSize, usize, v as usize, to_le_bytes, sl);
        check_value!(ctx, BeSize, usize, v as usize, to_be_bytes, sl);
    }
    {
        let mem = vm_memory::GuestMemoryMmap::<()>::from_ranges(&[(vm_memory::GuestAddress(0x1000), 4096)]).unwrap();
        let mut vals: Vec<u64> = vec![0, 1, 0xff, 0x100, 0x7fff, 0x8000, 0xffff, 0x1_0000, 0x7fff_ffff, 0x8000_0000, 0xffff_ffff, 0x1_0000_0000, 0x1_0000_0001, 0x0123_4567_89ab_cdef, 0xfedc_ba98_7654_3210, 0x8000_0000_0000_0000, u64::MAX, u64::MAX - 1, 0x00ff_00ff_00ff_00ff, 0xff00_ff00_ff00_ff00];
        if tier.thorough() {
            vals.extend((0..64).map(|r| 0x0123_4567_89ab_cdefu64.rotate_left(r)));
            vals.extend((0..64).map(|r| 1u64 << r));
        }
        placement!(ctx, Le16, u16, to_le_bytes, vals, &mem);
        placement!(ctx, Be16, u16, to_be_bytes, vals, &mem);
        placement!(ctx, Le32, u32, to_le_bytes, vals, &mem);
        placement!(ctx, Be32, u32, to_be_bytes, vals, &mem);
        placement!(ctx, Le64, u64, to_le_bytes, vals, &mem);
        placement!(ctx, Be64, u64, to_be_bytes, vals, &mem);
        placement!(ctx, LeSize, usize, to_le_bytes, vals, &mem);
        placement!(ctx, BeSize, usize, to_be_bytes, vals, &mem);
        let mem3 = vm_memory::GuestMemoryMmap::<()>::from_ranges(&[(vm_memory::GuestAddress(0x2000), 5), (vm_memory::GuestAddress(0x2005), 2), (vm_memory::GuestAddress(0x2007), 9)]).unwrap();
        across_regions!(ctx, Le16, u16, to_le_bytes, vals, &mem3);
        across_regions!(ctx, Be16, u16, to_be_bytes, vals, &mem3);
        across_regions!(ctx, Le32, u32, to_le_bytes, vals, &mem3);
        across_regions!(ctx, Be32, u32, to_be_bytes, vals, &mem3);
        across_regions!(ctx, Le64, u64, to_le_bytes, vals, &mem3);
        across_regions!(ctx, Be64, u64, to_be_bytes, vals, &mem3);
        across_regions!(ctx, LeSize, usize, to_le_bytes, vals, &mem3);
        across_regions!(ctx, BeSize, usize, to_be_bytes, vals, &mem3);
    }
    {
        let mv: Vec<u64> = vec![0x0123_4567_89ab_cdef, 0xfedc_ba98_7654_3210, 0x8000_0000_0000_0001, 0x00ff_00ff_00ff_00ff, 0x1122_3344_5566_7788];
        serialised!(ctx, Le16, u16, to_le_bytes, mv);
        serialised!(ctx, Be16, u16, to_be_bytes, mv);
        serialised!(ctx, Le32, u32, to_le_bytes, mv);
        serialised!(ctx, Be32, u32, to_be_bytes, mv);
        serialised!(ctx, Le64, u64, to_le_bytes, mv);
        serialised!(ctx, Be64, u64, to_be_bytes, mv);
        serialised!(ctx, LeSize, usize, to_le_bytes, mv);
        serialised!(ctx, BeSize, usize, to_be_bytes, mv);
        raw_phases!(ctx, Le16, u16, to_le_bytes, mv);
        raw_phases!(ctx, Be16, u16, to_be_bytes, mv);
        raw_phases!(ctx, Le32, u32, to_le_bytes, mv);
        raw_phases!(ctx, Be32, u32, to_be_bytes, mv);
        raw_phases!(ctx, Le64, u64, to_le_bytes, mv);
        raw_phases!(ctx, Be64, u64, to_be_bytes, mv);
        raw_phases!(ctx, LeSize, usize, to_le_bytes, mv);
        raw_phases!(ctx, BeSize, usize, to_be_bytes, mv);
        moves!(ctx, Le16, u16, to_le_bytes, mv);
        moves!(ctx, Be16, u16, to_be_bytes, mv);
        moves!(ctx, Le32, u32, to_le_bytes, mv);
        moves!(ctx, Be32, u32, to_be_bytes, mv);
        moves!(ctx, Le64, u64, to_le_bytes, mv);
        moves!(ctx, Be64, u64, to_be_bytes, mv);
        moves!(ctx, LeSize, usize, to_le_bytes, mv);
        moves!(ctx, BeSize, usize, to_be_bytes, mv);
    }
    long_arrays!(ctx, Le16, u16, to_le_bytes);
    long_arrays!(ctx, Be16, u16, to_be_bytes);
    long_arrays!(ctx, Le32, u32, to_le_bytes);
    long_arrays!(ctx, Be32, u32, to_be_bytes);
    long_arrays!(ctx, Le64, u64, to_le_bytes);
    long_arrays!(ctx, Be64, u64, to_be_bytes);
    long_arrays!(ctx, LeSize, usize, to_le_bytes);
    long_arrays!(ctx, BeSize, usize, to_be_bytes);
    records::<RecP>(&ctx);
    records::<RecA>(&ctx);
    ctx.sample(json!({"type": "Be32", "value": "0x0100007f", "bytes_expected": "01 00 00 7f", "checks": "round trip, as_slice, ==, != 0x7f000001 (byte-swapped), write_obj at offset 3 then raw bytes"}));
    ctx.sample(json!({"type": "Le64", "value": "0x80ff7f0100fe01ff", "bytes_expected": "ff 01 fe 00 01 7f ff 80"}));
    ctx.set_exhaustive(true);
    ctx.finish()
}
