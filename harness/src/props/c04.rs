//! C04 — every accessor of a volatile container moves exactly the bytes it names (E1 + inputs).

use crate::arena::Arena;
use crate::report::{hex, Ctx, Tier};
use serde_json::{json, Value};
use std::collections::HashSet;
use std::sync::atomic::Ordering;
use vm_memory::bitmap::BitmapSlice;
use vm_memory::{
    Be32, ByteValued, Bytes, Le16, Le64, VolatileMemory, VolatileMemoryError, VolatileSlice,
};

const IMAX: usize = isize::MAX as usize;
pub const EXT: [usize; 5] = [IMAX - 1, IMAX, IMAX + 1, usize::MAX - 1, usize::MAX];

#[derive(Clone, Copy, Debug, PartialEq, Eq, Hash, PartialOrd, Ord)]
pub enum Ty {
    U8,
    I8,
    U16,
    U32,
    U64,
    U128,
    Usize,
    A3,
    A16x3,
    Le16,
    Be32,
    Le64,
}

pub const TYS: [Ty; 12] = [
    Ty::U8,
    Ty::I8,
    Ty::U16,
    Ty::U32,
    Ty::U64,
    Ty::U128,
    Ty::Usize,
    Ty::A3,
    Ty::A16x3,
    Ty::Le16,
    Ty::Be32,
    Ty::Le64,
];

impl Ty {
    pub fn size(self) -> usize {
        match self {
            Ty::U8 | Ty::I8 => 1,
            Ty::U16 | Ty::Le16 => 2,
            Ty::U32 | Ty::Be32 => 4,
            Ty::U64 | Ty::Usize | Ty::Le64 => 8,
            Ty::U128 => 16,
            Ty::A3 => 3,
            Ty::A16x3 => 6,
        }
    }
    fn parse(s: &str) -> Option<Ty> {
        TYS.iter().cloned().find(|t| format!("{:?}", t) == s)
    }
}

#[macro_export]
macro_rules! with_ty {
    ($ty:expr, $f:ident, $($args:expr),*) => {
        match $ty {
            $crate::props::c04::Ty::U8 => $f::<u8, _>($($args),*),
            $crate::props::c04::Ty::I8 => $f::<i8, _>($($args),*),
            $crate::props::c04::Ty::U16 => $f::<u16, _>($($args),*),
            $crate::props::c04::Ty::U32 => $f::<u32, _>($($args),*),
            $crate::props::c04::Ty::U64 => $f::<u64, _>($($args),*),
            $crate::props::c04::Ty::U128 => $f::<u128, _>($($args),*),
            $crate::props::c04::Ty::Usize => $f::<usize, _>($($args),*),
            $crate::props::c04::Ty::A3 => $f::<[u8; 3], _>($($args),*),
            $crate::props::c04::Ty::A16x3 => $f::<[u16; 3], _>($($args),*),
            $crate::props::c04::Ty::Le16 => $f::<Le16, _>($($args),*),
            $crate::props::c04::Ty::Be32 => $f::<Be32, _>($($args),*),
            $crate::props::c04::Ty::Le64 => $f::<Le64, _>($($args),*),
        }
    };
}

#[derive(Clone, Copy, Debug, PartialEq, Eq, Hash)]
pub enum Dst {
    /// sub-slice (offset, len) of the same container
    Same(usize, usize),
    /// a foreign buffer of this length
    Foreign(usize),
}

#[derive(Clone, Copy, Debug, PartialEq, Eq, Hash)]
pub enum Op {
    Write { off: usize, len: usize, mis: usize },
    Read { off: usize, len: usize, mis: usize },
    WriteSlice { off: usize, len: usize, mis: usize },
    ReadSlice { off: usize, len: usize, mis: usize },
    WriteObj { ty: Ty, off: usize },
    ReadObj { ty: Ty, off: usize },
    RefStore { ty: Ty, off: usize },
    RefLoad { ty: Ty, off: usize },
    ArrLoad { ty: Ty, off: usize, n: usize, i: usize },
    ArrStore { ty: Ty, off: usize, n: usize, i: usize },
    ArrCopyTo { ty: Ty, off: usize, n: usize, m: usize },
    ArrCopyFrom { ty: Ty, off: usize, n: usize, m: usize },
    ArrCopyToVs { ty: Ty, off: usize, n: usize, dst: Dst },
    SliceCopyTo { ty: Ty, off: usize, len: usize, m: usize },
    SliceCopyFrom { ty: Ty, off: usize, len: usize, m: usize },
    SliceCopyToVs { off: usize, len: usize, dst: Dst },
    AtomStore { w: usize, off: usize },
    AtomLoad { w: usize, off: usize },
    ReadFrom { off: usize, count: usize },
    ReadExactFrom { off: usize, count: usize },
    WriteTo { off: usize, count: usize },
    WriteAllTo { off: usize, count: usize },
}

impl Op {
    pub fn name(&self) -> &'static str {
        match self {
            Op::Write { .. } => "write",
            Op::Read { .. } => "read",
            Op::WriteSlice { .. } => "write_slice",
            Op::ReadSlice { .. } => "read_slice",
            Op::WriteObj { .. } => "write_obj",
            Op::ReadObj { .. } => "read_obj",
            Op::RefStore { .. } => "get_ref.store",
            Op::RefLoad { .. } => "get_ref.load",
            Op::ArrLoad { .. } => "get_array_ref.load",
            Op::ArrStore { .. } => "get_array_ref.store",
            Op::ArrCopyTo { .. } => "get_array_ref.copy_to",
            Op::ArrCopyFrom { .. } => "get_array_ref.copy_from",
            Op::ArrCopyToVs { .. } => "get_array_ref.copy_to_volatile_slice",
            Op::SliceCopyTo { .. } => "VolatileSlice::copy_to",
            Op::SliceCopyFrom { .. } => "VolatileSlice::copy_from",
            Op::SliceCopyToVs { .. } => "VolatileSlice::copy_to_volatile_slice",
            Op::AtomStore { .. } => "store",
            Op::AtomLoad { .. } => "load",
            Op::ReadFrom { .. } => "read_volatile_from",
            Op::ReadExactFrom { .. } => "read_exact_volatile_from",
            Op::WriteTo { .. } => "write_volatile_to",
            Op::WriteAllTo { .. } => "write_all_volatile_to",
        }
    }
    pub fn is_write(&self) -> bool {
        matches!(
            self,
            Op::Write { .. }
                | Op::WriteSlice { .. }
                | Op::WriteObj { .. }
                | Op::RefStore { .. }
                | Op::ArrStore { .. }
                | Op::ArrCopyFrom { .. }
                | Op::ArrCopyToVs { .. }
                | Op::SliceCopyFrom { .. }
                | Op::SliceCopyToVs { .. }
                | Op::AtomStore { .. }
                | Op::ReadFrom { .. }
                | Op::ReadExactFrom { .. }
        )
    }
    pub fn to_json(&self) -> Value {
        json!(format!("{:?}", self))
    }
    pub fn parse(s: &str) -> Option<Op> {
        // format: Name { k: v, k: v }
        let (name, rest) = s.split_once(" {")?;
        let rest = rest.trim_end_matches('}').trim();
        let mut f: std::collections::HashMap<String, String> = std::collections::HashMap::new();
        // dst may contain parentheses with commas; split at top level
        let mut depth = 0;
        let mut cur = String::new();
        let mut parts = Vec::new();
        for ch in rest.chars() {
            match ch {
                '(' => {
                    depth += 1;
                    cur.push(ch)
                }
                ')' => {
                    depth -= 1;
                    cur.push(ch)
                }
                ',' if depth == 0 => {
                    parts.push(cur.clone());
                    cur.clear()
                }
                _ => cur.push(ch),
            }
        }
        if !cur.trim().is_empty() {
            parts.push(cur);
        }
        for p in parts {
            let (k, v) = p.split_once(':')?;
            f.insert(k.trim().to_string(), v.trim().to_string());
        }
        let u = |k: &str| f.get(k).and_then(|v| v.parse::<usize>().ok());
        let ty = || f.get("ty").and_then(|v| Ty::parse(v));
        let dst = || -> Option<Dst> {
            let v = f.get("dst")?;
            let (n, a) = v.split_once('(')?;
            let a: Vec<usize> = a.trim_end_matches(')').split(',').filter_map(|x| x.trim().parse().ok()).collect();
            match n {
                "Same" => Some(Dst::Same(a[0], a[1])),
                "Foreign" => Some(Dst::Foreign(a[0])),
                _ => None,
            }
        };
        Some(match name {
            "Write" => Op::Write { off: u("off")?, len: u("len")?, mis: u("mis")? },
            "Read" => Op::Read { off: u("off")?, len: u("len")?, mis: u("mis")? },
            "WriteSlice" => Op::WriteSlice { off: u("off")?, len: u("len")?, mis: u("mis")? },
            "ReadSlice" => Op::ReadSlice { off: u("off")?, len: u("len")?, mis: u("mis")? },
            "WriteObj" => Op::WriteObj { ty: ty()?, off: u("off")? },
            "ReadObj" => Op::ReadObj { ty: ty()?, off: u("off")? },
            "RefStore" => Op::RefStore { ty: ty()?, off: u("off")? },
            "RefLoad" => Op::RefLoad { ty: ty()?, off: u("off")? },
            "ArrLoad" => Op::ArrLoad { ty: ty()?, off: u("off")?, n: u("n")?, i: u("i")? },
            "ArrStore" => Op::ArrStore { ty: ty()?, off: u("off")?, n: u("n")?, i: u("i")? },
            "ArrCopyTo" => Op::ArrCopyTo { ty: ty()?, off: u("off")?, n: u("n")?, m: u("m")? },
            "ArrCopyFrom" => Op::ArrCopyFrom { ty: ty()?, off: u("off")?, n: u("n")?, m: u("m")? },
            "ArrCopyToVs" => Op::ArrCopyToVs { ty: ty()?, off: u("off")?, n: u("n")?, dst: dst()? },
            "SliceCopyTo" => Op::SliceCopyTo { ty: ty()?, off: u("off")?, len: u("len")?, m: u("m")? },
            "SliceCopyFrom" => Op::SliceCopyFrom { ty: ty()?, off: u("off")?, len: u("len")?, m: u("m")? },
            "SliceCopyToVs" => Op::SliceCopyToVs { off: u("off")?, len: u("len")?, dst: dst()? },
            "AtomStore" => Op::AtomStore { w: u("w")?, off: u("off")? },
            "AtomLoad" => Op::AtomLoad { w: u("w")?, off: u("off")? },
            "ReadFrom" => Op::ReadFrom { off: u("off")?, count: u("count")? },
            "ReadExactFrom" => Op::ReadExactFrom { off: u("off")?, count: u("count")? },
            "WriteTo" => Op::WriteTo { off: u("off")?, count: u("count")? },
            "WriteAllTo" => Op::WriteAllTo { off: u("off")?, count: u("count")? },
            _ => return None,
        })
    }
}

#[derive(Clone, Debug, PartialEq)]
pub enum Out {
    Count(usize),
    Unit,
    Data(Vec<u8>),
    Err,
    Partial(usize, usize),
    /// the request was refused when the accessor was derived
    Refused,
}

fn vcls<T>(r: Result<T, VolatileMemoryError>, f: impl FnOnce(T) -> Out) -> Out {
    match r {
        Ok(v) => f(v),
        Err(VolatileMemoryError::PartialBuffer { expected, completed }) => Out::Partial(expected, completed),
        Err(_) => Out::Err,
    }
}

/// data written by operation number `tag`
pub fn wdata(tag: u8, n: usize) -> Vec<u8> {
    if tag & 0x80 != 0 {
        // the data of operation `tag & 0x7f` again, except for its last one to three bytes
        // (a rewrite that finds most of its bytes already in place)
        let mut d = wdata(tag & 0x7f, n);
        let k = (1 + (tag as usize) % 3).min(n);
        for b in &mut d[n - k..] {
            *b ^= 0x55;
        }
        return d;
    }
    // (the high bits of the index are mixed in: long buffers have no period of 256)
    (0..n).map(|j| 0x80 | (tag.wrapping_mul(29).wrapping_add((j as u8).wrapping_mul(3)).wrapping_add(((j >> 8) as u8).wrapping_mul(11)) & 0x7f)).collect()
}

fn mk<T: ByteValued>(bytes: &[u8]) -> T {
    let mut v = T::zeroed();
    v.as_mut_slice().copy_from_slice(bytes);
    v
}

/// A local (non-guest) buffer at a chosen misalignment with canaries around it.
pub struct Local {
    store: Vec<u8>,
    start: usize,
    pub len: usize,
}

impl Local {
    pub fn new(len: usize, mis: usize, fill: &[u8]) -> Local {
        let mut store = vec![0xC7u8; len + 64];
        let base = store.as_ptr() as usize;
        let start = ((16 - (base % 16)) % 16) + 16 + mis;
        for (i, b) in fill.iter().enumerate().take(len) {
            store[start + i] = *b;
        }
        if fill.is_empty() {
            for i in 0..len {
                store[start + i] = 0xEE;
            }
        }
        Local { store, start, len }
    }
    pub fn slice(&self) -> &[u8] {
        &self.store[self.start..self.start + self.len]
    }
    pub fn slice_mut(&mut self) -> &mut [u8] {
        let (s, l) = (self.start, self.len);
        &mut self.store[s..s + l]
    }
    pub fn canaries_ok(&self) -> bool {
        self.store[..self.start].iter().all(|b| *b == 0xC7) && self.store[self.start + self.len..].iter().all(|b| *b == 0xC7)
    }
}

/// Typed local element buffer, element-aligned, with canary elements around.
fn typed_buf<T: ByteValued>(m: usize, fill: Option<&[u8]>) -> Vec<T> {
    let sz = std::mem::size_of::<T>();
    let mut v: Vec<T> = Vec::with_capacity(m + 2);
    let canary = vec![0xC7u8; sz];
    v.push(mk::<T>(&canary));
    for i in 0..m {
        match fill {
            Some(f) => v.push(mk::<T>(&f[i * sz..(i + 1) * sz])),
            None => v.push(mk::<T>(&vec![0xEEu8; sz])),
        }
    }
    v.push(mk::<T>(&canary));
    v
}

fn typed_bytes<T: ByteValued>(v: &[T]) -> Vec<u8> {
    v.iter().flat_map(|e| e.as_slice().to_vec()).collect()
}

/// Result of running an op on the real container.
pub struct Real {
    pub out: Out,
    /// bytes of the caller-visible buffer / sink after the call (without canaries)
    pub buf: Vec<u8>,
    pub canary_ok: bool,
}

fn real(out: Out) -> Real {
    Real { out, buf: vec![], canary_ok: true }
}

fn op_write_obj<T: ByteValued, B: BitmapSlice>(vs: &VolatileSlice<B>, off: usize, tag: u8) -> Real {
    let v: T = mk(&wdata(tag, std::mem::size_of::<T>()));
    real(vcls(vs.write_obj(v, off), |_| Out::Unit))
}
fn op_read_obj<T: ByteValued, B: BitmapSlice>(vs: &VolatileSlice<B>, off: usize) -> Real {
    real(vcls(vs.read_obj::<T>(off), |v| Out::Data(v.as_slice().to_vec())))
}
fn op_ref_store<T: ByteValued, B: BitmapSlice>(vs: &VolatileSlice<B>, off: usize, tag: u8) -> Real {
    match vs.get_ref::<T>(off) {
        Ok(r) => {
            r.store(mk(&wdata(tag, std::mem::size_of::<T>())));
            real(Out::Unit)
        }
        Err(_) => real(Out::Refused),
    }
}
fn op_ref_load<T: ByteValued, B: BitmapSlice>(vs: &VolatileSlice<B>, off: usize) -> Real {
    match vs.get_ref::<T>(off) {
        Ok(r) => real(Out::Data(r.load().as_slice().to_vec())),
        Err(_) => real(Out::Refused),
    }
}
fn op_arr_load<T: ByteValued, B: BitmapSlice>(vs: &VolatileSlice<B>, off: usize, n: usize, i: usize) -> Real {
    match vs.get_array_ref::<T>(off, n) {
        Ok(a) => {
            if a.len() != n {
                return real(Out::Count(a.len()));
            }
            real(Out::Data(a.load(i).as_slice().to_vec()))
        }
        Err(_) => real(Out::Refused),
    }
}
fn op_arr_store<T: ByteValued, B: BitmapSlice>(vs: &VolatileSlice<B>, off: usize, n: usize, i: usize, tag: u8) -> Real {
    match vs.get_array_ref::<T>(off, n) {
        Ok(a) => {
            a.store(i, mk(&wdata(tag, std::mem::size_of::<T>())));
            real(Out::Unit)
        }
        Err(_) => real(Out::Refused),
    }
}
fn op_arr_copy_to<T: ByteValued, B: BitmapSlice>(vs: &VolatileSlice<B>, off: usize, n: usize, m: usize) -> Real {
    match vs.get_array_ref::<T>(off, n) {
        Ok(a) => {
            let mut buf = typed_buf::<T>(m, None);
            let r = a.copy_to(&mut buf[1..1 + m]);
            let bytes = typed_bytes(&buf);
            let sz = std::mem::size_of::<T>();
            let canary_ok = bytes[..sz].iter().all(|b| *b == 0xC7) && bytes[bytes.len() - sz..].iter().all(|b| *b == 0xC7);
            Real { out: Out::Count(r), buf: bytes[sz..bytes.len() - sz].to_vec(), canary_ok }
        }
        Err(_) => real(Out::Refused),
    }
}
fn op_arr_copy_from<T: ByteValued, B: BitmapSlice>(vs: &VolatileSlice<B>, off: usize, n: usize, m: usize, tag: u8) -> Real {
    match vs.get_array_ref::<T>(off, n) {
        Ok(a) => {
            let sz = std::mem::size_of::<T>();
            let data = wdata(tag, m * sz);
            let buf = typed_buf::<T>(m, Some(&data));
            a.copy_from(&buf[1..1 + m]);
            real(Out::Unit)
        }
        Err(_) => real(Out::Refused),
    }
}
fn op_slice_copy_to<T: ByteValued, B: BitmapSlice>(vs: &VolatileSlice<B>, off: usize, len: usize, m: usize) -> Real {
    match vs.subslice(off, len) {
        Ok(s) => {
            let mut buf = typed_buf::<T>(m, None);
            let r = s.copy_to(&mut buf[1..1 + m]);
            let bytes = typed_bytes(&buf);
            let sz = std::mem::size_of::<T>();
            let canary_ok = bytes[..sz].iter().all(|b| *b == 0xC7) && bytes[bytes.len() - sz..].iter().all(|b| *b == 0xC7);
            Real { out: Out::Count(r), buf: bytes[sz..bytes.len() - sz].to_vec(), canary_ok }
        }
        Err(_) => real(Out::Refused),
    }
}
fn op_slice_copy_from<T: ByteValued, B: BitmapSlice>(vs: &VolatileSlice<B>, off: usize, len: usize, m: usize, tag: u8) -> Real {
    match vs.subslice(off, len) {
        Ok(s) => {
            let sz = std::mem::size_of::<T>();
            let data = wdata(tag, m * sz);
            let buf = typed_buf::<T>(m, Some(&data));
            s.copy_from(&buf[1..1 + m]);
            real(Out::Unit)
        }
        Err(_) => real(Out::Refused),
    }
}
fn op_arr_copy_to_vs<T: ByteValued, B: BitmapSlice>(vs: &VolatileSlice<B>, off: usize, n: usize, dst: Dst) -> Real {
    match vs.get_array_ref::<T>(off, n) {
        Ok(a) => match dst {
            Dst::Same(o, l) => match vs.subslice(o, l) {
                Ok(d) => {
                    a.copy_to_volatile_slice(d);
                    real(Out::Unit)
                }
                Err(_) => real(Out::Refused),
            },
            Dst::Foreign(l) => {
                let mut f = Local::new(l, 3, &[]);
                let p = f.slice_mut().as_mut_ptr();
                // SAFETY: f outlives d
                let d = unsafe { VolatileSlice::new(p, l) };
                a.copy_to_volatile_slice(d);
                Real { out: Out::Unit, buf: f.slice().to_vec(), canary_ok: f.canaries_ok() }
            }
        },
        Err(_) => real(Out::Refused),
    }
}

/// Runs `op` (operation number `tag`) against the container `vs`.
pub fn run_op<B: BitmapSlice>(vs: &VolatileSlice<B>, op: &Op, tag: u8) -> Real {
    match *op {
        Op::Write { off, len, mis } => {
            let l = Local::new(len, mis, &wdata(tag, len));
            real(vcls(vs.write(l.slice(), off), Out::Count))
        }
        Op::WriteSlice { off, len, mis } => {
            let l = Local::new(len, mis, &wdata(tag, len));
            real(vcls(vs.write_slice(l.slice(), off), |_| Out::Unit))
        }
        Op::Read { off, len, mis } => {
            let mut l = Local::new(len, mis, &[]);
            let out = vcls(vs.read(l.slice_mut(), off), Out::Count);
            Real { out, buf: l.slice().to_vec(), canary_ok: l.canaries_ok() }
        }
        Op::ReadSlice { off, len, mis } => {
            let mut l = Local::new(len, mis, &[]);
            let out = vcls(vs.read_slice(l.slice_mut(), off), |_| Out::Unit);
            Real { out, buf: l.slice().to_vec(), canary_ok: l.canaries_ok() }
        }
        Op::WriteObj { ty, off } => with_ty!(ty, op_write_obj, vs, off, tag),
        Op::ReadObj { ty, off } => with_ty!(ty, op_read_obj, vs, off),
        Op::RefStore { ty, off } => with_ty!(ty, op_ref_store, vs, off, tag),
        Op::RefLoad { ty, off } => with_ty!(ty, op_ref_load, vs, off),
        Op::ArrLoad { ty, off, n, i } => with_ty!(ty, op_arr_load, vs, off, n, i),
        Op::ArrStore { ty, off, n, i } => with_ty!(ty, op_arr_store, vs, off, n, i, tag),
        Op::ArrCopyTo { ty, off, n, m } => with_ty!(ty, op_arr_copy_to, vs, off, n, m),
        Op::ArrCopyFrom { ty, off, n, m } => with_ty!(ty, op_arr_copy_from, vs, off, n, m, tag),
        Op::ArrCopyToVs { ty, off, n, dst } => with_ty!(ty, op_arr_copy_to_vs, vs, off, n, dst),
        Op::SliceCopyTo { ty, off, len, m } => with_ty!(ty, op_slice_copy_to, vs, off, len, m),
        Op::SliceCopyFrom { ty, off, len, m } => with_ty!(ty, op_slice_copy_from, vs, off, len, m, tag),
        Op::SliceCopyToVs { off, len, dst } => match vs.subslice(off, len) {
            Ok(s) => match dst {
                Dst::Same(o, l) => match vs.subslice(o, l) {
                    Ok(d) => {
                        s.copy_to_volatile_slice(d);
                        real(Out::Unit)
                    }
                    Err(_) => real(Out::Refused),
                },
                Dst::Foreign(l) => {
                    let mut f = Local::new(l, 5, &[]);
                    let p = f.slice_mut().as_mut_ptr();
                    // SAFETY: f outlives d
                    let d = unsafe { VolatileSlice::new(p, l) };
                    s.copy_to_volatile_slice(d);
                    Real { out: Out::Unit, buf: f.slice().to_vec(), canary_ok: f.canaries_ok() }
                }
            },
            Err(_) => real(Out::Refused),
        },
        Op::AtomStore { w, off } => {
            let d = wdata(tag, w);
            let r = match w {
                1 => vs.store(d[0], off, Ordering::SeqCst),
                2 => vs.store(u16::from_ne_bytes([d[0], d[1]]), off, Ordering::Release),
                4 => vs.store(u32::from_ne_bytes(d[..4].try_into().unwrap()), off, Ordering::SeqCst),
                8 => vs.store(u64::from_ne_bytes(d[..8].try_into().unwrap()), off, Ordering::Relaxed),
                _ => unreachable!(),
            };
            real(vcls(r, |_| Out::Unit))
        }
        Op::AtomLoad { w, off } => real(match w {
            1 => vcls(vs.load::<u8>(off, Ordering::SeqCst), |v| Out::Data(vec![v])),
            2 => vcls(vs.load::<u16>(off, Ordering::Acquire), |v| Out::Data(v.to_ne_bytes().to_vec())),
            4 => vcls(vs.load::<i32>(off, Ordering::SeqCst), |v| Out::Data(v.to_ne_bytes().to_vec())),
            8 => vcls(vs.load::<usize>(off, Ordering::Relaxed), |v| Out::Data(v.to_ne_bytes().to_vec())),
            _ => unreachable!(),
        }),
        Op::ReadFrom { off, count } => {
            let d: Vec<u8> = wdata(tag, count.min(1 << 18)).into_iter().chain(std::iter::repeat(0x7e).take(count.min(64))).collect();
            let mut src: &[u8] = &d;
            let out = vcls(vs.read_volatile_from(off, &mut src, count), Out::Count);
            Real { out, buf: vec![(d.len() - src.len()) as u8], canary_ok: true }
        }
        Op::ReadExactFrom { off, count } => {
            let d: Vec<u8> = wdata(tag, count.min(1 << 18)).into_iter().chain(std::iter::repeat(0x7e).take(count.min(64))).collect();
            let mut src: &[u8] = &d;
            let out = vcls(vs.read_exact_volatile_from(off, &mut src, count), |_| Out::Unit);
            Real { out, buf: vec![(d.len() - src.len()) as u8], canary_ok: true }
        }
        Op::WriteTo { off, count } => {
            let mut sink: Vec<u8> = Vec::new();
            let out = vcls(vs.write_volatile_to(off, &mut sink, count), Out::Count);
            Real { out, buf: sink, canary_ok: true }
        }
        Op::WriteAllTo { off, count } => {
            let mut sink: Vec<u8> = Vec::new();
            let out = vcls(vs.write_all_volatile_to(off, &mut sink, count), |_| Out::Unit);
            Real { out, buf: sink, canary_ok: true }
        }
    }
}

/// What the model expects. `alt` holds acceptable alternative (out, memory) pairs where the
/// property leaves a choice.
pub struct Expected {
    pub out: Vec<Out>,
    pub buf: Option<Vec<u8>>,
    /// candidate memory contents of the container after the op
    pub mem: Vec<Vec<u8>>,
    /// byte ranges (container offsets) the op writes, per candidate in `mem`
    pub written: Vec<Vec<(usize, usize)>>,
}

fn fits(off: usize, n: usize, l: usize) -> bool {
    off.checked_add(n).map_or(false, |e| e <= l)
}

/// Reference semantics on a `Vec<u8>` (appendix A.1 of DESIGN.md). `ptr` = host address of the
/// container (only used for the alignment rule of atomic accesses).
pub fn model_op(mem: &[u8], ptr: usize, op: &Op, tag: u8) -> Expected {
    let l = mem.len();
    let same = |out: Out| Expected { out: vec![out], buf: None, mem: vec![mem.to_vec()], written: vec![vec![]] };
    let put = |m: &mut Vec<u8>, off: usize, d: &[u8]| {
        m[off..off + d.len()].copy_from_slice(d);
    };
    match *op {
        Op::Write { off, len, .. } | Op::WriteSlice { off, len, .. } => {
            let exact = matches!(op, Op::WriteSlice { .. });
            if len == 0 {
                return same(if exact { Out::Unit } else { Out::Count(0) });
            }
            if off >= l {
                return same(Out::Err);
            }
            let n = len.min(l - off);
            let mut m = mem.to_vec();
            put(&mut m, off, &wdata(tag, len)[..n]);
            let out = if !exact {
                Out::Count(n)
            } else if n == len {
                Out::Unit
            } else {
                Out::Partial(len, n)
            };
            Expected { out: vec![out], buf: None, mem: vec![m], written: vec![vec![(off, n)]] }
        }
        Op::Read { off, len, .. } | Op::ReadSlice { off, len, .. } => {
            let exact = matches!(op, Op::ReadSlice { .. });
            let mut buf = vec![0xEEu8; len];
            if len == 0 {
                let mut e = same(if exact { Out::Unit } else { Out::Count(0) });
                e.buf = Some(buf);
                return e;
            }
            if off >= l {
                let mut e = same(Out::Err);
                e.buf = Some(buf);
                return e;
            }
            let n = len.min(l - off);
            buf[..n].copy_from_slice(&mem[off..off + n]);
            let out = if !exact {
                Out::Count(n)
            } else if n == len {
                Out::Unit
            } else {
                Out::Partial(len, n)
            };
            let mut e = same(out);
            e.buf = Some(buf);
            e
        }
        Op::WriteObj { ty, off } => {
            let sz = ty.size();
            if off >= l {
                return same(Out::Err);
            }
            let n = sz.min(l - off);
            let mut m = mem.to_vec();
            put(&mut m, off, &wdata(tag, sz)[..n]);
            let out = if n == sz { Out::Unit } else { Out::Partial(sz, n) };
            Expected { out: vec![out], buf: None, mem: vec![m], written: vec![vec![(off, n)]] }
        }
        Op::ReadObj { ty, off } => {
            let sz = ty.size();
            if off >= l {
                return same(Out::Err);
            }
            let n = sz.min(l - off);
            if n == sz {
                same(Out::Data(mem[off..off + sz].to_vec()))
            } else {
                same(Out::Partial(sz, n))
            }
        }
        Op::RefStore { ty, off } => {
            let sz = ty.size();
            if !fits(off, sz, l) {
                return same(Out::Refused);
            }
            let mut m = mem.to_vec();
            put(&mut m, off, &wdata(tag, sz));
            Expected { out: vec![Out::Unit], buf: None, mem: vec![m], written: vec![vec![(off, sz)]] }
        }
        Op::RefLoad { ty, off } => {
            let sz = ty.size();
            if !fits(off, sz, l) {
                return same(Out::Refused);
            }
            same(Out::Data(mem[off..off + sz].to_vec()))
        }
        Op::ArrLoad { ty, off, n, i } | Op::ArrStore { ty, off, n, i } => {
            let sz = ty.size();
            let bytes = n.checked_mul(sz).filter(|b| *b <= IMAX);
            let ok = bytes.map_or(false, |b| fits(off, b, l));
            if !ok {
                return same(Out::Refused);
            }
            let o = off + i * sz;
            if matches!(op, Op::ArrLoad { .. }) {
                same(Out::Data(mem[o..o + sz].to_vec()))
            } else {
                let mut m = mem.to_vec();
                put(&mut m, o, &wdata(tag, sz));
                Expected { out: vec![Out::Unit], buf: None, mem: vec![m], written: vec![vec![(o, sz)]] }
            }
        }
        Op::ArrCopyTo { ty, off, n, m } => {
            let sz = ty.size();
            let bytes = n.checked_mul(sz).filter(|b| *b <= IMAX);
            if !bytes.map_or(false, |b| fits(off, b, l)) {
                return same(Out::Refused);
            }
            let k = n.min(m);
            let mut buf = vec![0xEEu8; m * sz];
            buf[..k * sz].copy_from_slice(&mem[off..off + k * sz]);
            let mut e = same(Out::Count(k));
            e.buf = Some(buf);
            e
        }
        Op::ArrCopyFrom { ty, off, n, m } => {
            let sz = ty.size();
            let bytes = n.checked_mul(sz).filter(|b| *b <= IMAX);
            if !bytes.map_or(false, |b| fits(off, b, l)) {
                return same(Out::Refused);
            }
            let k = n.min(m);
            let mut mm = mem.to_vec();
            put(&mut mm, off, &wdata(tag, m * sz)[..k * sz]);
            Expected { out: vec![Out::Unit], buf: None, mem: vec![mm], written: vec![vec![(off, k * sz)]] }
        }
        Op::SliceCopyTo { ty, off, len, m } => {
            if !fits(off, len, l) {
                return same(Out::Refused);
            }
            let sz = ty.size();
            let k = (len / sz).min(m);
            let mut buf = vec![0xEEu8; m * sz];
            buf[..k * sz].copy_from_slice(&mem[off..off + k * sz]);
            let mut e = same(Out::Count(k));
            e.buf = Some(buf);
            e
        }
        Op::SliceCopyFrom { ty, off, len, m } => {
            if !fits(off, len, l) {
                return same(Out::Refused);
            }
            let sz = ty.size();
            let k = (len / sz).min(m);
            let mut mm = mem.to_vec();
            put(&mut mm, off, &wdata(tag, m * sz)[..k * sz]);
            Expected { out: vec![Out::Unit], buf: None, mem: vec![mm], written: vec![vec![(off, k * sz)]] }
        }
        Op::ArrCopyToVs { .. } | Op::SliceCopyToVs { .. } => {
            let (off, len, dst) = match *op {
                Op::ArrCopyToVs { ty, off, n, dst } => {
                    let bytes = n.checked_mul(ty.size()).filter(|b| *b <= IMAX);
                    match bytes {
                        Some(b) if fits(off, b, l) => (off, b, dst),
                        _ => return same(Out::Refused),
                    }
                }
                Op::SliceCopyToVs { off, len, dst } => {
                    if !fits(off, len, l) {
                        return same(Out::Refused);
                    }
                    (off, len, dst)
                }
                _ => unreachable!(),
            };
            match dst {
                Dst::Same(o, dl) => {
                    if !fits(o, dl, l) {
                        return same(Out::Refused);
                    }
                    let k = len.min(dl);
                    let mut mm = mem.to_vec();
                    let src = mem[off..off + k].to_vec(); // memmove semantics
                    put(&mut mm, o, &src);
                    Expected { out: vec![Out::Unit], buf: None, mem: vec![mm], written: vec![vec![(o, k)]] }
                }
                Dst::Foreign(dl) => {
                    let k = len.min(dl);
                    let mut buf = vec![0xEEu8; dl];
                    buf[..k].copy_from_slice(&mem[off..off + k]);
                    let mut e = same(Out::Unit);
                    e.buf = Some(buf);
                    e
                }
            }
        }
        Op::AtomStore { w, off } | Op::AtomLoad { w, off } => {
            let ok = fits(off, w, l) && (ptr.wrapping_add(off)) % w == 0;
            if !ok {
                return same(Out::Err);
            }
            if matches!(op, Op::AtomLoad { .. }) {
                same(Out::Data(mem[off..off + w].to_vec()))
            } else {
                let mut m = mem.to_vec();
                put(&mut m, off, &wdata(tag, w));
                Expected { out: vec![Out::Unit], buf: None, mem: vec![m], written: vec![vec![(off, w)]] }
            }
        }
        Op::ReadFrom { off, count } => {
            if off > l {
                let mut e = same(Out::Err);
                e.buf = Some(vec![0]);
                return e;
            }
            if off == l {
                // a stream transfer that starts exactly at the end: Ok(0) or an error
                let mut e = same(Out::Count(0));
                e.out.push(Out::Err);
                e.buf = Some(vec![0]);
                return e;
            }
            let n = count.min(l - off);
            let mut m = mem.to_vec();
            put(&mut m, off, &wdata(tag, count.min(1 << 18))[..n]);
            Expected { out: vec![Out::Count(n)], buf: Some(vec![n as u8]), mem: vec![m], written: vec![vec![(off, n)]] }
        }
        Op::ReadExactFrom { off, count } => {
            if fits(off, count, l) {
                let mut m = mem.to_vec();
                put(&mut m, off, &wdata(tag, count.min(1 << 18))[..count]);
                Expected { out: vec![Out::Unit], buf: Some(vec![count as u8]), mem: vec![m], written: vec![vec![(off, count)]] }
            } else {
                // must fail; whether a prefix was transferred first is not fixed by the property
                let mut e = same(Out::Err);
                e.out.push(Out::Partial(count, 0));
                e.buf = None;
                if off < l {
                    let n = l - off;
                    let mut m = mem.to_vec();
                    put(&mut m, off, &wdata(tag, count.min(1 << 18))[..n]);
                    e.mem.push(m);
                    e.written.push(vec![(off, n)]);
                    e.out.push(Out::Partial(count, n));
                }
                e
            }
        }
        Op::WriteTo { off, count } => {
            if off > l {
                return same(Out::Err);
            }
            if off == l {
                let mut e = same(Out::Count(0));
                e.out.push(Out::Err);
                return e;
            }
            let n = count.min(l - off);
            let mut e = same(Out::Count(n));
            e.buf = Some(mem[off..off + n].to_vec());
            e
        }
        Op::WriteAllTo { off, count } => {
            if fits(off, count, l) {
                let mut e = same(Out::Unit);
                e.buf = Some(mem[off..off + count].to_vec());
                e
            } else {
                let mut e = same(Out::Err);
                if off < l {
                    e.out.push(Out::Partial(count, l - off));
                }
                e.out.push(Out::Partial(count, 0));
                e
            }
        }
    }
}

/// A container placed inside an arena: `frame` bytes of canary before and after.
pub struct Placed {
    pub arena: Arena,
    pub start: usize,
    pub len: usize,
}

impl Placed {
    /// container of `len` bytes whose address is `mis` mod 8; `at_end`: ends at the guard page
    pub fn new(len: usize, mis: usize, at_end: bool) -> Placed {
        let arena = Arena::new(1);
        let start = if at_end { arena.len() - len } else { 2048 + mis };
        Placed { arena, start, len }
    }
    /// a container of any length (the arena grows with it)
    pub fn new_large(len: usize) -> Placed {
        let arena = Arena::new(len / 4096 + 3);
        Placed { arena, start: 2048, len }
    }
    pub fn ptr(&self) -> *mut u8 {
        unsafe { self.arena.ptr().add(self.start) }
    }
    pub fn vs(&self) -> VolatileSlice<'_, ()> {
        // SAFETY: inside the arena
        unsafe { VolatileSlice::new(self.ptr(), self.len) }
    }
    /// frame window compared after every op
    pub fn window(&self) -> (usize, usize) {
        (self.start.saturating_sub(64), (self.start + self.len + 64).min(self.arena.len()))
    }
    pub fn load(&self, contents: &[u8]) {
        let (a, b) = self.window();
        let bytes = self.arena.bytes_mut();
        for i in a..b {
            bytes[i] = 0xC3;
        }
        bytes[self.start..self.start + self.len].copy_from_slice(contents);
    }
    pub fn contents(&self) -> Vec<u8> {
        self.arena.bytes()[self.start..self.start + self.len].to_vec()
    }
    pub fn frame_ok(&self) -> bool {
        let (a, b) = self.window();
        let bytes = self.arena.bytes();
        bytes[a..self.start].iter().all(|x| *x == 0xC3) && bytes[self.start + self.len..b].iter().all(|x| *x == 0xC3)
    }
}

pub fn labels(n: usize) -> Vec<u8> {
    (0..n).map(|i| 0x10 + ((i + (i >> 8) * 7) % 0x60) as u8).collect()
}

/// One transition on the placed container. Returns the successor contents.
pub fn step(ctx: &Ctx, what: &str, p: &Placed, state: &[u8], op: &Op, tag: u8, hist: &[Op]) -> Option<Vec<u8>> {
    p.load(state);
    let vs = p.vs();
    let exp = model_op(state, p.ptr() as usize, op, tag);
    let describe = || {
        (
            format!("C04/{}/{}", what, op.name()),
            format!("N={} ptr%8={} {:?}", p.len, p.ptr() as usize % 8, op),
            json!({"container": what, "len": p.len, "address_mod_8": p.ptr() as usize % 8, "state_before": hex(state),
                   "history": hist.iter().map(|o| o.to_json()).collect::<Vec<_>>(), "op": op.to_json(), "tag": tag}),
        )
    };
    let r = crate::crash::guarded(ctx, &describe, || run_op(&vs, op, tag))?;
    let after = p.contents();
    let mut bad: Option<(&str, String)> = None;
    let oi = exp.out.iter().position(|o| *o == r.out);
    if oi.is_none() {
        bad = Some(("result", format!("returned {:?}, expected {:?}", r.out, exp.out)));
    } else if !exp.mem.iter().any(|m| *m == after) {
        bad = Some(("memory", format!("container is {} but should be {}", hex(&after), hex(&exp.mem[0]))));
    } else if !p.frame_ok() {
        bad = Some(("outside-container", "bytes outside the container changed".into()));
    } else if !r.canary_ok {
        bad = Some(("outside-buffer", "bytes outside the caller's buffer changed".into()));
    } else if let Some(b) = &exp.buf {
        // buffers are only defined when the call did not fail outright
        if !matches!(r.out, Out::Err | Out::Refused) && !(matches!(r.out, Out::Partial(..)) && matches!(op, Op::WriteTo { .. } | Op::WriteAllTo { .. })) && *b != r.buf {
            bad = Some(("buffer", format!("buffer/sink/consumed is {} but should be {}", hex(&r.buf), hex(b))));
        }
    }
    if let Some((k, d)) = bad {
        let key = format!("C04/{}/{}/{}", what, op.name(), k);
        let rp = if ctx.has_failed(&key) {
            Value::Null
        } else {
            json!({"container": what, "len": p.len, "address_mod_8": p.ptr() as usize % 8, "state_before": hex(state),
                   "history": hist.iter().map(|o| o.to_json()).collect::<Vec<_>>(), "op": op.to_json(), "tag": tag})
        };
        ctx.fail(&key, &format!("N={} ptr%8={} {:?}: {}", p.len, p.ptr() as usize % 8, op, d), rp);
        return None;
    }
    Some(after)
}

/// The complete depth-1 alphabet for a container of `n` bytes.
pub fn alphabet(n: usize, thorough: bool) -> Vec<Op> {
    let mut v = Vec::new();
    let offs: Vec<usize> = (0..=n + 1).collect();
    let lens: Vec<usize> = (0..=n + 2).collect();
    for &off in &offs {
        for &len in &lens {
            // all eight buffer misalignments for the small-copy classes, fewer for long ones
            let miss: Vec<usize> = if len <= 9 || thorough { (0..8).collect() } else { vec![0, 3] };
            for mis in miss {
                v.push(Op::Write { off, len, mis });
                v.push(Op::Read { off, len, mis });
                if mis == 0 || mis == 5 || len <= 9 {
                    v.push(Op::WriteSlice { off, len, mis });
                    v.push(Op::ReadSlice { off, len, mis });
                }
            }
            v.push(Op::ReadFrom { off, count: len });
            v.push(Op::ReadExactFrom { off, count: len });
            v.push(Op::WriteTo { off, count: len });
            v.push(Op::WriteAllTo { off, count: len });
            for dst in [Dst::Same(0, n), Dst::Same(off.min(n), n - off.min(n)), Dst::Same(n / 2, n - n / 2), Dst::Same(1.min(n), (n.saturating_sub(1)).min(len + 1)), Dst::Foreign(len), Dst::Foreign(len + 3), Dst::Foreign(len.saturating_sub(1))] {
                v.push(Op::SliceCopyToVs { off, len, dst });
            }
            for ty in TYS {
                for m in [0, 1, len / ty.size(), len / ty.size() + 1, 9] {
                    if ty.size() == 1 || m <= 12 {
                        v.push(Op::SliceCopyTo { ty, off, len, m });
                        v.push(Op::SliceCopyFrom { ty, off, len, m });
                    }
                }
            }
        }
        for ty in TYS {
            v.push(Op::WriteObj { ty, off });
            v.push(Op::ReadObj { ty, off });
            v.push(Op::RefStore { ty, off });
            v.push(Op::RefLoad { ty, off });
            let maxn = n / ty.size() + 2;
            for cnt in (0..=maxn).chain(EXT.iter().cloned()).chain([usize::MAX / ty.size(), (usize::MAX / ty.size()).saturating_add(1), IMAX / ty.size(), IMAX / ty.size() + 1]) {
                if cnt > 0 {
                    for i in [0, cnt - 1] {
                        if cnt <= maxn {
                            v.push(Op::ArrLoad { ty, off, n: cnt, i });
                            v.push(Op::ArrStore { ty, off, n: cnt, i });
                        }
                    }
                }
                for m in [0, 1, cnt.min(40), cnt.min(40) + 1] {
                    v.push(Op::ArrCopyTo { ty, off, n: cnt, m });
                    v.push(Op::ArrCopyFrom { ty, off, n: cnt, m });
                }
                v.push(Op::ArrCopyToVs { ty, off, n: cnt, dst: Dst::Foreign(n + 1) });
                v.push(Op::ArrCopyToVs { ty, off, n: cnt, dst: Dst::Same(0, n) });
                v.push(Op::ArrCopyToVs { ty, off, n: cnt, dst: Dst::Same(n / 3, n - n / 3) });
            }
        }
        for w in [1, 2, 4, 8] {
            v.push(Op::AtomStore { w, off });
            v.push(Op::AtomLoad { w, off });
        }
    }
    // extreme offsets / counts for the count-taking calls
    for &e in &EXT {
        for off in [0, 1, n, e] {
            v.push(Op::ReadFrom { off, count: e });
            v.push(Op::WriteTo { off, count: e });
            v.push(Op::ReadExactFrom { off, count: e });
            v.push(Op::WriteAllTo { off, count: e });
            v.push(Op::SliceCopyToVs { off, len: e, dst: Dst::Foreign(4) });
            v.push(Op::Write { off: e, len: 2, mis: 0 });
            v.push(Op::Read { off: e, len: 2, mis: 0 });
            v.push(Op::WriteObj { ty: Ty::U32, off: e });
            v.push(Op::RefLoad { ty: Ty::U16, off: e });
            v.push(Op::AtomLoad { w: 4, off: e });
        }
    }
    let mut seen = HashSet::new();
    v.retain(|o| seen.insert(*o));
    v
}

fn reduced_writes(n: usize) -> Vec<Op> {
    let mut v = Vec::new();
    for off in [0usize, 1, 3, 8, n.saturating_sub(5)] {
        if off >= n {
            continue;
        }
        v.push(Op::Write { off, len: 5, mis: 1 });
        v.push(Op::WriteSlice { off, len: 8, mis: 0 });
        v.push(Op::WriteObj { ty: Ty::U32, off });
        v.push(Op::WriteObj { ty: Ty::Le64, off });
        v.push(Op::RefStore { ty: Ty::U16, off });
        v.push(Op::RefStore { ty: Ty::A3, off });
        v.push(Op::ArrStore { ty: Ty::U16, off, n: 2, i: 1 });
        v.push(Op::ArrCopyFrom { ty: Ty::U32, off, n: 2, m: 2 });
        v.push(Op::ArrCopyFrom { ty: Ty::U8, off, n: 9, m: 9 });
        v.push(Op::SliceCopyFrom { ty: Ty::U16, off, len: 6, m: 3 });
        v.push(Op::SliceCopyFrom { ty: Ty::U8, off, len: 8, m: 8 });
        v.push(Op::SliceCopyToVs { off: 0, len: 6, dst: Dst::Same(off, n - off) });
        v.push(Op::AtomStore { w: 4, off });
        v.push(Op::AtomStore { w: 1, off });
        v.push(Op::ReadFrom { off, count: 7 });
        v.push(Op::ReadExactFrom { off, count: 4 });
    }
    v
}

/// Writes that are repeated with nearly the same data (see `wdata`): lengths above one word
/// that are not a multiple of it, and whole words.
fn rewrites(n: usize) -> Vec<Op> {
    let mut v = Vec::new();
    for off in [0usize, 1, 3, 8] {
        for len in [9usize, 12, 13, 16, 17, 23, n.saturating_sub(off), 300] {
            if off + 9 > n {
                continue;
            }
            v.push(Op::Write { off, len, mis: 0 });
            v.push(Op::Write { off, len, mis: 3 });
            v.push(Op::WriteSlice { off, len: len.min(n - off), mis: 1 });
            v.push(Op::ReadFrom { off, count: len });
            v.push(Op::ReadExactFrom { off, count: len.min(n - off) });
            v.push(Op::SliceCopyFrom { ty: Ty::U8, off, len: len.min(n - off), m: len });
            v.push(Op::SliceCopyFrom { ty: Ty::U16, off, len: len.min(n - off), m: len / 2 });
            v.push(Op::ArrCopyFrom { ty: Ty::U8, off, n: len.min(n - off), m: len });
            v.push(Op::ArrCopyFrom { ty: Ty::U32, off, n: len.min(n - off) / 4, m: len / 4 });
        }
        if off + 16 <= n {
            v.push(Op::WriteObj { ty: Ty::U128, off });
            v.push(Op::RefStore { ty: Ty::U128, off });
            v.push(Op::WriteObj { ty: Ty::A3, off });
        }
    }
    let mut seen = HashSet::new();
    v.retain(|o| seen.insert(*o));
    v
}

/// write; the same write again with data that differs in its last bytes only; read back.
fn rewrite_histories(ctx: &Ctx, what: &str, p: &Placed, init: &[u8]) -> u64 {
    let n = p.len;
    let mut t = 0u64;
    for (wi, w) in rewrites(n).iter().enumerate() {
        let tag = (wi % 100) as u8 + 1;
        t += 1;
        let Some(s1) = step(ctx, what, p, init, w, tag, &[]) else { continue };
        for again in [tag | 0x80, tag] {
            t += 2;
            if let Some(s2) = step(ctx, what, p, &s1, w, again, &[*w]) {
                step(ctx, what, p, &s2, &Op::Read { off: 0, len: n, mis: 0 }, 0, &[*w, *w]);
            }
        }
    }
    t
}

fn reduced_reads(n: usize) -> Vec<Op> {
    let mut v = Vec::new();
    for off in [0usize, 1, 3, 8, n.saturating_sub(5)] {
        if off >= n {
            continue;
        }
        v.push(Op::Read { off, len: 9, mis: 2 });
        v.push(Op::ReadSlice { off, len: 4, mis: 0 });
        v.push(Op::ReadObj { ty: Ty::U64, off });
        v.push(Op::ReadObj { ty: Ty::A3, off });
        v.push(Op::RefLoad { ty: Ty::Be32, off });
        v.push(Op::ArrLoad { ty: Ty::U16, off, n: 3, i: 2 });
        v.push(Op::ArrCopyTo { ty: Ty::U32, off, n: 2, m: 3 });
        v.push(Op::ArrCopyTo { ty: Ty::I8, off, n: 10, m: 10 });
        v.push(Op::SliceCopyTo { ty: Ty::U8, off, len: 8, m: 8 });
        v.push(Op::SliceCopyTo { ty: Ty::U16, off, len: 7, m: 4 });
        v.push(Op::SliceCopyToVs { off, len: 9, dst: Dst::Foreign(9) });
        v.push(Op::AtomLoad { w: 2, off });
        v.push(Op::AtomLoad { w: 8, off });
        v.push(Op::WriteTo { off, count: 6 });
        v.push(Op::WriteAllTo { off, count: 3 });
    }
    v
}

fn explore_container(ctx: &Ctx, what: &str, p: &Placed, thorough: bool, full_depth1: bool) {
    let n = p.len;
    let init = labels(n);
    let mut states: HashSet<Vec<u8>> = HashSet::new();
    states.insert(init.clone());
    let mut t = 0u64;
    if full_depth1 {
        for (k, op) in alphabet(n, thorough).iter().enumerate() {
            t += 1;
            if let Some(s) = step(ctx, what, p, &init, op, (k % 97) as u8 + 1, &[]) {
                states.insert(s);
            }
        }
    }
    // depth 2: (write route) x (read route), state carried over; depth 3: write, write, read
    if n >= 12 {
        let ws = reduced_writes(n);
        let rs = reduced_reads(n);
        for (wi, w) in ws.iter().enumerate() {
            t += 1;
            let s1 = match step(ctx, what, p, &init, w, wi as u8 + 1, &[]) {
                Some(s) => s,
                None => continue,
            };
            states.insert(s1.clone());
            for r in &rs {
                t += 1;
                step(ctx, what, p, &s1, r, 0, &[*w]);
            }
            if thorough || wi % 3 == 0 {
                for (wj, w2) in ws.iter().enumerate() {
                    if !thorough && wj % 4 != 1 {
                        continue;
                    }
                    t += 1;
                    let s2 = match step(ctx, what, p, &s1, w2, (wi + wj + 7) as u8, &[*w]) {
                        Some(s) => s,
                        None => continue,
                    };
                    states.insert(s2.clone());
                    for (ri, r) in rs.iter().enumerate() {
                        if thorough || ri % 5 == 0 {
                            t += 1;
                            step(ctx, what, p, &s2, r, 0, &[*w, *w2]);
                        }
                    }
                }
            }
        }
    }
    if n >= 12 {
        t += rewrite_histories(ctx, what, p, &init);
    }
    ctx.add_states(states.len() as u64);
    ctx.add_transitions(t);
    ctx.add_traces(t);
}

pub fn run(tier: Tier, replay: Option<String>) -> i32 {
    let ctx = crate::new_ctx("C04", tier, "model_checking", &replay);
    ctx.set_rule("E1 on one container: depth 1 = the complete alphabet (every accessor route x every offset 0..=N+1 x every length/count 0..=N+2 plus values around isize::MAX/usize::MAX x 12 element types of 1..16 bytes x local buffers at every misalignment 0..7) from a labelled state; depth 2 = product (write route) x (read route) at aligned and unaligned positions with the state carried over; depth 3 = write, overlapping write, read, and write, the same write again with data that differs in its last one to three bytes only (or not at all), read. Containers: VolatileSlice of N in 0..=24 bytes at every address mod 8 (one copy ending at a PROT_NONE guard page), MmapRegion of 24 and 4099 bytes. After every transition the result, the complete container, a 64-byte frame around it, the caller's buffer and canaries around that buffer are compared with a Vec<u8> model. An MmapRegion of 140001 bytes: every buffer, stream and copy route with transfers of 2^16-1 .. 140001 bytes in one call (around 2^16 and 2^17, at offsets 0, 1, 3 and ending at the end), contents without a short period. An MmapRegion of 16 MiB + 8197 bytes: eight buffer, slice, stream and copy routes with transfers of 2^24, 2^24+1 and the whole container in one call.");
    ctx.assume("stream forms that start exactly at the end of the container may return Ok(0) or an error; a failing exact stream form may or may not have moved a prefix");
    let thorough = tier.thorough();
    if let Some(r) = ctx.replay_of.clone() {
        let c = &r["case"];
        let n = c["len"].as_u64().unwrap_or(0) as usize;
        let mis = c["address_mod_8"].as_u64().unwrap_or(0) as usize;
        let hist: Vec<Op> = c["history"].as_array().map(|a| a.iter().filter_map(|x| x.as_str().and_then(Op::parse)).collect()).unwrap_or_default();
        let op = match c["op"].as_str().and_then(Op::parse) {
            Some(o) => o,
            None => {
                eprintln!("MACHINERY: cannot parse op in replay file");
                return 2;
            }
        };
        let tag = c["tag"].as_u64().unwrap_or(1) as u8;
        let p = Placed::new(n, mis, false);
        let state: Vec<u8> = (0..n).map(|i| u8::from_str_radix(&c["state_before"].as_str().unwrap_or("")[2 * i..2 * i + 2], 16).unwrap_or(0)).collect();
        println!("replaying {:?} (history {:?}) on N={} ptr%8={}", op, hist, n, mis);
        step(&ctx, c["container"].as_str().unwrap_or("slice"), &p, &state, &op, tag, &hist);
        return ctx.finish();
    }
    let sizes: Vec<usize> = if thorough { (0..=24).collect() } else { vec![0, 1, 2, 3, 7, 8, 9, 12, 16, 17, 24] };
    std::thread::scope(|s| {
        let ctx = &ctx;
        for &n in &sizes {
            for mis in 0..8usize {
                if !thorough && n > 9 && !(mis == 0 || mis == 1 || mis == 4 || mis == 7) {
                    continue;
                }
                s.spawn(move || {
                    let p = Placed::new(n, mis, false);
                    explore_container(ctx, "slice", &p, thorough, true);
                });
            }
            s.spawn(move || {
                let p = Placed::new(n, 0, true);
                explore_container(ctx, "slice-at-guard-page", &p, thorough, true);
            });
        }
        // larger containers on a boundary alphabet (a different code path may start at some size)
        for n in [64usize, 100, 257, 1000] {
            s.spawn(move || {
                let p = Placed::new(n, 3, false);
                let init = labels(n);
                let mut t = 0u64;
                let mut ops: Vec<Op> = reduced_writes(n);
                ops.extend(reduced_reads(n));
                for off in [0usize, 1, 7, 8, 9, 63, 64, 65, n / 2, n - 9, n - 8, n - 1, n, n + 1] {
                    for len in [0usize, 1, 8, 9, 16, 17, 63, 64, 65, n - off.min(n), n] {
                        ops.push(Op::Write { off, len, mis: 1 });
                        ops.push(Op::Read { off, len, mis: 2 });
                        ops.push(Op::WriteSlice { off, len, mis: 0 });
                        ops.push(Op::ReadSlice { off, len, mis: 0 });
                        ops.push(Op::ReadFrom { off, count: len });
                        ops.push(Op::WriteTo { off, count: len });
                        ops.push(Op::SliceCopyToVs { off, len, dst: Dst::Same(0, n) });
                        ops.push(Op::SliceCopyToVs { off, len, dst: Dst::Same(off.min(n) / 2, n - off.min(n) / 2) });
                        ops.push(Op::SliceCopyFrom { ty: Ty::U64, off, len, m: len / 8 + 1 });
                        ops.push(Op::SliceCopyTo { ty: Ty::U16, off, len, m: len / 2 });
                        ops.push(Op::ArrCopyFrom { ty: Ty::U32, off, n: len / 4, m: len / 4 + 1 });
                        ops.push(Op::ArrCopyTo { ty: Ty::U128, off, n: len / 16, m: len / 16 });
                    }
                }
                for (k, op) in ops.iter().enumerate() {
                    t += 1;
                    step(ctx, "slice-large", &p, &init, op, (k % 97) as u8 + 1, &[]);
                }
                t += rewrite_histories(ctx, "slice-large", &p, &init);
                ctx.add_transitions(t);
                ctx.add_traces(t);
                ctx.add_states(1);
            });
        }
        #[cfg(not(feature = "xen"))]
        s.spawn(move || mmap_regions(ctx, thorough));
        #[cfg(not(feature = "xen"))]
        s.spawn(move || huge_transfers(ctx));
    });
    ctx.sample(json!({"container": "VolatileSlice N=9 at address 3 mod 8", "op": "Write { off: 7, len: 5, mis: 6 }", "expected": "Ok(2); bytes 7..9 replaced; frame and local canaries intact"}));
    ctx.sample(json!({"container": "VolatileSlice N=16", "history": ["ArrCopyFrom { ty: U32, off: 3, n: 2, m: 2 }", "RefLoad { ty: Be32, off: 3 }"], "expected": "the value stored through the array reference is the value loaded through the typed reference"}));
    ctx.set_exhaustive(true);
    ctx.finish()
}

/// Transfers of more than 2^24 bytes in one call on a container of 16 MiB + 8197 bytes: the
/// buffer, slice and stream routes move every byte they name (no route caps a transfer).
#[cfg(not(feature = "xen"))]
fn huge_transfers(ctx: &Ctx) {
    use vm_memory::MmapRegion;
    const N: usize = (16 << 20) + 8197;
    let region = match MmapRegion::<()>::new(N) {
        Ok(r) => r,
        Err(e) => {
            ctx.machinery(&format!("cannot map {} bytes: {:?}", N, e));
            return;
        }
    };
    let pat = |salt: u32, n: usize| -> Vec<u8> { (0..n).map(|i| (((i as u32).wrapping_add(salt)).wrapping_mul(2654435761) >> 23) as u8).collect() };
    let base = pat(1, N);
    let set = || unsafe { std::ptr::copy_nonoverlapping(base.as_ptr(), region.as_ptr(), N) };
    let get = || unsafe { std::slice::from_raw_parts(region.as_ptr(), N) }.to_vec();
    let vs = region.as_volatile_slice();
    let mut t = 0u64;
    for (off, len) in [(0usize, (1usize << 24) + 1), (3, N - 3), (4097, 1 << 24), (0, N + 7)] {
        let fit = len.min(N - off);
        let data = pat(7, len);
        for route in 0..8usize {
            t += 1;
            ctx.case(true);
            set();
            let name = ["write", "write_slice", "read", "read_slice", "read_volatile_from(&[u8])", "write_volatile_to(Vec)", "copy_from<u8>", "copy_to<u8>"][route];
            let mut buf = vec![0x3cu8; len];
            let mut bad: Option<String> = None;
            let mut want_mem = base.clone();
            match route {
                0 => {
                    let r = vs.write(&data, off);
                    want_mem[off..off + fit].copy_from_slice(&data[..fit]);
                    if r.as_ref().ok() != Some(&fit) {
                        bad = Some(format!("returned {:?}, expected Ok({})", r, fit));
                    }
                }
                1 => {
                    let r = vs.write_slice(&data, off);
                    if fit == len {
                        want_mem[off..off + fit].copy_from_slice(&data[..fit]);
                    }
                    if r.is_ok() != (fit == len) {
                        bad = Some(format!("returned {:?}", r));
                    } else if fit != len {
                        want_mem = get(); // how much of a refused slice write lands is not fixed
                    }
                }
                2 => {
                    let r = vs.read(&mut buf, off);
                    if r.as_ref().ok() != Some(&fit) || buf[..fit] != base[off..off + fit] || buf[fit..].iter().any(|x| *x != 0x3c) {
                        bad = Some(format!("returned {:?} (expected Ok({})), or the buffer does not hold the container's bytes", r, fit));
                    }
                }
                3 => {
                    let r = vs.read_slice(&mut buf, off);
                    if r.is_ok() != (fit == len) || (fit == len && buf[..] != base[off..off + len]) {
                        bad = Some(format!("returned {:?}, or the buffer does not hold the container's bytes", r));
                    }
                }
                4 => {
                    let mut src: &[u8] = &data;
                    let r = vs.read_volatile_from(off, &mut src, len);
                    want_mem[off..off + fit].copy_from_slice(&data[..fit]);
                    if r.as_ref().ok() != Some(&fit) || src.len() != len - fit {
                        bad = Some(format!("returned {:?} (expected Ok({})), {} bytes left in the source", r, fit, src.len()));
                    }
                }
                5 => {
                    let mut sink: Vec<u8> = Vec::new();
                    let r = vs.write_volatile_to(off, &mut sink, len);
                    if r.as_ref().ok() != Some(&fit) || sink[..] != base[off..off + fit] {
                        bad = Some(format!("returned {:?} (expected Ok({})), the sink holds {} bytes", r, fit, sink.len()));
                    }
                }
                6 => {
                    vs.subslice(off, fit).unwrap().copy_from(&data[..]);
                    want_mem[off..off + fit].copy_from_slice(&data[..fit]);
                }
                _ => {
                    let n = vs.subslice(off, fit).unwrap().copy_to(&mut buf[..]);
                    if n != fit || buf[..fit] != base[off..off + fit] || buf[fit..].iter().any(|x| *x != 0x3c) {
                        bad = Some(format!("returned {} (expected {}), or the buffer does not hold the container's bytes", n, fit));
                    }
                }
            }
            if bad.is_none() {
                let after = get();
                if after != want_mem {
                    let i = (0..N).find(|i| after[*i] != want_mem[*i]).unwrap();
                    bad = Some(format!("container byte {:#x} is {:#04x}, expected {:#04x}", i, after[i], want_mem[i]));
                }
            }
            if let Some(d) = bad {
                let key = format!("C04/MmapRegion(16 MiB + 8197)/{}", name);
                let rp = if ctx.has_failed(&key) { Value::Null } else { json!({"route": name, "offset": off, "len": len}) };
                ctx.fail(&key, &format!("{} bytes at offset {}: {}", len, off, d), rp);
            }
        }
    }
    ctx.add_transitions(t);
    ctx.add_traces(t);
}

#[cfg(not(feature = "xen"))]
fn mmap_regions(ctx: &Ctx, thorough: bool) {
    use vm_memory::MmapRegion;
    for size in [24usize, 4099, 140001] {
        let region = MmapRegion::<()>::new(size).unwrap();
        // the region's own get_slice at every offset/count, then the Bytes routes through it
        let n = size;
        let state = labels(n);
        let mut t = 0u64;
        let set = |st: &[u8]| unsafe { std::ptr::copy_nonoverlapping(st.as_ptr(), region.as_ptr(), n) };
        let get = || unsafe { std::slice::from_raw_parts(region.as_ptr(), n) }.to_vec();
        let offs: Vec<usize> = if size <= 32 { (0..=n + 1).collect() } else { vec![0, 1, 4090, 4095, 4096, 4097, n - 1, n, n + 1] };
        let offs: Vec<usize> = if size > 100_000 { vec![0, 1, 65535, 65536, n - 1, n, n + 1] } else { offs };
        for &off in offs.iter().chain(EXT.iter()) {
            for &cnt in [0usize, 1, 2, 3, 8, 9, n.saturating_sub(off), n.saturating_sub(off) + 1].iter().chain(EXT.iter()) {
                t += 1;
                set(&state);
                let ok = off.checked_add(cnt).map_or(false, |e| e <= n);
                match region.get_slice(off, cnt) {
                    Ok(sl) => {
                        if !ok || sl.len() != cnt || sl.ptr_guard().as_ptr() != unsafe { region.as_ptr().add(off) } as *const u8 {
                            ctx.fail("C04/MmapRegion/get_slice/extent", &format!("size {} get_slice({}, {}) granted len {}", size, off, cnt, sl.len()), json!({"size": size, "off": off, "count": cnt}));
                            continue;
                        }
                        // write through it and read back through the whole-region slice
                        let d = wdata(7, if size > 100_000 { cnt.min(n) } else { cnt.min(64) });
                        let w = sl.write(&d, 0);
                        let mut expect = state.clone();
                        let k = d.len().min(cnt);
                        expect[off..off + k].copy_from_slice(&d[..k]);
                        if (cnt > 0 && w.ok() != Some(k)) || get() != expect {
                            ctx.fail("C04/MmapRegion/get_slice.write/memory", &format!("size {} off {} cnt {}", size, off, cnt), json!({"size": size, "off": off, "count": cnt}));
                        }
                    }
                    Err(_) => {
                        if ok {
                            ctx.fail("C04/MmapRegion/get_slice/refused", &format!("size {} get_slice({}, {}) refused", size, off, cnt), json!({"size": size, "off": off, "count": cnt}));
                        }
                    }
                }
            }
        }
        // the Bytes / typed routes through as_volatile_slice() on a reduced alphabet
        let ops: Vec<Op> = if size > 100_000 {
            // transfers of tens of KiB up to the whole container in one call, around 2^16 and 2^17
            let mut v = Vec::new();
            for (off, len) in [(0usize, 65535usize), (0, 65536), (0, 65537), (1, 65536), (3, 131072), (0, 131073), (0, n), (1, n), (70000, 70001), (70001, 70001), (n - 65536, 65536), (n - 65537, 65538)] {
                v.push(Op::Write { off, len, mis: 3 });
                v.push(Op::WriteSlice { off, len, mis: 0 });
                v.push(Op::Read { off, len, mis: 1 });
                v.push(Op::ReadSlice { off, len, mis: 0 });
                v.push(Op::ReadFrom { off, count: len });
                v.push(Op::ReadExactFrom { off, count: len });
                v.push(Op::WriteTo { off, count: len });
                v.push(Op::WriteAllTo { off, count: len });
                v.push(Op::SliceCopyFrom { ty: Ty::U8, off, len, m: len });
                v.push(Op::SliceCopyTo { ty: Ty::U8, off, len, m: len + 1 });
                if off + len <= n {
                    v.push(Op::SliceCopyFrom { ty: Ty::U32, off, len: len / 4 * 4, m: len / 4 });
                    v.push(Op::ArrCopyTo { ty: Ty::U64, off, n: len / 8, m: len / 8 });
                }
            }
            v.push(Op::SliceCopyToVs { off: 0, len: 70000, dst: Dst::Same(70000, 70000) });
            v.push(Op::SliceCopyToVs { off: 3, len: 65537, dst: Dst::Foreign(65537) });
            v
        } else if size <= 32 { alphabet(n, thorough) } else {
            let mut v = reduced_writes(n);
            v.extend(reduced_reads(n));
            for off in [4090usize, 4093, 4095, 4096, 4098] {
                v.push(Op::Write { off, len: 12, mis: 3 });
                v.push(Op::Read { off, len: 12, mis: 1 });
                v.push(Op::WriteObj { ty: Ty::U64, off });
                v.push(Op::ReadObj { ty: Ty::U128, off });
                v.push(Op::RefStore { ty: Ty::U32, off });
                v.push(Op::ArrCopyFrom { ty: Ty::U16, off, n: 4, m: 5 });
                v.push(Op::ReadFrom { off, count: 20 });
                v.push(Op::WriteAllTo { off, count: 3 });
                v.push(Op::AtomStore { w: 2, off });
            }
            v
        };
        for (k, op) in ops.iter().enumerate() {
            t += 1;
            set(&state);
            let tag = (k % 97) as u8 + 1;
            let exp = model_op(&state, region.as_ptr() as usize, op, tag);
            let vs = region.as_volatile_slice();
            let describe = || (format!("C04/MmapRegion/{}", op.name()), format!("size {} {:?}", size, op), json!({"size": size, "op": op.to_json()}));
            let r = match crate::crash::guarded(ctx, &describe, || run_op(&vs, op, tag)) {
                Some(r) => r,
                None => continue,
            };
            let after = get();
            let ok = exp.out.contains(&r.out) && exp.mem.iter().any(|m| *m == after) && r.canary_ok
                && (exp.buf.is_none() || matches!(r.out, Out::Err | Out::Refused | Out::Partial(..)) || exp.buf.as_ref() == Some(&r.buf));
            if !ok {
                let key = format!("C04/MmapRegion/{}", op.name());
                ctx.fail(&key, &format!("size {} {:?}: returned {:?} expected {:?}", size, op, r.out, exp.out), json!({"size": size, "op": op.to_json()}));
            }
        }
        ctx.add_transitions(t);
        ctx.add_traces(t);
        ctx.add_states(1);
    }
}
