//! C06 — aligned 1/2/4/8-byte guest accesses are never torn (trace enumeration + E3).

use crate::explore::{explore_seq, Explorer};
use crate::report::{Ctx, Tier};
use crate::sched::{multinomial, run_threads, ThreadBody};
use serde_json::{json, Value};
use std::cell::RefCell;
use std::collections::BTreeSet;
use std::io::Cursor;
use std::rc::Rc;
use std::sync::atomic::Ordering;
use std::sync::{Arc, Mutex};
use vm_memory::verif_hooks::{self, Event};
use vm_memory::{Bytes, GuestAddress, GuestMemory, GuestMemoryMmap, GuestMemoryRegion, VolatileMemory, VolatileSlice};

thread_local! {
    static CUR: std::cell::RefCell<(String, usize, usize, usize)> = const { std::cell::RefCell::new((String::new(), 0, 0, 0)) };
}

fn set_cur(ep: &str, len: usize, gm: usize, lm: usize) {
    CUR.with(|c| {
        let mut c = c.borrow_mut();
        if c.0 != ep {
            c.0 = ep.to_string();
        }
        c.1 = len;
        c.2 = gm;
        c.3 = lm;
    });
}

fn traced<R>(f: impl FnOnce() -> R) -> (R, Vec<Event>) {
    let log: Rc<RefCell<Vec<Event>>> = Rc::new(RefCell::new(Vec::new()));
    let l2 = log.clone();
    let prev = verif_hooks::set_thread_observer(Some(Rc::new(move |e: &Event| l2.borrow_mut().push(*e))));
    let r = f();
    verif_hooks::set_thread_observer(prev);
    let v = log.borrow().clone();
    (r, v)
}

#[derive(Clone, Copy, Debug, PartialEq)]
enum Dir {
    ToGuest,
    FromGuest,
}

/// Judges the primitive accesses of one transfer of `len` bytes at guest address `g` (host
/// pointer) with the local buffer at `l`. `guest` = [start, end) of all guest memory.
fn judge(events: &[Event], dir: Dir, g: usize, l: usize, len: usize, guest: (usize, usize)) -> Result<(), (String, String)> {
    let in_guest = |a: usize| a >= guest.0 && a < guest.1;
    let mut accesses: Vec<(usize, usize)> = Vec::new();
    for e in events {
        match *e {
            Event::VolatileWrite { addr, size } if in_guest(addr) => {
                if dir == Dir::FromGuest {
                    return Err(("guest-written-by-a-read".into(), format!("write of {} bytes at guest+{:#x}", size, addr - guest.0)));
                }
                accesses.push((addr, size));
            }
            Event::VolatileRead { addr, size } if in_guest(addr) => {
                if dir == Dir::ToGuest {
                    return Err(("guest-read-by-a-write".into(), format!("read of {} bytes at guest+{:#x}", size, addr - guest.0)));
                }
                accesses.push((addr, size));
            }
            _ => {}
        }
    }
    let desc = || format!("accesses (guest offset, width): {:?}", accesses.iter().map(|(a, s)| (a - guest.0, *s)).collect::<Vec<_>>());
    if len == 0 {
        return if accesses.is_empty() { Ok(()) } else { Err(("access-for-empty-transfer".into(), desc())) };
    }
    if accesses.is_empty() {
        return Err(("no-volatile-access-recorded".into(), format!("{} byte(s) were moved but no primitive volatile access to guest memory was recorded (the transfer left the volatile path)", len)));
    }
    // every byte of the range exactly once, nothing outside, every access naturally aligned
    let mut seen: BTreeSet<usize> = BTreeSet::new();
    for (a, s) in &accesses {
        if a % s != 0 {
            return Err(("misaligned-access".into(), desc()));
        }
        for b in *a..*a + *s {
            if b < g || b >= g + len {
                return Err(("access-outside-the-range".into(), desc()));
            }
            if !seen.insert(b) {
                return Err(("byte-accessed-twice".into(), desc()));
            }
        }
    }
    if seen.len() != len {
        return Err(("byte-not-accessed".into(), desc()));
    }
    if matches!(len, 1 | 2 | 4 | 8) && g % len == 0 && l % len == 0 && (accesses.len() != 1 || accesses[0] != (g, len)) {
        return Err(("aligned-access-split".into(), format!("an aligned {}-byte transfer must be one access of width {}; {}", len, len, desc())));
    }
    Ok(())
}

struct Bufs {
    guest: Vec<u8>,
    gbase: usize, // index of an 8-aligned position inside `guest`
    local: Vec<u8>,
    lbase: usize,
}

impl Bufs {
    fn new() -> Bufs {
        let guest = vec![0u8; 128];
        let local = vec![0u8; 128];
        let gbase = (8 - guest.as_ptr() as usize % 8) % 8 + 16;
        let lbase = (8 - local.as_ptr() as usize % 8) % 8 + 16;
        Bufs { guest, gbase, local, lbase }
    }
}

fn slice_classes(ctx: &Ctx) {
    let mut b = Bufs::new();
    let gptr = b.guest.as_mut_ptr();
    let glen = b.guest.len();
    let guest_range = (gptr as usize, gptr as usize + glen);
    for len in 0..=8usize {
        for gm in 0..8usize {
            for lm in 0..8usize {
                let goff = b.gbase + gm;
                let loff = b.lbase + lm;
                let entry_points: [&str; 18] = [
                    // (the local buffer is 3 elements longer than the guest slice: the copy is clamped)
                    "copy_from<u8>(longer buffer)", "copy_to<u8>(longer buffer)", "array.copy_from<u8>(longer buffer)", "array.copy_to<u8>(longer buffer)",
                    "write", "read", "write_slice", "read_slice", "copy_from<u8>", "copy_to<u8>", "array.copy_from<u8>", "array.copy_to<u8>", "read_volatile_from(&[u8])", "write_volatile_to(&mut [u8])",
                    "write_volatile_to(Vec)", "read_volatile_from(Cursor)", "read_exact_volatile_from(&[u8])", "write_all_volatile_to(&mut [u8])",
                ];
                for ep in entry_points {
                    set_cur(ep, len, gm, lm);
                    // fresh contents
                    for (i, x) in b.guest.iter_mut().enumerate() {
                        *x = 0x10 + i as u8;
                    }
                    for (i, x) in b.local.iter_mut().enumerate() {
                        *x = 0x90u8.wrapping_add(i as u8);
                    }
                    let gcopy = b.guest.clone();
                    let lcopy = b.local.clone();
                    // SAFETY: guest outlives vs
                    let vs = unsafe { VolatileSlice::new(gptr, glen) };
                    let (lo, hi) = (loff, loff + len);
                    let mut vec_sink: Vec<u8> = Vec::new();
                    let local = &mut b.local;
                    let (dir, res): (Dir, (Result<(), String>, Vec<Event>)) = match ep {
                        "write" => (Dir::ToGuest, traced(|| vs.write(&local[lo..hi], goff).map(|_| ()).map_err(|e| format!("{:?}", e)))),
                        "read" => (Dir::FromGuest, traced(|| vs.read(&mut local[lo..hi], goff).map(|_| ()).map_err(|e| format!("{:?}", e)))),
                        "write_slice" => (Dir::ToGuest, traced(|| vs.write_slice(&local[lo..hi], goff).map_err(|e| format!("{:?}", e)))),
                        "read_slice" => (Dir::FromGuest, traced(|| vs.read_slice(&mut local[lo..hi], goff).map_err(|e| format!("{:?}", e)))),
                        "copy_from<u8>" => (Dir::ToGuest, traced(|| {
                            vs.subslice(goff, len).unwrap().copy_from(&local[lo..hi]);
                            Ok(())
                        })),
                        "copy_to<u8>" => (Dir::FromGuest, traced(|| {
                            vs.subslice(goff, len).unwrap().copy_to(&mut local[lo..hi]);
                            Ok(())
                        })),
                        "copy_from<u8>(longer buffer)" => (Dir::ToGuest, traced(|| {
                            vs.subslice(goff, len).unwrap().copy_from(&local[lo..hi + 3]);
                            Ok(())
                        })),
                        "copy_to<u8>(longer buffer)" => (Dir::FromGuest, traced(|| {
                            vs.subslice(goff, len).unwrap().copy_to(&mut local[lo..hi + 3]);
                            Ok(())
                        })),
                        "array.copy_from<u8>(longer buffer)" => (Dir::ToGuest, traced(|| {
                            vs.get_array_ref::<u8>(goff, len).unwrap().copy_from(&local[lo..hi + 3]);
                            Ok(())
                        })),
                        "array.copy_to<u8>(longer buffer)" => (Dir::FromGuest, traced(|| {
                            vs.get_array_ref::<u8>(goff, len).unwrap().copy_to(&mut local[lo..hi + 3]);
                            Ok(())
                        })),
                        "array.copy_from<u8>" => (Dir::ToGuest, traced(|| {
                            vs.get_array_ref::<u8>(goff, len).unwrap().copy_from(&local[lo..hi]);
                            Ok(())
                        })),
                        "array.copy_to<u8>" => (Dir::FromGuest, traced(|| {
                            vs.get_array_ref::<u8>(goff, len).unwrap().copy_to(&mut local[lo..hi]);
                            Ok(())
                        })),
                        "read_volatile_from(&[u8])" => (Dir::ToGuest, traced(|| {
                            let mut src: &[u8] = &local[lo..hi];
                            vs.read_volatile_from(goff, &mut src, len).map(|_| ()).map_err(|e| format!("{:?}", e))
                        })),
                        "read_exact_volatile_from(&[u8])" => (Dir::ToGuest, traced(|| {
                            let mut src: &[u8] = &local[lo..hi];
                            vs.read_exact_volatile_from(goff, &mut src, len).map_err(|e| format!("{:?}", e))
                        })),
                        "read_volatile_from(Cursor)" => (Dir::ToGuest, traced(|| {
                            let mut src = Cursor::new(&local[lo..hi]);
                            vs.read_volatile_from(goff, &mut src, len).map(|_| ()).map_err(|e| format!("{:?}", e))
                        })),
                        "write_volatile_to(&mut [u8])" => (Dir::FromGuest, traced(|| {
                            let mut dst: &mut [u8] = &mut local[lo..hi];
                            vs.write_volatile_to(goff, &mut dst, len).map(|_| ()).map_err(|e| format!("{:?}", e))
                        })),
                        "write_all_volatile_to(&mut [u8])" => (Dir::FromGuest, traced(|| {
                            let mut dst: &mut [u8] = &mut local[lo..hi];
                            vs.write_all_volatile_to(goff, &mut dst, len).map_err(|e| format!("{:?}", e))
                        })),
                        _ => (Dir::FromGuest, traced(|| {
                            // a Vec sink allocates its own storage: its alignment is whatever the
                            // allocator returns, the class is judged with the actual address below
                            vec_sink.reserve(16);
                            vs.write_volatile_to(goff, &mut vec_sink, len).map(|_| ()).map_err(|e| format!("{:?}", e))
                        })),
                    };
                    ctx.case(len > 0);
                    let (r, events) = res;
                    let l_addr = if ep == "write_volatile_to(Vec)" { vec_sink.as_ptr() as usize } else { b.local.as_ptr() as usize + loff };
                    let g_addr = gptr as usize + goff;
                    let mut bad: Option<(String, String)> = None;
                    if let Err(e) = r {
                        bad = Some(("unexpected-error".into(), e));
                    } else if let Err(e) = judge(&events, dir, g_addr, l_addr, len, guest_range) {
                        bad = Some(e);
                    } else {
                        // the data arrived and nothing else changed
                        let ok = match dir {
                            Dir::ToGuest => b.guest[goff..goff + len] == lcopy[loff..loff + len] && b.guest[..goff] == gcopy[..goff] && b.guest[goff + len..] == gcopy[goff + len..],
                            Dir::FromGuest => {
                                if ep == "write_volatile_to(Vec)" {
                                    vec_sink[..] == gcopy[goff..goff + len]
                                } else {
                                    b.local[loff..loff + len] == gcopy[goff..goff + len] && b.local[..loff] == lcopy[..loff] && b.local[loff + len..] == lcopy[loff + len..]
                                }
                            }
                        };
                        if !ok {
                            bad = Some(("data".into(), "the bytes did not arrive unchanged".into()));
                        }
                    }
                    if let Some((k, d)) = bad {
                        let key = format!("C06/slice/{}/{}", ep, k);
                        let rp = if ctx.has_failed(&key) { Value::Null } else { json!({"entry_point": ep, "len": len, "guest_addr_mod_8": gm, "local_addr_mod_8": l_addr % 8}) };
                        ctx.fail(&key, &format!("len {} guest%8={} local%8={}: {}", len, gm, l_addr % 8, d), rp);
                    }
                }
            }
        }
    }
}

/// The local buffer directly before or directly after the guest bytes in the same allocation
/// (the two ranges touch but do not overlap): every length 1..=8 x guest address mod 8 x the
/// buffer-level entry points.
fn adjacent_classes(ctx: &Ctx) {
    let mut store = vec![0u8; 160];
    let base = (8 - store.as_ptr() as usize % 8) % 8 + 64;
    let sp = store.as_mut_ptr();
    let range = (sp as usize, sp as usize + 160);
    for len in 1..=8usize {
        for gm in 0..8usize {
            for before in [true, false] {
                for ep in ["write", "read", "write_slice", "read_slice", "copy_from<u8>", "copy_to<u8>", "read_volatile_from(&[u8])", "write_volatile_to(&mut [u8])", "write_all_volatile_to(&mut [u8])"] {
                    let goff = base + gm;
                    let loff = if before { goff - len } else { goff + len };
                    set_cur(ep, len, gm, loff % 8);
                    // SAFETY: store is 160 bytes; the slices below are disjoint ranges of it
                    unsafe {
                        for i in 0..160 {
                            *sp.add(i) = 0x10 + i as u8;
                        }
                    }
                    let before_copy = store.clone();
                    // SAFETY: [goff, goff+len) and [loff, loff+len) are disjoint and inside store
                    let vs = unsafe { VolatileSlice::new(sp.add(goff), len) };
                    let local: &mut [u8] = unsafe { std::slice::from_raw_parts_mut(sp.add(loff), len) };
                    let (dir, (r, events)): (Dir, (Result<(), String>, Vec<Event>)) = match ep {
                        "write" => (Dir::ToGuest, traced(|| vs.write(local, 0).map(|_| ()).map_err(|e| format!("{:?}", e)))),
                        "read" => (Dir::FromGuest, traced(|| vs.read(local, 0).map(|_| ()).map_err(|e| format!("{:?}", e)))),
                        "write_slice" => (Dir::ToGuest, traced(|| vs.write_slice(local, 0).map_err(|e| format!("{:?}", e)))),
                        "read_slice" => (Dir::FromGuest, traced(|| vs.read_slice(local, 0).map_err(|e| format!("{:?}", e)))),
                        "copy_from<u8>" => (Dir::ToGuest, traced(|| {
                            vs.copy_from(&*local);
                            Ok(())
                        })),
                        "copy_to<u8>" => (Dir::FromGuest, traced(|| {
                            vs.copy_to(local);
                            Ok(())
                        })),
                        "read_volatile_from(&[u8])" => (Dir::ToGuest, traced(|| {
                            let mut src: &[u8] = &*local;
                            vs.read_volatile_from(0, &mut src, len).map(|_| ()).map_err(|e| format!("{:?}", e))
                        })),
                        "write_volatile_to(&mut [u8])" => (Dir::FromGuest, traced(|| {
                            let mut dst: &mut [u8] = &mut *local;
                            vs.write_volatile_to(0, &mut dst, len).map(|_| ()).map_err(|e| format!("{:?}", e))
                        })),
                        _ => (Dir::FromGuest, traced(|| {
                            let mut dst: &mut [u8] = &mut *local;
                            vs.write_all_volatile_to(0, &mut dst, len).map_err(|e| format!("{:?}", e))
                        })),
                    };
                    ctx.case(true);
                    let g_addr = sp as usize + goff;
                    let l_addr = sp as usize + loff;
                    let mut bad: Option<(String, String)> = None;
                    // only accesses to the guest bytes are judged: the guest range is [g, g+len)
                    let guest_only = (g_addr, g_addr + len);
                    let _ = range;
                    if let Err(e) = r {
                        bad = Some(("unexpected-error".into(), e));
                    } else if let Err(e) = judge(&events, dir, g_addr, l_addr, len, guest_only) {
                        bad = Some(e);
                    } else {
                        let mut want = before_copy.clone();
                        match dir {
                            Dir::ToGuest => want[goff..goff + len].copy_from_slice(&before_copy[loff..loff + len]),
                            Dir::FromGuest => want[loff..loff + len].copy_from_slice(&before_copy[goff..goff + len]),
                        }
                        if store != want {
                            bad = Some(("data".into(), "the bytes did not arrive unchanged, or other bytes changed".into()));
                        }
                    }
                    if let Some((k, d)) = bad {
                        let key = format!("C06/slice/{} (local buffer adjacent to the guest bytes)/{}", ep, k);
                        let rp = if ctx.has_failed(&key) { Value::Null } else { json!({"entry_point": ep, "len": len, "guest_addr_mod_8": gm, "local_buffer": if before { "ends where the guest bytes start" } else { "starts where the guest bytes end" }}) };
                        ctx.fail(&key, &format!("len {} guest%8={} local buffer {}: {}", len, gm, if before { "directly before" } else { "directly after" }, d), rp);
                    }
                }
            }
        }
    }
}

/// Vec<u8> sinks in every fill state: capacity 0..=24 x bytes already in the vector 0..=capacity
/// (the append position decides the local alignment; spare capacity smaller than, equal to and
/// larger than the transfer) x transfer length 1..=8 x guest address mod 8, exact and plain form.
fn vec_sinks(ctx: &Ctx) {
    let mut b = Bufs::new();
    let gptr = b.guest.as_mut_ptr();
    let glen = b.guest.len();
    let guest_range = (gptr as usize, gptr as usize + glen);
    for (i, x) in b.guest.iter_mut().enumerate() {
        *x = 0x10 + i as u8;
    }
    let gcopy = b.guest.clone();
    // SAFETY: guest outlives vs
    let vs = unsafe { VolatileSlice::new(gptr, glen) };
    for cap in 0..=24usize {
        for fill in 0..=cap.min(17) {
            for len in 1..=8usize {
                for gm in 0..8usize {
                    for exact in [true, false] {
                        let ep = if exact { "write_all_volatile_to(Vec with spare capacity)" } else { "write_volatile_to(Vec with spare capacity)" };
                        set_cur(ep, len, gm, fill % 8);
                        let goff = b.gbase + gm;
                        let mut sink: Vec<u8> = Vec::with_capacity(cap);
                        sink.extend(std::iter::repeat(0xee).take(fill));
                        let (r, events) = traced(|| {
                            if exact {
                                vs.write_all_volatile_to(goff, &mut sink, len).map(|_| len).map_err(|e| format!("{:?}", e))
                            } else {
                                vs.write_volatile_to(goff, &mut sink, len).map_err(|e| format!("{:?}", e))
                            }
                        });
                        ctx.case(true);
                        let l_addr = sink.as_ptr() as usize + fill;
                        let g_addr = gptr as usize + goff;
                        let mut bad: Option<(String, String)> = None;
                        match r {
                            Err(e) => bad = Some(("unexpected-error".into(), e)),
                            Ok(n) if n > len => bad = Some(("count".into(), format!("reported {} of {} bytes", n, len))),
                            Ok(n) => {
                                // a plain write may be short; what it reports is what is judged
                                if let Err(e) = judge(&events, Dir::FromGuest, g_addr, l_addr, n, guest_range) {
                                    bad = Some(e);
                                } else if sink.len() != fill + n || sink[fill..] != gcopy[goff..goff + n] || sink[..fill].iter().any(|x| *x != 0xee) {
                                    bad = Some(("data".into(), format!("the vector holds {} bytes after appending {} to {}", sink.len(), n, fill)));
                                } else if exact && n != len {
                                    bad = Some(("count".into(), "exact form returned short".into()));
                                }
                            }
                        }
                        if let Some((k, d)) = bad {
                            let key = format!("C06/slice/{}/{}", ep, k);
                            let rp = if ctx.has_failed(&key) { Value::Null } else { json!({"entry_point": ep, "len": len, "guest_addr_mod_8": gm, "capacity": cap, "already_in_vector": fill}) };
                            ctx.fail(&key, &format!("len {} guest%8={} capacity {} filled {}: {}", len, gm, cap, fill, d), rp);
                        }
                    }
                }
            }
        }
    }
}

const PLACED_EPS: [&str; 10] = ["write", "read", "write_slice", "read_slice", "copy_from<u8>", "copy_to<u8>", "read_volatile_from(&[u8])", "write_volatile_to(&mut [u8])", "write_obj", "read_obj"];

/// One transfer of `len` bytes between guest bytes at `gptr` and a local buffer at `lptr` (both
/// with 32 accessible bytes) through entry point `ep`, judged by the access rule and the data.
/// The guest bytes are reached at offset `goff` of a slice that starts `goff` bytes earlier.
fn placed_transfer(ctx: &Ctx, ep: &str, gptr: *mut u8, lptr: *mut u8, len: usize, goff: usize) -> Option<(String, String)> {
    set_cur(ep, len, 0, 0);
    if ep.ends_with("_obj") && !matches!(len, 1 | 2 | 4 | 8) {
        return None;
    }
    // SAFETY: both buffers are at least 64 bytes and disjoint
    unsafe {
        for i in 0..32 {
            *gptr.add(i) = 0x10 + i as u8;
            *lptr.add(i) = 0x90 + i as u8;
        }
    }
    let vs = unsafe { VolatileSlice::new(gptr.sub(goff), goff + 32) };
    let local: &mut [u8] = unsafe { std::slice::from_raw_parts_mut(lptr, len) };
    let before_l: Vec<u8> = unsafe { std::slice::from_raw_parts(lptr, 32).to_vec() };
    let before_g: Vec<u8> = unsafe { std::slice::from_raw_parts(gptr, 32).to_vec() };
    let (dir, (r, events)): (Dir, (Result<(), String>, Vec<Event>)) = match ep {
        "write" => (Dir::ToGuest, traced(|| vs.write(local, goff).map(|_| ()).map_err(|e| format!("{:?}", e)))),
        "read" => (Dir::FromGuest, traced(|| vs.read(local, goff).map(|_| ()).map_err(|e| format!("{:?}", e)))),
        "write_slice" => (Dir::ToGuest, traced(|| vs.write_slice(local, goff).map_err(|e| format!("{:?}", e)))),
        "read_slice" => (Dir::FromGuest, traced(|| vs.read_slice(local, goff).map_err(|e| format!("{:?}", e)))),
        "copy_from<u8>" => (Dir::ToGuest, traced(|| {
            vs.subslice(goff, len).unwrap().copy_from(&*local);
            Ok(())
        })),
        "copy_to<u8>" => (Dir::FromGuest, traced(|| {
            vs.subslice(goff, len).unwrap().copy_to(local);
            Ok(())
        })),
        "read_volatile_from(&[u8])" => (Dir::ToGuest, traced(|| {
            let mut src: &[u8] = &*local;
            vs.read_volatile_from(goff, &mut src, len).map(|_| ()).map_err(|e| format!("{:?}", e))
        })),
        "write_volatile_to(&mut [u8])" => (Dir::FromGuest, traced(|| {
            let mut dst: &mut [u8] = &mut *local;
            vs.write_volatile_to(goff, &mut dst, len).map(|_| ()).map_err(|e| format!("{:?}", e))
        })),
        "write_obj" => (Dir::ToGuest, traced(|| {
            match len {
                1 => vs.write_obj(0x90u8, goff),
                2 => vs.write_obj(0x9190u16, goff),
                4 => vs.write_obj(0x9392_9190u32, goff),
                _ => vs.write_obj(0x9796_9594_9392_9190u64, goff),
            }
            .map_err(|e| format!("{:?}", e))
        })),
        _ => (Dir::FromGuest, traced(|| {
            match len {
                1 => vs.read_obj::<u8>(goff).map(|v| local.copy_from_slice(&v.to_ne_bytes())),
                2 => vs.read_obj::<u16>(goff).map(|v| local.copy_from_slice(&v.to_ne_bytes())),
                4 => vs.read_obj::<u32>(goff).map(|v| local.copy_from_slice(&v.to_ne_bytes())),
                _ => vs.read_obj::<u64>(goff).map(|v| local.copy_from_slice(&v.to_ne_bytes())),
            }
            .map_err(|e| format!("{:?}", e))
        })),
    };
    ctx.case(true);
    // whole objects live in the callee: naturally aligned, address not observable
    let l_addr = if ep.ends_with("_obj") { 0 } else { lptr as usize };
    let mut bad: Option<(String, String)> = None;
    if let Err(e) = r {
        bad = Some(("unexpected-error".into(), e));
    } else if len > 8 {
        // bulk path: only the data is judged
    } else if let Err(e) = judge(&events, dir, gptr as usize, l_addr, len, (gptr as usize, gptr as usize + 32)) {
        bad = Some(e);
    }
    if bad.is_none() {
        let now_l: Vec<u8> = unsafe { std::slice::from_raw_parts(lptr, 32).to_vec() };
        let now_g: Vec<u8> = unsafe { std::slice::from_raw_parts(gptr, 32).to_vec() };
        let ok = match dir {
            Dir::ToGuest => (ep == "write_obj" || now_g[..len] == before_l[..len]) && now_g[len..] == before_g[len..] && now_l == before_l && (ep != "write_obj" || now_g[..len] == before_l[..len]),
            Dir::FromGuest => now_l[..len] == before_g[..len] && now_l[len..] == before_l[len..] && now_g == before_g,
        };
        if !ok {
            bad = Some(("data".into(), "the bytes did not arrive unchanged, or other bytes changed".into()));
        }
    }
    bad
}

/// Every naturally aligned position of a 4 KiB page (and the positions around the boundary to
/// the next page), for the guest bytes and in turn for the local buffer: an access width chosen
/// from the distance to the end of a page, of a cache line or of any other block meets its
/// boundary cases here and nowhere in the small buffers of the class enumeration.
fn page_positions(ctx: &Ctx) {
    let arena = crate::arena::Arena::new(3);
    let mut other = vec![0u64; 8];
    let lo = other.as_mut_ptr() as *mut u8;
    let base = arena.ptr();
    let mut n = 0u64;
    for len in [2usize, 4, 8, 1] {
        let mut pos = 0usize;
        while pos + 32 <= 2 * 4096 + 64 {
            for placed_is_guest in [true, false] {
                // SAFETY: pos + 32 stays inside the three accessible pages
                let at = unsafe { base.add(pos) };
                let (gptr, lptr) = if placed_is_guest { (at, lo) } else { (lo, at) };
                // the guest bytes are also reached through slices that start 1, 2, 4 or 6 bytes
                // into the area (and, for positions beyond the first page, more than 4 KiB
                // earlier): the offset within the slice and the host address then disagree
                // about where pages, words and lines begin
                let starts: &[usize] = if placed_is_guest { &[usize::MAX, 4, 2, 6, 1] } else { &[usize::MAX] };
                for &b in starts {
                    let goff = if b == usize::MAX { 0 } else if pos >= b { pos - b } else { continue };
                    for ep in PLACED_EPS {
                        n += 1;
                        if let Some((k, d)) = placed_transfer(ctx, ep, gptr, lptr, len, goff) {
                            let key = format!("C06/slice/{} (position within a page)/{}", ep, k);
                            let rp = if ctx.has_failed(&key) { Value::Null } else { json!({"entry_point": ep, "len": len, "page_offset": format!("{:#x}", pos % 4096), "offset_in_slice": goff, "placed_side": if placed_is_guest { "guest" } else { "local buffer" }}) };
                            ctx.fail(&key, &format!("len {}, {} at page offset {:#x} (offset {:#x} of its slice): {}", len, if placed_is_guest { "guest bytes" } else { "local buffer" }, pos % 4096, goff, d), rp);
                        }
                    }
                }
            }
            // every aligned slot of the first page, then only the slots around the next boundary
            pos += if pos < 4096 + 64 { len.max(if len == 1 { 61 } else { 1 }) } else { 8 * len };
        }
    }
    drop(other);
    ctx.extra("page_position_transfers", json!(n));
}

/// Guest memory whose regions start at guest addresses that are not multiples of 8 (the host
/// mapping is page aligned all the same): where an object lies in the guest - in particular
/// whether it crosses a guest page boundary - has no say in how it is accessed; an object whose
/// HOST address is aligned and that lies inside one region is moved with one access by every
/// guest-memory level entry point.
fn off_grid_guest_bases(ctx: &Ctx) {
    let mut n = 0u64;
    for base in [0x1004u64, 0x1002, 0x1001, 0x1006, 0x2ffc, 0x7_0000_0ff8 + 4] {
        let m = match GuestMemoryMmap::<()>::from_ranges(&[(GuestAddress(base), 3 * 4096)]) {
            Ok(m) => m,
            Err(e) => {
                ctx.machinery(&format!("cannot build guest memory at {:#x}: {:?}", base, e));
                continue;
            }
        };
        let host = m.iter().next().unwrap().as_ptr() as usize;
        let range = (host, host + 3 * 4096);
        for width in [2usize, 4, 8] {
            // region offsets around every place where the guest address crosses a 4 KiB boundary,
            // and around the host page boundaries
            let mut offs: BTreeSet<usize> = BTreeSet::new();
            for k in 0..3u64 {
                let guest_boundary = ((base >> 12) + 1 + k) << 12;
                let ro = (guest_boundary - base) as usize;
                for d in -16i64..=16 {
                    let o = ro as i64 + d;
                    if o >= 0 && (o as usize) + width <= 3 * 4096 && (o as usize) % width == 0 {
                        offs.insert(o as usize);
                    }
                }
                for d in -16i64..=16 {
                    let o = (k as i64 + 1) * 4096 + d;
                    if o >= 0 && (o as usize) + width <= 3 * 4096 && (o as usize) % width == 0 {
                        offs.insert(o as usize);
                    }
                }
            }
            for off in offs {
                let ga = GuestAddress(base + off as u64);
                let g = host + off;
                for ep in ["write_obj", "read_obj", "write_slice", "read_slice", "write", "read"] {
                    n += 1;
                    ctx.case(true);
                    set_cur(ep, width, (g % 8) as usize, 0);
                    let mut local = [0u64; 2];
                    let lb: &mut [u8] = unsafe { std::slice::from_raw_parts_mut(local.as_mut_ptr() as *mut u8, width) };
                    for (i, b) in lb.iter_mut().enumerate() {
                        *b = 0x90 + i as u8;
                    }
                    let (dir, (r, events)): (Dir, (Result<(), String>, Vec<Event>)) = match ep {
                        "write_obj" => (Dir::ToGuest, traced(|| {
                            match width {
                                2 => m.write_obj(0x9190u16, ga),
                                4 => m.write_obj(0x9392_9190u32, ga),
                                _ => m.write_obj(0x9796_9594_9392_9190u64, ga),
                            }
                            .map_err(|e| format!("{:?}", e))
                        })),
                        "read_obj" => (Dir::FromGuest, traced(|| {
                            match width {
                                2 => m.read_obj::<u16>(ga).map(|_| ()),
                                4 => m.read_obj::<u32>(ga).map(|_| ()),
                                _ => m.read_obj::<u64>(ga).map(|_| ()),
                            }
                            .map_err(|e| format!("{:?}", e))
                        })),
                        "write_slice" => (Dir::ToGuest, traced(|| m.write_slice(lb, ga).map_err(|e| format!("{:?}", e)))),
                        "read_slice" => (Dir::FromGuest, traced(|| m.read_slice(lb, ga).map_err(|e| format!("{:?}", e)))),
                        "write" => (Dir::ToGuest, traced(|| m.write(lb, ga).map(|_| ()).map_err(|e| format!("{:?}", e)))),
                        _ => (Dir::FromGuest, traced(|| m.read(lb, ga).map(|_| ()).map_err(|e| format!("{:?}", e)))),
                    };
                    let bad = match r {
                        Err(e) => Some(("unexpected-error".to_string(), e)),
                        Ok(()) => judge(&events, dir, g, 0, width, range).err(),
                    };
                    if let Some((k, d)) = bad {
                        let key = format!("C06/guest-memory/{} (region at a guest address off the word grid)/{}", ep, k);
                        let rp = if ctx.has_failed(&key) { Value::Null } else { json!({"entry_point": ep, "width": width, "region_base": format!("{:#x}", base), "guest_address": format!("{:#x}", ga.0), "region_offset": off}) };
                        ctx.fail(&key, &format!("{} bytes at guest {:#x} (region at {:#x}, offset {:#x}, host address aligned): {}", width, ga.0, base, off, d), rp);
                    }
                }
            }
        }
    }
    ctx.extra("off_grid_guest_base_transfers", json!(n));
}

/// Host addresses of every power-of-two alignment the address space offers: the guest bytes (and,
/// in turn, the local buffer) sit at an address with exactly 4..=46 trailing zero bits, obtained
/// with mmap(MAP_FIXED_NOREPLACE) at k << tz. Address arithmetic on the alignment (lowest set
/// bit, shifts by the number of trailing zeros) meets values beyond 32 bits only there.
fn high_alignment_classes(ctx: &Ctx) {
    let mut mapped = 0u64;
    let mut skipped: Vec<u32> = Vec::new();
    for tz in 4..=46u32 {
        // an address with exactly `tz` trailing zeros that can be mapped
        let mut base: Option<usize> = None;
        for k in [1usize, 3, 5, 7, 9, 11, 13, 15, 17, 19] {
            let want = match k.checked_shl(tz) {
                Some(a) if a >> tz == k => (if tz < 28 { (k << 30) | a } else { a }),
                _ => continue,
            };
            if want < (1 << 16) || want >= (1usize << 47) - (1 << 20) || want.trailing_zeros() != tz {
                continue;
            }
            let page = want & !4095;
            // SAFETY: a fresh anonymous mapping that replaces nothing
            let p = unsafe { libc::mmap(page as *mut libc::c_void, 8192, libc::PROT_READ | libc::PROT_WRITE, libc::MAP_PRIVATE | libc::MAP_ANONYMOUS | libc::MAP_FIXED_NOREPLACE, -1, 0) };
            if p != libc::MAP_FAILED && p as usize == page {
                base = Some(want);
                break;
            } else if p != libc::MAP_FAILED {
                unsafe { libc::munmap(p, 8192) };
            }
        }
        let Some(addr) = base else {
            skipped.push(tz);
            continue;
        };
        mapped += 1;
        let page = addr & !4095;
        let hi = addr as *mut u8; // the highly aligned address
        let mut other = vec![0u64; 8];
        let lo = other.as_mut_ptr() as *mut u8; // an ordinary 8-aligned buffer
        for guest_is_high in [true, false] {
            let (gptr, lptr) = if guest_is_high { (hi, lo) } else { (lo, hi) };
            for len in [1usize, 2, 4, 8, 3, 16] {
                for ep in PLACED_EPS {
                    if let Some((k, d)) = placed_transfer(ctx, ep, gptr, lptr, len, 0) {
                        let key = format!("C06/slice/{} (host address aligned to a large power of two)/{}", ep, k);
                        let rp = if ctx.has_failed(&key) { Value::Null } else { json!({"entry_point": ep, "len": len, "trailing_zero_bits": tz, "aligned_side": if guest_is_high { "guest" } else { "local buffer" }, "address": format!("{:#x}", addr)}) };
                        ctx.fail(&key, &format!("len {}, {} at {:#x} ({} trailing zero bits): {}", len, if guest_is_high { "guest bytes" } else { "local buffer" }, addr, tz, d), rp);
                    }
                }
            }
        }
        drop(other);
        unsafe { libc::munmap(page as *mut libc::c_void, 8192) };
    }
    ctx.extra("high_alignment_addresses", json!({"trailing_zero_bits_covered": mapped, "not_mappable": skipped}));
    if mapped < 30 {
        ctx.machinery(&format!("only {} of 43 alignments could be mapped (not mappable: {:?})", mapped, skipped));
    }
}

/// Dirty-tracked memory, and histories on it: the second (and third) access to a location that
/// an earlier access has already dirtied - or whose page has been cleared again - is carried out
/// like the first. Length 1/2/4/8 (and 3) x guest address mod 8 x page size {1, 4, 64, 4096} x
/// eight entry points x three histories (fresh, already dirty, dirtied and cleared).
fn tracked_histories(ctx: &Ctx) {
    use std::num::NonZeroUsize;
    use vm_memory::bitmap::{AtomicBitmap, Bitmap};
    let mut b = Bufs::new();
    let gptr = b.guest.as_mut_ptr();
    let glen = b.guest.len();
    let guest_range = (gptr as usize, gptr as usize + glen);
    for page in [1usize, 4, 64, 4096] {
        let bm = AtomicBitmap::new(glen, NonZeroUsize::new(page).unwrap());
        // SAFETY: guest outlives vs
        let vs = unsafe { VolatileSlice::with_bitmap(gptr, glen, bm.slice_at(0), None) };
        for len in [1usize, 2, 4, 8, 3] {
            for gm in 0..8usize {
                for hist in 0..3usize {
                    for ep in ["write", "write_slice", "write_obj", "read_volatile_from(&[u8])", "copy_from<u8>", "read", "read_obj", "write_volatile_to(&mut [u8])"] {
                        if ep.ends_with("_obj") && len == 3 {
                            continue;
                        }
                        set_cur(ep, len, gm, 0);
                        let goff = b.gbase + gm;
                        let loff = b.lbase;
                        bm.reset();
                        let local = &mut b.local;
                        let mut run = |trace: bool| -> (Dir, Result<(), String>, Vec<Event>) {
                            let (lo, hi) = (loff, loff + len);
                            let (dir, (r, ev)): (Dir, (Result<(), String>, Vec<Event>)) = match ep {
                                "write" => (Dir::ToGuest, traced(|| vs.write(&local[lo..hi], goff).map(|_| ()).map_err(|e| format!("{:?}", e)))),
                                "write_slice" => (Dir::ToGuest, traced(|| vs.write_slice(&local[lo..hi], goff).map_err(|e| format!("{:?}", e)))),
                                "write_obj" => (Dir::ToGuest, traced(|| {
                                    match len {
                                        1 => vs.write_obj(0x5au8, goff),
                                        2 => vs.write_obj(0x5a5bu16, goff),
                                        4 => vs.write_obj(0x5a5b_5c5du32, goff),
                                        _ => vs.write_obj(0x5a5b_5c5d_5e5f_6061u64, goff),
                                    }
                                    .map_err(|e| format!("{:?}", e))
                                })),
                                "read_volatile_from(&[u8])" => (Dir::ToGuest, traced(|| {
                                    let mut src: &[u8] = &local[lo..hi];
                                    vs.read_volatile_from(goff, &mut src, len).map(|_| ()).map_err(|e| format!("{:?}", e))
                                })),
                                "copy_from<u8>" => (Dir::ToGuest, traced(|| {
                                    vs.subslice(goff, len).unwrap().copy_from(&local[lo..hi]);
                                    Ok(())
                                })),
                                "read" => (Dir::FromGuest, traced(|| vs.read(&mut local[lo..hi], goff).map(|_| ()).map_err(|e| format!("{:?}", e)))),
                                "read_obj" => (Dir::FromGuest, traced(|| {
                                    match len {
                                        1 => vs.read_obj::<u8>(goff).map(|_| ()),
                                        2 => vs.read_obj::<u16>(goff).map(|_| ()),
                                        4 => vs.read_obj::<u32>(goff).map(|_| ()),
                                        _ => vs.read_obj::<u64>(goff).map(|_| ()),
                                    }
                                    .map_err(|e| format!("{:?}", e))
                                })),
                                _ => (Dir::FromGuest, traced(|| {
                                    let mut dst: &mut [u8] = &mut local[lo..hi];
                                    vs.write_volatile_to(goff, &mut dst, len).map(|_| ()).map_err(|e| format!("{:?}", e))
                                })),
                            };
                            let _ = trace;
                            (dir, r, ev)
                        };
                        // the history before the judged access
                        if hist >= 1 {
                            let _ = run(false);
                            // the page (and its neighbours) dirty through another route as well
                            let _ = vs.write(&[0x77], goff + len);
                        }
                        if hist == 2 {
                            bm.reset_addr_range(goff, len);
                        }
                        let (dir, r, events) = run(true);
                        ctx.case(true);
                        let g_addr = gptr as usize + goff;
                        let l_addr = if ep.ends_with("_obj") { 0 } else { b.local.as_ptr() as usize + loff };
                        let bad = match r {
                            Err(e) => Some(("unexpected-error".to_string(), e)),
                            Ok(()) => judge(&events, dir, g_addr, l_addr, len, guest_range).err(),
                        };
                        if let Some((k, d)) = bad {
                            let key = format!("C06/slice/{} (dirty-tracked memory, after a history)/{}", ep, k);
                            let rp = if ctx.has_failed(&key) { Value::Null } else { json!({"entry_point": ep, "len": len, "guest_addr_mod_8": gm, "page_size": page, "history": (["none", "the same access before, neighbours written", "the same access before, then the range cleared in the bitmap"][hist])}) };
                            ctx.fail(&key, &format!("len {} guest%8={} page size {} history {}: {}", len, gm, page, hist, d), rp);
                        }
                    }
                }
            }
        }
    }
}

/// Cursor<&mut [u8]> sinks at every position 0..=9 (the bytes already written through the cursor
/// decide where the next byte lands, not how it may be moved): transfer length 1..=8 x guest
/// address mod 8 x destination address mod 8 x position, exact and plain form.
fn cursor_sinks(ctx: &Ctx) {
    let mut b = Bufs::new();
    let gptr = b.guest.as_mut_ptr();
    let glen = b.guest.len();
    let guest_range = (gptr as usize, gptr as usize + glen);
    for (i, x) in b.guest.iter_mut().enumerate() {
        *x = 0x10 + i as u8;
    }
    let gcopy = b.guest.clone();
    // SAFETY: guest outlives vs
    let vs = unsafe { VolatileSlice::new(gptr, glen) };
    for pos in 0..=9usize {
        for len in 1..=8usize {
            for gm in 0..8usize {
                for lm in 0..8usize {
                    for exact in [true, false] {
                        let ep = if exact { "write_all_volatile_to(Cursor<&mut [u8]> at a position)" } else { "write_volatile_to(Cursor<&mut [u8]> at a position)" };
                        set_cur(ep, len, gm, lm);
                        let goff = b.gbase + gm;
                        let dest = b.lbase + 16 + lm; // index in `local` where the bytes must land
                        for x in b.local.iter_mut() {
                            *x = 0xee;
                        }
                        let l_addr = b.local.as_ptr() as usize + dest;
                        let (r, events, position) = {
                            let mut c = Cursor::new(&mut b.local[dest - pos..dest + len + 5]);
                            c.set_position(pos as u64);
                            let (r, ev) = traced(|| {
                                if exact {
                                    vs.write_all_volatile_to(goff, &mut c, len).map(|_| len).map_err(|e| format!("{:?}", e))
                                } else {
                                    vs.write_volatile_to(goff, &mut c, len).map_err(|e| format!("{:?}", e))
                                }
                            });
                            (r, ev, c.position() as usize)
                        };
                        ctx.case(true);
                        let g_addr = gptr as usize + goff;
                        let mut bad: Option<(String, String)> = None;
                        match r {
                            Err(e) => bad = Some(("unexpected-error".into(), e)),
                            Ok(n) if n > len || n == 0 => bad = Some(("count".into(), format!("reported {} of {} bytes", n, len))),
                            Ok(n) => {
                                if exact && n != len {
                                    bad = Some(("count".into(), "exact form returned short".into()));
                                } else if let Err(e) = judge(&events, Dir::FromGuest, g_addr, l_addr, n, guest_range) {
                                    bad = Some(e);
                                } else if b.local[dest..dest + n] != gcopy[goff..goff + n] || b.local[..dest].iter().any(|x| *x != 0xee) || b.local[dest + n..].iter().any(|x| *x != 0xee) || position != pos + n {
                                    bad = Some(("data".into(), format!("the bytes did not arrive unchanged at position {}, or other bytes changed, or the cursor stands at {} instead of {}", pos, position, pos + n)));
                                }
                            }
                        }
                        if let Some((k, d)) = bad {
                            let key = format!("C06/slice/{}/{}", ep, k);
                            let rp = if ctx.has_failed(&key) { Value::Null } else { json!({"entry_point": ep, "len": len, "guest_addr_mod_8": gm, "destination_addr_mod_8": l_addr % 8, "cursor_position": pos}) };
                            ctx.fail(&key, &format!("len {} guest%8={} destination%8={} cursor position {}: {}", len, gm, l_addr % 8, pos, d), rp);
                        }
                    }
                }
            }
        }
    }
}

/// Whole-object reads and writes (the local value is naturally aligned) at slice, region and
/// guest-memory level, including objects that straddle a region boundary.
fn object_classes(ctx: &Ctx) {
    let m = GuestMemoryMmap::<()>::from_ranges(&[(GuestAddress(0x1000), 16), (GuestAddress(0x1010), 16)]).unwrap();
    let regs: Vec<(usize, usize)> = m.iter().map(|r| (r.as_ptr() as usize, r.len() as usize)).collect();
    let host = |ga: u64| -> usize {
        if ga < 0x1010 {
            regs[0].0 + (ga - 0x1000) as usize
        } else {
            regs[1].0 + (ga - 0x1010) as usize
        }
    };
    // guest range for the judge: the two regions are separate mappings; judge per chunk
    fn obj<T: vm_memory::ByteValued + PartialEq + std::fmt::Debug>(ctx: &Ctx, m: &GuestMemoryMmap<()>, regs: &[(usize, usize)], host: &dyn Fn(u64) -> usize, ga: u64, name: &str) {
        let sz = std::mem::size_of::<T>();
        let mut v = T::zeroed();
        for (i, b) in v.as_mut_slice().iter_mut().enumerate() {
            *b = 0xA0 + i as u8;
        }
        let local_addr = &v as *const T as usize;
        for write in [true, false] {
            set_cur(if write { "write_obj" } else { "read_obj" }, sz, (ga % 8) as usize, 0);
            ctx.case(true);
            let (r, events) = if write {
                traced(|| m.write_obj(v, GuestAddress(ga)).map(|_| v))
            } else {
                traced(|| m.read_obj::<T>(GuestAddress(ga)))
            };
            let fits = ga + sz as u64 <= 0x1020;
            if r.is_ok() != fits {
                ctx.fail(&format!("C06/guest-memory/{}_obj/result", if write { "write" } else { "read" }), &format!("{} at {:#x}: {:?}", name, ga, r.is_ok()), json!({"type": name, "addr": ga}));
                continue;
            }
            if !fits {
                continue;
            }
            // per region chunk
            let mut done = 0usize;
            let mut cur = ga;
            while done < sz {
                let chunk = if cur < 0x1010 { ((0x1010 - cur) as usize).min(sz - done) } else { sz - done };
                let g = host(cur);
                let ri = if cur < 0x1010 { 0 } else { 1 };
                let range = (regs[ri].0, regs[ri].0 + regs[ri].1);
                // for reads the local object lives inside read_obj; its address is not observable,
                // but a whole object is naturally aligned: use the same offset within the object
                let l = if write { local_addr + done } else { (8usize.max(std::mem::align_of::<T>())) * 64 + done };
                let evs: Vec<Event> = events
                    .iter()
                    .cloned()
                    .filter(|e| match e {
                        Event::VolatileRead { addr, .. } | Event::VolatileWrite { addr, .. } => *addr >= range.0 && *addr < range.1 && *addr >= g && *addr < g + chunk,
                        _ => false,
                    })
                    .collect();
                // the local object (the callee's own copy) is only known to be T-aligned: the
                // single-access rule is applied when that alone makes this chunk aligned
                let _ = l;
                let l_eff = if std::mem::align_of::<T>() >= chunk.min(8) && done % chunk.max(1) == 0 { 0 } else { 1 };
                // chunks longer than 8 bytes take the bulk path, which the property does not cover
                if chunk > 8 {
                    done += chunk;
                    cur += chunk as u64;
                    continue;
                }
                if let Err((k, d)) = judge(&evs, if write { Dir::ToGuest } else { Dir::FromGuest }, g, l_eff, chunk, range) {
                    let key = format!("C06/guest-memory/{}_obj/{}", if write { "write" } else { "read" }, k);
                    let rp = if ctx.has_failed(&key) { Value::Null } else { json!({"type": name, "addr": format!("{:#x}", ga), "chunk_at": format!("{:#x}", cur), "chunk_len": chunk}) };
                    ctx.fail(&key, &format!("{} at {:#x}, chunk of {} bytes at {:#x}: {}", name, ga, chunk, cur, d), rp);
                }
                done += chunk;
                cur += chunk as u64;
            }
            // no guest access outside the object
            for e in &events {
                if let Event::VolatileRead { addr, size } | Event::VolatileWrite { addr, size } = e {
                    for ri in 0..2 {
                        if *addr >= regs[ri].0 && *addr < regs[ri].0 + regs[ri].1 {
                            let base = if ri == 0 { 0x1000u64 } else { 0x1010 };
                            let a = base + (*addr - regs[ri].0) as u64;
                            if a < ga || a + *size as u64 > ga + sz as u64 {
                                ctx.fail("C06/guest-memory/obj/access-outside-the-object", &format!("{} at {:#x}: access at {:#x}+{}", name, ga, a, size), json!({"type": name, "addr": ga}));
                            }
                        }
                    }
                }
            }
            if let (true, Ok(got)) = (!write, &r) {
                let mut want = T::zeroed();
                let mut tmp = vec![0u8; sz];
                m.read_slice(&mut tmp, GuestAddress(ga)).unwrap();
                want.as_mut_slice().copy_from_slice(&tmp);
                if *got != want {
                    ctx.fail("C06/guest-memory/read_obj/data", &format!("{} at {:#x}", name, ga), json!({"type": name, "addr": ga}));
                }
            }
        }
    }
    #[derive(Clone, Copy, Debug, PartialEq)]
    #[repr(C)]
    struct Pair {
        a: u64,
        b: u32,
        c: u32,
    }
    // SAFETY: plain old data without padding
    unsafe impl vm_memory::ByteValued for Pair {}
    for ga in 0x1000u64..0x1020 {
        obj::<u8>(ctx, &m, &regs, &host, ga, "u8");
        obj::<u16>(ctx, &m, &regs, &host, ga, "u16");
        obj::<u32>(ctx, &m, &regs, &host, ga, "u32");
        obj::<u64>(ctx, &m, &regs, &host, ga, "u64");
        obj::<u128>(ctx, &m, &regs, &host, ga, "u128");
        obj::<[u8; 3]>(ctx, &m, &regs, &host, ga, "[u8;3]");
        obj::<Pair>(ctx, &m, &regs, &host, ga, "struct{u64,u32,u32}");
        obj::<vm_memory::Le32>(ctx, &m, &regs, &host, ga, "Le32");
    }
    // atomic store/load: Ok exactly when aligned, value round-trips
    for off in 0..16u64 {
        macro_rules! at {
            ($t:ty, $v:expr) => {{
                ctx.case(true);
                let a = GuestAddress(0x1000 + off);
                let al = (off as usize) % std::mem::size_of::<$t>() == 0;
                let s = m.store::<$t>($v, a, Ordering::SeqCst);
                let l = m.load::<$t>(a, Ordering::SeqCst);
                let ok = if al { s.is_ok() && l.ok() == Some($v) } else { s.is_err() && l.is_err() };
                if !ok {
                    ctx.fail(&format!("C06/atomic/{}", stringify!($t)), &format!("offset {} aligned={}", off, al), json!({"type": stringify!($t), "offset": off}));
                }
            }};
        }
        at!(u8, 0xa5);
        at!(i8, -3);
        at!(u16, 0xbeef);
        at!(i16, -12345);
        at!(u32, 0xdead_beef);
        at!(i32, -7);
        at!(u64, 0x0123_4567_89ab_cdef);
        at!(i64, -9);
        at!(usize, usize::MAX - 5);
        at!(isize, -11);
    }
}

// A spy atomic type: records the ordering the library passes down to the atomic operation.
thread_local! {
    static LAST_ORDER: std::cell::Cell<Option<(bool, Ordering)>> = const { std::cell::Cell::new(None) };
}

#[repr(transparent)]
struct SpyAtomic(std::sync::atomic::AtomicU32);

// SAFETY: same layout and semantics as AtomicU32
unsafe impl vm_memory::AtomicInteger for SpyAtomic {
    type V = u32;
    fn new(v: u32) -> Self {
        SpyAtomic(std::sync::atomic::AtomicU32::new(v))
    }
    fn load(&self, order: Ordering) -> u32 {
        LAST_ORDER.with(|l| l.set(Some((false, order))));
        self.0.load(order)
    }
    fn store(&self, val: u32, order: Ordering) {
        LAST_ORDER.with(|l| l.set(Some((true, order))));
        self.0.store(val, order)
    }
}

#[derive(Clone, Copy, Debug, PartialEq)]
#[repr(transparent)]
struct SpyVal(u32);
// SAFETY: a plain u32
unsafe impl vm_memory::ByteValued for SpyVal {}
impl From<u32> for SpyVal {
    fn from(v: u32) -> Self {
        SpyVal(v)
    }
}
impl From<SpyVal> for u32 {
    fn from(v: SpyVal) -> u32 {
        v.0
    }
}
impl vm_memory::AtomicAccess for SpyVal {
    type A = SpyAtomic;
}

/// The atomic store/load operations are performed with the ordering the caller requested.
fn orderings(ctx: &Ctx) {
    let m = GuestMemoryMmap::<()>::from_ranges(&[(GuestAddress(0x1000), 64)]).unwrap();
    let reg = m.iter().next().unwrap();
    let vs = reg.as_volatile_slice().unwrap();
    for order in [Ordering::Relaxed, Ordering::Release, Ordering::SeqCst] {
        for layer in 0..3 {
            ctx.case(true);
            LAST_ORDER.with(|l| l.set(None));
            let r = match layer {
                0 => vs.store(SpyVal(7), 8, order).is_ok(),
                1 => reg.store(SpyVal(7), vm_memory::MemoryRegionAddress(8), order).is_ok(),
                _ => m.store(SpyVal(7), GuestAddress(0x1008), order).is_ok(),
            };
            let got = LAST_ORDER.with(|l| l.get());
            if !r || got != Some((true, order)) {
                ctx.fail("C06/atomic/store-ordering", &format!("layer {} store with {:?}: the atomic operation saw {:?}", layer, order, got), json!({"layer": layer, "ordering": format!("{:?}", order)}));
            }
        }
    }
    for order in [Ordering::Relaxed, Ordering::Acquire, Ordering::SeqCst] {
        for layer in 0..3 {
            ctx.case(true);
            LAST_ORDER.with(|l| l.set(None));
            let r = match layer {
                0 => vs.load::<SpyVal>(8, order).ok(),
                1 => reg.load::<SpyVal>(vm_memory::MemoryRegionAddress(8), order).ok(),
                _ => m.load::<SpyVal>(GuestAddress(0x1008), order).ok(),
            };
            let got = LAST_ORDER.with(|l| l.get());
            if r != Some(SpyVal(7)) || got != Some((false, order)) {
                ctx.fail("C06/atomic/load-ordering", &format!("layer {} load with {:?}: the atomic operation saw {:?}, value {:?}", layer, order, got, r), json!({"layer": layer, "ordering": format!("{:?}", order)}));
            }
        }
    }
}

/// Atomic store/load on slices whose base address is not aligned: the decision must follow the
/// address that is accessed (base + offset), not the offset.
fn atomic_alignment(ctx: &Ctx) {
    let mut backing = vec![0u8; 64];
    let base = backing.as_mut_ptr();
    let a0 = (16 - base as usize % 16) % 16;
    for mis in 0..8usize {
        // SAFETY: inside backing
        let vs = unsafe { VolatileSlice::new(base.add(a0 + mis), 32) };
        let p = base as usize + a0 + mis;
        for off in 0..=16usize {
            macro_rules! at {
                ($t:ty, $v:expr) => {{
                    ctx.case(true);
                    let al = (p + off) % std::mem::size_of::<$t>() == 0;
                    let describe = || (format!("C06/atomic-alignment/{}", stringify!($t)), format!("base%8={} offset {}", mis, off), json!({"type": stringify!($t), "base_mod_8": mis, "offset": off}));
                    let r = crate::crash::guarded(ctx, &describe, || {
                        let s = vs.store::<$t>($v, off, Ordering::SeqCst).is_ok();
                        let l = vs.load::<$t>(off, Ordering::SeqCst).ok();
                        (s, l)
                    });
                    if let Some((s, l)) = r {
                        let ok = if al { s && l == Some($v) } else { !s && l.is_none() };
                        if !ok {
                            ctx.fail(&format!("C06/atomic-alignment/{}/{}", stringify!($t), if al { "aligned-address-refused" } else { "misaligned-address-accepted" }), &format!("slice base%8={} offset {} (address%{}={}): store ok={} load={:?}", mis, off, std::mem::size_of::<$t>(), (p + off) % std::mem::size_of::<$t>(), s, l), describe().2);
                        }
                    }
                }};
            }
            at!(u8, 0x5a);
            at!(u16, 0xbeef);
            at!(u32, 0xdead_beef);
            at!(u64, 0x0123_4567_89ab_cdef);
            at!(i16, -2);
            at!(i32, -3);
            at!(i64, -4);
            at!(usize, 77);
        }
    }
}

/// All interleavings of a writer flipping a value and a reader, at primitive-access granularity.
fn schedules(ctx: &Ctx) {
    #[derive(Clone, Copy, Debug)]
    enum W {
        U16,
        U32,
        U64,
        Straddle,
    }
    // the same race through the buffer interface (8-byte aligned local buffers) and with two readers
    for (via_slice, readers) in [(true, 1usize), (false, 2), (true, 2)] {
        let outcomes: Mutex<BTreeSet<String>> = Mutex::new(BTreeSet::new());
        let stats = explore_seq(if readers == 2 { Some(3) } else { None }, |ex: &mut Explorer| {
            let m = Arc::new(GuestMemoryMmap::<()>::from_ranges(&[(GuestAddress(0x1000), 32)]).unwrap());
            let seen: Arc<Mutex<Vec<u64>>> = Arc::new(Mutex::new(Vec::new()));
            let a = GuestAddress(0x1008);
            let m1 = m.clone();
            let mut bodies: Vec<ThreadBody> = vec![Box::new(move || {
                for k in 0..2 {
                    let v: u64 = if k % 2 == 0 { u64::MAX } else { 0 };
                    if via_slice {
                        let buf = [v; 1];
                        // SAFETY: u64 array viewed as bytes
                        let bytes = unsafe { std::slice::from_raw_parts(buf.as_ptr() as *const u8, 8) };
                        m1.write_slice(bytes, a).unwrap();
                    } else {
                        m1.write_obj(v, a).unwrap();
                    }
                }
            })];
            for _ in 0..readers {
                let (m2, s2) = (m.clone(), seen.clone());
                bodies.push(Box::new(move || {
                    let mut buf = [0u64; 1];
                    if via_slice {
                        // SAFETY: u64 array viewed as bytes
                        let bytes = unsafe { std::slice::from_raw_parts_mut(buf.as_mut_ptr() as *mut u8, 8) };
                        m2.read_slice(bytes, a).unwrap();
                    } else {
                        buf[0] = m2.read_obj::<u64>(a).unwrap();
                    }
                    s2.lock().unwrap().push(buf[0]);
                }));
            }
            let res = run_threads(ex, bodies, 1000);
            let vals = seen.lock().unwrap().clone();
            outcomes.lock().unwrap().insert(format!("{:x?}", vals));
            if !res.ok() {
                ctx.fail("C06/schedule/buffer-interface/no-progress-or-panic", &format!("{:?}", res.panics), json!({"schedule": ex.current_choices()}));
                return false;
            }
            if let Some(v) = vals.iter().find(|v| **v != 0 && **v != u64::MAX) {
                ctx.fail(&format!("C06/schedule/{}-{}-readers/torn-value-observed", if via_slice { "write_slice" } else { "write_obj" }, readers), &format!("a reader observed {:#x}", v), json!({"via_slice": via_slice, "readers": readers, "schedule": ex.current_choices(), "trace": res.normalized()}));
                return false;
            }
            true
        });
        ctx.add_traces(stats.executions);
        ctx.add_states(stats.nodes);
        ctx.add_transitions(stats.nodes);
        ctx.sample(json!({"harness": format!("writer flips an aligned u64 via {} || {} reader(s)", if via_slice { "write_slice/read_slice" } else { "write_obj/read_obj" }, readers), "schedules": stats.executions, "preemption_bound": if readers == 2 { "3" } else { "unbounded" }, "distinct_outcomes": outcomes.lock().unwrap().len()}));
    }
    for (w, addr) in [(W::U16, 0x1002u64), (W::U32, 0x1004), (W::U64, 0x1008), (W::U64, 0x1010), (W::Straddle, 0x1008)] {
        let outcomes: Mutex<BTreeSet<String>> = Mutex::new(BTreeSet::new());
        let steps: Mutex<BTreeSet<Vec<usize>>> = Mutex::new(BTreeSet::new());
        let stats = explore_seq(None, |ex: &mut Explorer| {
            let m = Arc::new(GuestMemoryMmap::<()>::from_ranges(&[(GuestAddress(0x1000), 16), (GuestAddress(0x1010), 16)]).unwrap());
            let seen: Arc<Mutex<Vec<u64>>> = Arc::new(Mutex::new(Vec::new()));
            let (m1, m2, s2) = (m.clone(), m.clone(), seen.clone());
            let a = GuestAddress(addr);
            let writer: ThreadBody = Box::new(move || {
                for k in 0..2 {
                    let ones = k % 2 == 0;
                    match w {
                        W::U16 => m1.write_obj(if ones { u16::MAX } else { 0 }, a).unwrap(),
                        W::U32 => m1.write_obj(if ones { u32::MAX } else { 0 }, a).unwrap(),
                        W::U64 => m1.write_obj(if ones { u64::MAX } else { 0 }, a).unwrap(),
                        // 16 bytes starting 8 bytes before the region boundary: the first chunk is
                        // exactly one aligned u64
                        W::Straddle => m1.write_obj(if ones { u128::MAX } else { 0 }, a).unwrap(),
                    }
                }
            });
            let reader: ThreadBody = Box::new(move || {
                for _ in 0..2 {
                    let v: u64 = match w {
                        W::U16 => m2.read_obj::<u16>(a).unwrap() as u64,
                        W::U32 => m2.read_obj::<u32>(a).unwrap() as u64,
                        W::U64 | W::Straddle => m2.read_obj::<u64>(a).unwrap(),
                    };
                    s2.lock().unwrap().push(v);
                }
            });
            let res = run_threads(ex, vec![writer, reader], 1000);
            let mut st = vec![0usize; 2];
            for (t, _) in &res.trace {
                st[*t] += 1;
            }
            steps.lock().unwrap().insert(st);
            let vals = seen.lock().unwrap().clone();
            outcomes.lock().unwrap().insert(format!("{:x?}", vals));
            let full: u64 = match w {
                W::U16 => u16::MAX as u64,
                W::U32 => u32::MAX as u64,
                _ => u64::MAX,
            };
            if !res.ok() {
                ctx.fail(&format!("C06/schedule/{:?}/no-progress-or-panic", w), &format!("{:?}", res.panics), json!({"width": format!("{:?}", w), "schedule": ex.current_choices()}));
                return false;
            }
            if let Some(v) = vals.iter().find(|v| **v != 0 && **v != full) {
                let key = format!("C06/schedule/{:?}/torn-value-observed", w);
                ctx.fail(&key, &format!("the reader observed {:#x}, a mixture of the old and the new value", v), json!({"width": format!("{:?}", w), "addr": addr, "schedule": ex.current_choices(), "trace": res.normalized()}));
                return false;
            }
            true
        });
        ctx.add_traces(stats.executions);
        ctx.add_states(stats.nodes);
        ctx.add_transitions(stats.nodes);
        let st = steps.into_inner().unwrap();
        let mut info = json!({"harness": format!("writer flips {:?} at {:#x} twice || reader reads twice", w, addr), "schedules": stats.executions, "distinct_outcomes": outcomes.lock().unwrap().len()});
        if st.len() == 1 && !stats.stopped_early {
            let c = st.iter().next().unwrap().clone();
            let expect = multinomial(&c);
            info["steps_per_thread"] = json!(c);
            info["multinomial_matches"] = json!(expect == stats.executions as u128);
            if expect != stats.executions as u128 {
                ctx.machinery(&format!("C06 schedules: explored {} but multinomial of {:?} is {}", stats.executions, c, expect));
            }
        }
        ctx.sample(info);
    }
}

pub fn run(tier: Tier, replay: Option<String>) -> i32 {
    let ctx = crate::new_ctx("C06", tier, "model_checking", &replay);
    ctx.set_rule("(a) trace enumeration: for every transfer length 0..=8 x guest address mod 8 x local address mod 8 (576 classes) x 18 entry points that funnel into the byte-copy helper (write/read/write_slice/read_slice, copy_to/copy_from::<u8> and VolatileArrayRef<u8> copies with a local buffer of the same length and a longer one, &[u8]/&mut [u8]/Vec<u8>/Cursor adapters, plain and exact stream forms; buffer-level entry points also with the local buffer directly before / after the guest bytes in one allocation; Vec<u8> sinks additionally in every fill state: capacity 0..=24 x bytes already held x length 1..=8 x guest address mod 8; Cursor<&mut [u8]> sinks at every position 0..=9 x length x guest address mod 8 x destination address mod 8; dirty-tracked slices with page sizes {1,4,64,4096} x three histories - fresh, location already dirty, dirtied and cleared - x eight entry points) and for whole objects of 1..16 bytes at every guest address of two adjacent regions (incl. objects straddling the boundary) through the guest-memory layer: hook H1 records kind, address and width of every primitive volatile access; required: the guest bytes accessed are exactly the range, each once, every access naturally aligned, exactly ONE access of the full width when the length is 1/2/4/8 and both addresses are aligned to it, the data arrives, and a transfer that moved bytes without a recorded volatile access is a violation; the same rule for 10 entry points x lengths {1,2,4,8,3,16} with the guest bytes, and in turn the local buffer, at a host address with exactly 4..=46 trailing zero bits (mmap MAP_FIXED_NOREPLACE at k << tz), and at every naturally aligned position of a 4 KiB page and across the boundary to the next one; guest memory whose region starts at a guest address off the word grid (six bases): host-aligned objects around every guest and host page boundary through six guest-memory level entry points; atomic store/load for all 10 integer types at every offset: Ok iff aligned, value round-trips. (b) E3: all interleavings, with a scheduling point before every primitive access, of a writer flipping 0 <-> all-ones twice and a reader reading twice (u16, u32, u64, and a 16-byte object whose first chunk is the last aligned u64 of a region): the reader may only see the old or the new value. States = choice-tree nodes, traces = schedules executed on the real code.");
    ctx.assume("one naturally aligned volatile access of <= 8 bytes is a single machine access (LLVM volatile semantics, x86-64/aarch64 single-copy atomicity); SC interleavings of whole primitive accesses");
    if ctx.replay_of.is_some() {
        println!("replay: deterministic enumeration; re-running it");
    }
    let _ = tier;
    let describe = || {
        let (ep, len, gm, lm) = CUR.with(|c| c.borrow().clone());
        (format!("C06/{}", ep), format!("len {} guest%8={} local%8={}", len, gm, lm), json!({"entry_point": ep, "len": len, "guest_addr_mod_8": gm, "local_addr_mod_8": lm}))
    };
    crate::crash::guarded(&ctx, &describe, || slice_classes(&ctx));
    crate::crash::guarded(&ctx, &describe, || vec_sinks(&ctx));
    crate::crash::guarded(&ctx, &describe, || cursor_sinks(&ctx));
    crate::crash::guarded(&ctx, &describe, || tracked_histories(&ctx));
    crate::crash::guarded(&ctx, &describe, || adjacent_classes(&ctx));
    crate::crash::guarded(&ctx, &describe, || object_classes(&ctx));
    crate::crash::guarded(&ctx, &describe, || high_alignment_classes(&ctx));
    crate::crash::guarded(&ctx, &describe, || page_positions(&ctx));
    crate::crash::guarded(&ctx, &describe, || off_grid_guest_bases(&ctx));
    orderings(&ctx);
    atomic_alignment(&ctx);
    schedules(&ctx);
    ctx.set_exhaustive(true);
    ctx.finish()
}
