//! C05 (soundness) and C16 (precision) of dirty tracking — one enumeration, two verdicts.

use super::c03;
use super::c04::{labels, model_op, run_op, Dst, Op, Placed, Ty};
use crate::interpose::{with_io_handler, IoAnswer, IoReq};
use crate::layouts::Layout;
use crate::report::{hex, Ctx, Tier};
use serde_json::{json, Value};
use std::collections::BTreeSet;
use std::num::NonZeroUsize;
use std::os::fd::AsRawFd;
use std::sync::Arc;
use vm_memory::bitmap::{ArcSlice, AtomicBitmap, Bitmap, BitmapSlice};
use vm_memory::{Bytes, GuestAddress, GuestMemory, GuestMemoryMmap, GuestMemoryRegion, GuestRegionMmap, MemoryRegionAddress, VolatileMemory, VolatileSlice};

#[derive(Clone, Copy, Debug, PartialEq, Eq, Hash)]
pub enum Link {
    Subslice(usize, usize),
    Offset(usize),
    SplitLeft(usize),
    SplitRight(usize),
    GetSlice(usize, usize),
    RefToSlice(Ty, usize),
    ArrToSlice(Ty, usize, usize),
    ArrRefAt(Ty, usize, usize, usize),
}

fn link_model((off, len): (usize, usize), l: Link) -> Option<(usize, usize)> {
    let fits = |o: usize, c: usize| o.checked_add(c).map_or(false, |e| e <= len);
    match l {
        Link::Subslice(o, c) | Link::GetSlice(o, c) => fits(o, c).then(|| (off + o, c)),
        Link::Offset(o) => (o <= len).then(|| (off + o, len - o)),
        Link::SplitLeft(m) => (m <= len).then(|| (off, m)),
        Link::SplitRight(m) => (m <= len).then(|| (off + m, len - m)),
        Link::RefToSlice(ty, o) => fits(o, ty.size()).then(|| (off + o, ty.size())),
        Link::ArrToSlice(ty, o, n) => fits(o, n * ty.size()).then(|| (off + o, n * ty.size())),
        Link::ArrRefAt(ty, o, n, i) => (i < n && fits(o, n * ty.size())).then(|| (off + o + i * ty.size(), ty.size())),
    }
}

macro_rules! small_ty {
    ($ty:expr, $f:ident, $($args:expr),*) => {
        match $ty {
            Ty::U16 => $f::<u16, _>($($args),*),
            Ty::U32 => $f::<u32, _>($($args),*),
            Ty::U64 => $f::<u64, _>($($args),*),
            Ty::A3 => $f::<[u8; 3], _>($($args),*),
            _ => $f::<u8, _>($($args),*),
        }
    };
}

type Cont<'f, B> = &'f mut dyn FnMut(&VolatileSlice<B>);

fn via_ref<T: vm_memory::ByteValued, B: BitmapSlice>(s: &VolatileSlice<B>, o: usize, rest: &[Link], f: Cont<B>) -> bool {
    match s.get_ref::<T>(o) {
        Ok(r) => {
            let d = r.to_slice();
            with_chain(&d, rest, f)
        }
        Err(_) => false,
    }
}
fn via_arr<T: vm_memory::ByteValued, B: BitmapSlice>(s: &VolatileSlice<B>, o: usize, n: usize, at: Option<usize>, rest: &[Link], f: Cont<B>) -> bool {
    match s.get_array_ref::<T>(o, n) {
        Ok(a) => {
            let d = match at {
                Some(i) => a.ref_at(i).to_slice(),
                None => a.to_slice(),
            };
            with_chain(&d, rest, f)
        }
        Err(_) => false,
    }
}

/// Derives through `chain` on the real API and calls `f` with the final slice.
fn with_chain<B: BitmapSlice>(s: &VolatileSlice<B>, chain: &[Link], f: Cont<B>) -> bool {
    let (first, rest) = match chain.split_first() {
        None => {
            f(s);
            return true;
        }
        Some(x) => x,
    };
    match *first {
        Link::Subslice(o, c) => s.subslice(o, c).map(|d| with_chain(&d, rest, f)).unwrap_or(false),
        Link::Offset(o) => s.offset(o).map(|d| with_chain(&d, rest, f)).unwrap_or(false),
        Link::SplitLeft(m) => s.split_at(m).map(|(d, _)| with_chain(&d, rest, f)).unwrap_or(false),
        Link::SplitRight(m) => s.split_at(m).map(|(_, d)| with_chain(&d, rest, f)).unwrap_or(false),
        Link::GetSlice(o, c) => match s.get_slice(o, c) {
            Ok(d) => with_chain(&d, rest, f),
            Err(_) => false,
        },
        Link::RefToSlice(ty, o) => small_ty!(ty, via_ref, s, o, rest, f),
        Link::ArrToSlice(ty, o, n) => small_ty!(ty, via_arr, s, o, n, None, rest, f),
        Link::ArrRefAt(ty, o, n, i) => small_ty!(ty, via_arr, s, o, n, Some(i), rest, f),
    }
}

fn boundary(len: usize, p: usize, thorough: bool) -> Vec<usize> {
    let mut s: BTreeSet<usize> = BTreeSet::new();
    if thorough {
        s.extend(0..=len);
    } else {
        for v in [0, 1, p.saturating_sub(1), p, p + 1, len / 2, len.saturating_sub(1), len] {
            if v <= len {
                s.insert(v);
            }
        }
    }
    s.into_iter().collect()
}

fn links_for(len: usize, p: usize, thorough: bool) -> Vec<Link> {
    let mut v = Vec::new();
    for o in boundary(len, p, thorough) {
        v.push(Link::Offset(o));
        v.push(Link::SplitLeft(o));
        v.push(Link::SplitRight(o));
        v.push(Link::Subslice(o, len - o));
        if len - o >= 2 {
            v.push(Link::Subslice(o, (len - o) / 2 + 1));
        }
        if o == 1 || o == p {
            v.push(Link::GetSlice(o, len - o));
        }
        for ty in [Ty::U16, Ty::U32, Ty::A3] {
            let sz = ty.size();
            if o + sz <= len && (o <= p + 1) {
                v.push(Link::RefToSlice(ty, o));
                let n = (len - o) / sz;
                v.push(Link::ArrToSlice(ty, o, n));
                v.push(Link::ArrRefAt(ty, o, n, n - 1));
                if n > 1 {
                    v.push(Link::ArrRefAt(ty, o, n, 0));
                }
            }
        }
    }
    v.dedup();
    v
}

fn ops_for(dl: usize, p: usize, thorough: bool) -> Vec<Op> {
    let mut v = Vec::new();
    let offs = boundary(dl, p, thorough && dl <= 12);
    for &off in &offs {
        let mut lens: BTreeSet<usize> = BTreeSet::new();
        for l in [0usize, 1, 2, p.saturating_sub(1), p, p + 1, dl.saturating_sub(off), dl.saturating_sub(off) + 1] {
            lens.insert(l);
        }
        for &len in &lens {
            v.push(Op::Write { off, len, mis: 1 });
            v.push(Op::WriteSlice { off, len, mis: 0 });
            v.push(Op::Read { off, len, mis: 2 });
            v.push(Op::ReadFrom { off, count: len });
            v.push(Op::ReadExactFrom { off, count: len });
            v.push(Op::WriteTo { off, count: len });
            v.push(Op::SliceCopyFrom { ty: Ty::U8, off, len, m: len + 1 });
            v.push(Op::SliceCopyFrom { ty: Ty::U16, off, len, m: 2 });
            v.push(Op::SliceCopyFrom { ty: Ty::U16, off, len, m: len / 2 + 2 });
            v.push(Op::SliceCopyFrom { ty: Ty::U32, off, len, m: len / 4 + 1 });
            v.push(Op::SliceCopyTo { ty: Ty::U32, off, len, m: 2 });
            v.push(Op::SliceCopyToVs { off: 0, len: len.min(dl), dst: Dst::Same(off.min(dl), dl - off.min(dl)) });
            v.push(Op::SliceCopyToVs { off, len, dst: Dst::Foreign(len + 1) });
        }
        for ty in [Ty::U8, Ty::U16, Ty::U32, Ty::U64, Ty::A3, Ty::U128] {
            v.push(Op::WriteObj { ty, off });
            v.push(Op::RefStore { ty, off });
            v.push(Op::ReadObj { ty, off });
            v.push(Op::RefLoad { ty, off });
            let n = dl.saturating_sub(off) / ty.size();
            if n >= 1 {
                v.push(Op::ArrStore { ty, off, n, i: n - 1 });
                v.push(Op::ArrStore { ty, off, n, i: 0 });
                v.push(Op::ArrCopyFrom { ty, off, n, m: n });
                v.push(Op::ArrCopyFrom { ty, off, n, m: 1 });
                // source buffer longer than the array: only the array's bytes are written
                v.push(Op::ArrCopyFrom { ty, off, n, m: n + 2 });
                v.push(Op::ArrCopyFrom { ty, off, n: 1, m: 3 });
                v.push(Op::ArrCopyTo { ty, off, n, m: n });
                v.push(Op::ArrCopyToVs { ty, off, n, dst: Dst::Same(0, dl) });
            }
            v.push(Op::ArrCopyFrom { ty, off, n: n + 1, m: 1 });
        }
        for w in [1, 2, 4, 8] {
            v.push(Op::AtomStore { w, off });
            v.push(Op::AtomLoad { w, off });
        }
    }
    let mut seen = std::collections::HashSet::new();
    v.retain(|o| seen.insert(*o));
    v
}

/// A bitmap for `n` bytes with pages of `p` bytes, made - in turn with (n, p) - directly, by
/// growing one of half the size, or by growing an empty one in two steps of odd sizes: the
/// region's bitmap tracks the region whichever way it got its size.
fn tracked_bitmap(n: usize, pz: NonZeroUsize) -> AtomicBitmap {
    match (n + pz.get()) % 3 {
        _ if n < 2 => AtomicBitmap::new(n, pz),
        0 => AtomicBitmap::new(n, pz),
        1 => {
            let mut bm = AtomicBitmap::new(n / 2, pz);
            bm.enlarge(n - n / 2);
            bm
        }
        _ => {
            let mut bm = AtomicBitmap::new(0, pz);
            bm.enlarge(1);
            bm.enlarge(n - 1);
            bm
        }
    }
}

fn dirty_pages(bm: &AtomicBitmap) -> BTreeSet<usize> {
    (0..bm.len() + 2).filter(|i| bm.is_bit_set(*i)).collect()
}

fn pages_of(ranges: &[(usize, usize)], p: usize, npages: usize) -> BTreeSet<usize> {
    let mut s = BTreeSet::new();
    for (o, n) in ranges {
        if *n == 0 {
            continue;
        }
        for pg in (o / p)..=((o + n - 1) / p) {
            if pg < npages {
                s.insert(pg);
            }
        }
    }
    s
}

#[derive(Clone, Copy, Debug, PartialEq, Eq)]
enum Start {
    Clean,
    AllDirty,
    Checker,
}

fn prepare(bm: &AtomicBitmap, st: Start) {
    bm.reset();
    match st {
        Start::Clean => {}
        Start::AllDirty => {
            for i in 0..bm.len() {
                bm.set_bit(i)
            }
        }
        Start::Checker => {
            for i in (0..bm.len()).step_by(2) {
                bm.set_bit(i)
            }
        }
    }
}

struct Verdicts<'a> {
    ctx: &'a Ctx,
    /// "C05" or "C16": which oracle's violations are recorded
    which: &'a str,
    /// hashes of the distinct (memory, dirty set, page size) states reached
    states: Vec<std::sync::Mutex<std::collections::HashSet<u64>>>,
}

impl Verdicts<'_> {
    #[allow(clippy::too_many_arguments)]
    fn judge(
        &self,
        what: &str,
        opname: &str,
        p: usize,
        npages: usize,
        base_off: usize,
        mem_before: &[u8],
        mem_after: &[u8],
        dirty_before: &BTreeSet<usize>,
        dirty_after: &BTreeSet<usize>,
        written: Option<&[(usize, usize)]>,
        allowed_extra: &[(usize, usize)],
        rp: &dyn Fn() -> Value,
    ) {
        {
            let mut h = crate::report::fnv(mem_after);
            for d in dirty_after {
                h = h.wrapping_mul(0x100000001b3) ^ (*d as u64 + 1);
            }
            h = h.wrapping_mul(0x100000001b3) ^ ((p as u64) << 32 | base_off as u64);
            self.states[(h >> 7) as usize % 64].lock().unwrap().insert(h);
        }
        if self.which == "C05" {
            for i in 0..mem_before.len() {
                if mem_before[i] != mem_after[i] {
                    let pg = (base_off + i) / p;
                    if !dirty_after.contains(&pg) {
                        let key = format!("C05/{}/{}/changed-byte-left-clean", what, opname);
                        let r = if self.ctx.has_failed(&key) { Value::Null } else { rp() };
                        self.ctx.fail(&key, &format!("byte {} (region offset {}, page {} of size {}) changed {:02x}->{:02x} but the page is clean; dirty={:?}", i, base_off + i, pg, p, mem_before[i], mem_after[i], dirty_after), r);
                        return;
                    }
                }
            }
        } else if let Some(w) = written {
            let shifted: Vec<(usize, usize)> = w.iter().map(|(o, n)| (o + base_off, *n)).collect();
            let must: BTreeSet<usize> = dirty_before.union(&pages_of(&shifted, p, npages)).cloned().collect();
            let extra: Vec<(usize, usize)> = allowed_extra.iter().map(|(o, n)| (o + base_off, *n)).collect();
            let may: BTreeSet<usize> = must.union(&pages_of(&extra, p, npages)).cloned().collect();
            if !(must.is_subset(dirty_after) && dirty_after.is_subset(&may)) {
                let kind = if !dirty_after.is_subset(&may) { "marked-beyond-what-was-written" } else { "written-page-not-marked" };
                let key = format!("C16/{}/{}/{}", what, opname, kind);
                let r = if self.ctx.has_failed(&key) { Value::Null } else { rp() };
                self.ctx.fail(&key, &format!("page size {}: dirty before {:?}, written (region offsets) {:?}, dirty after {:?}, expected {:?}", p, dirty_before, shifted, dirty_after, must), r);
            }
        }
    }
}

/// Part A: a tracked VolatileSlice over arena memory.
#[allow(clippy::too_many_arguments)]
fn slice_root<B: BitmapSlice>(
    v: &Verdicts,
    what: &str,
    placed: &Placed,
    vs: &VolatileSlice<B>,
    bm: &AtomicBitmap,
    base_off: usize,
    p: usize,
    tracked: bool,
    thorough: bool,
    max_depth: usize,
) -> u64 {
    let n = placed.len;
    let state = labels(n);
    // the number of pages the tracked byte size calls for, not the number the bitmap admits to
    let npages = bm.byte_size().div_ceil(p);
    let mut t = 0u64;
    // enumerate chains breadth first over the model extents
    let mut chains: Vec<(Vec<Link>, (usize, usize))> = vec![(vec![], (0, n))];
    let mut frontier = chains.clone();
    let mut seen_ext: BTreeSet<(usize, usize, usize)> = BTreeSet::new();
    for depth in 1..=max_depth {
        let mut next = Vec::new();
        for (ch, ext) in &frontier {
            for l in links_for(ext.1, p, thorough && depth == 1) {
                if let Some(e2) = link_model(*ext, l) {
                    // one representative chain per (depth, extent, last link kind) keeps the space finite but varied
                    let kind = std::mem::discriminant(&l);
                    let _ = kind;
                    if seen_ext.insert((depth * 16 + link_kind(l), e2.0, e2.1)) {
                        let mut c2 = ch.clone();
                        c2.push(l);
                        next.push((c2, e2));
                    }
                }
            }
        }
        chains.extend(next.iter().cloned());
        frontier = next;
    }
    for (chain, (doff, dlen)) in &chains {
        // thorough tier: the complete container alphabet of C04 on the root accessor
        let ops = if thorough && chain.is_empty() && max_depth >= 3 {
            let mut v = super::c04::alphabet(*dlen, false);
            v.extend(ops_for(*dlen, p, thorough));
            let mut seen = std::collections::HashSet::new();
            v.retain(|o| seen.insert(*o));
            v
        } else {
            ops_for(*dlen, p, thorough)
        };
        for start in [Start::Clean, Start::Checker, Start::AllDirty] {
            if start == Start::AllDirty && !chain.is_empty() && !thorough {
                continue;
            }
            for (k, op) in ops.iter().enumerate() {
                let tag = (k % 89) as u8 + 1;
                placed.load(&state);
                prepare(bm, start);
                let dirty_before = dirty_pages(bm);
                let exp = model_op(&state[*doff..*doff + *dlen], placed.ptr() as usize + *doff, op, tag);
                let describe = || {
                    (
                        format!("{}/{}/{}", v.which, what, op.name()),
                        format!("chain {:?} op {:?}", chain, op),
                        json!({"root": what, "len": n, "page_size": p, "bitmap_base_offset": base_off, "chain": format!("{:?}", chain), "op": op.to_json(), "tag": tag, "start": format!("{:?}", start)}),
                    )
                };
                let ran = crate::crash::guarded(v.ctx, &describe, || {
                    let mut f = |d: &VolatileSlice<B>| {
                        let _ = run_op(d, op, tag);
                    };
                    with_chain(vs, chain, &mut f)
                });
                t += 1;
                if ran != Some(true) {
                    continue;
                }
                let after = placed.contents();
                let dirty_after = if tracked { dirty_pages(bm) } else { BTreeSet::new() };
                // which model candidate happened?
                let cand = exp.mem.iter().position(|m| after[*doff..*doff + *dlen] == m[..]);
                let written: Option<Vec<(usize, usize)>> = cand.map(|j| exp.written[j].iter().map(|(o, c)| (o + doff, *c)).collect());
                if tracked {
                    let rp = || describe().2;
                    v.judge(what, op.name(), p, npages, base_off, &state, &after, &dirty_before, &dirty_after, written.as_deref(), &[], &rp);
                } else if !dirty_pages(bm).is_subset(&dirty_before) {
                    v.ctx.fail(&format!("{}/{}/untracked-slice-marked", v.which, what), "an untracked (None) bitmap slice marked pages", describe().2);
                }
            }
        }
    }
    t
}

#[derive(Clone, Copy, Debug)]
enum HistOp {
    Mem(Op),
    Reset,
    Harvest,
    ResetRange(usize, usize),
    /// clear one page by number
    ResetBit(usize),
}

/// All sequences of three operations over a reduced alphabet (writes through several routes,
/// reads, and the three ways of clearing the bitmap) with memory and bitmap carried over; both
/// oracles are applied after every step, relative to the dirty set observed before it.
fn histories<B: BitmapSlice>(v: &Verdicts, what: &str, placed: &Placed, vs: &VolatileSlice<B>, bm: &AtomicBitmap, p: usize, depth: usize) -> u64 {
    let n = placed.len;
    let alpha: Vec<HistOp> = vec![
        HistOp::Mem(Op::Write { off: 0, len: p + 1, mis: 1 }),
        HistOp::Mem(Op::Write { off: p.saturating_sub(1), len: 2, mis: 0 }),
        HistOp::Mem(Op::RefStore { ty: Ty::U32, off: p }),
        HistOp::Mem(Op::ArrCopyFrom { ty: Ty::U16, off: 1, n: 3, m: 5 }),
        HistOp::Mem(Op::SliceCopyToVs { off: 0, len: 4, dst: Dst::Same(p.min(n - 4), 4) }),
        HistOp::Mem(Op::AtomStore { w: 4, off: 4 }),
        HistOp::Mem(Op::ReadFrom { off: 2, count: p + 2 }),
        HistOp::Mem(Op::Read { off: 0, len: 5, mis: 0 }),
        HistOp::Mem(Op::WriteObj { ty: Ty::U64, off: n - 8 }),
        HistOp::Reset,
        HistOp::Harvest,
        HistOp::ResetRange(0, p + 1),
        // a write over the whole container and a reset of its middle
        HistOp::Mem(Op::Write { off: 0, len: n, mis: 0 }),
        HistOp::ResetRange(p, n.saturating_sub(2 * p).max(1)),
        // single pages cleared by number, and writes that stay inside one page
        HistOp::ResetBit(0),
        HistOp::ResetBit(1),
        HistOp::Mem(Op::Write { off: 0, len: 1, mis: 0 }),
        HistOp::Mem(Op::Write { off: p, len: 1, mis: 0 }),
    ];
    let mut alpha = alpha;
    if bm.len() > 64 {
        // bitmaps of more than one 64-page word: writes and resets that straddle the word boundary
        let w = 64 * p;
        alpha.push(HistOp::Mem(Op::Write { off: w - 2, len: 4, mis: 0 }));
        alpha.push(HistOp::Mem(Op::WriteObj { ty: Ty::U16, off: w - 1 }));
        alpha.push(HistOp::Mem(Op::Write { off: w + p, len: 1, mis: 0 }));
        alpha.push(HistOp::ResetRange(w - 1, 2));
    }
    // the number of pages the tracked byte size calls for, not the number the bitmap admits to
    let npages = bm.byte_size().div_ceil(p);
    let mut t = 0u64;
    let na = alpha.len();
    for code in 0..na.pow(depth as u32) {
        {
            {
                let idx: Vec<usize> = (0..depth).map(|d| code / na.pow(d as u32) % na).collect();
                let seq: Vec<&HistOp> = idx.iter().map(|i| &alpha[*i]).collect();
                let (i, j, k) = (idx[0], idx.get(1).copied().unwrap_or(0), idx.get(2).copied().unwrap_or(0) + idx.get(3).copied().unwrap_or(0) * 5);
                let mut state = labels(n);
                placed.load(&state);
                bm.reset();
                // pages written since they were last cleared on purpose (soundness over the whole
                // history: a clearing operation may not take other pages with it)
                let mut owed: std::collections::BTreeSet<usize> = std::collections::BTreeSet::new();
                for (step, h) in seq.iter().copied().enumerate() {
                    t += 1;
                    let tag = (i * 31 + j * 7 + k + step * 3) as u8 | 1;
                    // the bitmap operations themselves: exactly the named pages become clean and a
                    // fetch-and-clear reports exactly what was dirty (precision oracle only)
                    if !matches!(h, HistOp::Mem(_)) {
                        let before = dirty_pages(bm);
                        let (cleared, reported): (std::collections::BTreeSet<usize>, Option<std::collections::BTreeSet<usize>>) = match h {
                            HistOp::Reset => {
                                bm.reset();
                                (before.clone(), None)
                            }
                            HistOp::Harvest => {
                                let words = bm.get_and_reset();
                                let mut rep = std::collections::BTreeSet::new();
                                for (w, x) in words.iter().enumerate() {
                                    for b in 0..64 {
                                        if x & (1u64 << b) != 0 {
                                            rep.insert(w * 64 + b);
                                        }
                                    }
                                }
                                (before.clone(), Some(rep))
                            }
                            HistOp::ResetRange(x, l) => {
                                bm.reset_addr_range(*x, *l);
                                let last = (x + l.saturating_sub(1)) / p;
                                ((x / p..=last).filter(|q| *l > 0 && before.contains(q)).collect(), None)
                            }
                            HistOp::ResetBit(q) => {
                                bm.reset_bit(*q);
                                (before.iter().filter(|x| *x == q).cloned().collect(), None)
                            }
                            HistOp::Mem(_) => unreachable!(),
                        };
                        for q in &cleared {
                            owed.remove(q);
                        }
                        if v.which == "C05" {
                            let after = dirty_pages(bm);
                            if let Some(q) = owed.iter().find(|q| !after.contains(q)) {
                                let key = format!("{}/{}/history/written-page-cleared-by-an-unrelated-operation", v.which, what);
                                let rp = if v.ctx.has_failed(&key) { serde_json::Value::Null } else { json!({"root": what, "len": n, "page_size": p, "history": seq.iter().map(|h| format!("{:?}", h)).collect::<Vec<_>>(), "failing_step": step}) };
                                v.ctx.fail(&key, &format!("history {:?} step {} ({:?}): page {} was written earlier and not named by this operation, but is clean now (dirty before {:?}, after {:?})", seq, step, h, q, before, after), rp);
                            }
                        }
                        if v.which == "C16" {
                            let after = dirty_pages(bm);
                            let want: std::collections::BTreeSet<usize> = before.difference(&cleared).cloned().collect();
                            let bad = if after != want {
                                Some(format!("dirty pages before {:?}, after {:?}, expected {:?}", before, after, want))
                            } else if reported.as_ref().map_or(false, |r| *r != before) {
                                Some(format!("dirty pages before {:?}, fetch-and-clear reported {:?}", before, reported))
                            } else {
                                None
                            };
                            if let Some(d) = bad {
                                let key = format!("{}/{}/history/bitmap-operation-imprecise", v.which, what);
                                let rp = if v.ctx.has_failed(&key) { serde_json::Value::Null } else { json!({"root": what, "len": n, "page_size": p, "history": seq.iter().map(|h| format!("{:?}", h)).collect::<Vec<_>>(), "failing_step": step}) };
                                v.ctx.fail(&key, &format!("history {:?} step {} ({:?}): {}", seq, step, h, d), rp);
                            }
                        }
                        continue;
                    }
                    match h {
                        HistOp::Reset | HistOp::Harvest | HistOp::ResetRange(..) | HistOp::ResetBit(..) => {}
                        HistOp::Mem(op) => {
                            let dirty_before = dirty_pages(bm);
                            let exp = model_op(&state, placed.ptr() as usize, op, tag);
                            let describe = || {
                                (
                                    format!("{}/{}/history/{}", v.which, what, op.name()),
                                    format!("history {:?} step {}", seq, step),
                                    json!({"root": what, "len": n, "page_size": p, "history": seq.iter().map(|h| format!("{:?}", h)).collect::<Vec<_>>(), "failing_step": step}),
                                )
                            };
                            if crate::crash::guarded(v.ctx, &describe, || run_op(vs, op, tag)).is_none() {
                                break;
                            }
                            let after = placed.contents();
                            let dirty_after = dirty_pages(bm);
                            let cand = exp.mem.iter().position(|m| after == *m);
                            let written: Option<Vec<(usize, usize)>> = cand.map(|x| exp.written[x].clone());
                            let rp = || describe().2;
                            v.judge(what, &format!("history/{}", op.name()), p, npages, 0, &state, &after, &dirty_before, &dirty_after, written.as_deref(), &[], &rp);
                            for i in 0..n {
                                if after[i] != state[i] {
                                    owed.insert(i / p);
                                }
                            }
                            if v.which == "C05" {
                                if let Some(q) = owed.iter().find(|q| !dirty_after.contains(q)) {
                                    let key = format!("{}/{}/history/written-page-cleared-by-an-unrelated-operation", v.which, what);
                                    let rpv = if v.ctx.has_failed(&key) { serde_json::Value::Null } else { rp() };
                                    v.ctx.fail(&key, &format!("history {:?} step {}: page {} was written earlier in the history and never cleared on purpose, but is clean after {:?}", seq, step, q, op), rpv);
                                }
                            }
                            state = after;
                        }
                    }
                }
            }
        }
    }
    t
}

fn link_kind(l: Link) -> usize {
    match l {
        Link::Subslice(..) => 0,
        Link::Offset(..) => 1,
        Link::SplitLeft(..) => 2,
        Link::SplitRight(..) => 3,
        Link::GetSlice(..) => 4,
        Link::RefToSlice(..) => 5,
        Link::ArrToSlice(..) => 6,
        Link::ArrRefAt(..) => 7,
    }
}

/// Containers whose bitmap spans more than one 64-page word: histories only.
fn part_large(v: &Verdicts, n: usize, p: usize, depth: usize) -> u64 {
    let pz = NonZeroUsize::new(p).unwrap();
    let placed = Placed::new(n, 0, false);
    let bm = tracked_bitmap(n, pz);
    // SAFETY: placed outlives vs
    let vs = unsafe { VolatileSlice::with_bitmap(placed.ptr(), n, bm.slice_at(0), None) };
    histories(v, "slice/RefSlice-two-bitmap-words", &placed, &vs, &bm, p, depth)
}

/// Single transfers of 64 KiB .. 128 KiB+1 into a tracked container of 256 KiB (an
/// implementation may split long copies, and must then account each piece where it lands).
fn big_writes(v: &Verdicts, p: usize) -> u64 {
    let n = 256 * 1024;
    let pz = NonZeroUsize::new(p).unwrap();
    let placed = Placed::new_large(n);
    let bm = tracked_bitmap(n, pz);
    // SAFETY: placed outlives vs
    let vs = unsafe { VolatileSlice::with_bitmap(placed.ptr(), n, bm.slice_at(0), None) };
    let what = "slice/RefSlice-256KiB";
    // the number of pages the tracked byte size calls for, not the number the bitmap admits to
    let npages = bm.byte_size().div_ceil(p);
    let init = labels(n);
    let mut t = 0u64;
    for (off, len) in [(0usize, 65536usize), (7, 65537), (0x10007, 98304), (1, 131073), (0x20000 - 3, 65540), (p.max(2) - 1, 65536 + p)] {
        let ops = [
            Op::Write { off, len, mis: 1 },
            Op::WriteSlice { off, len, mis: 0 },
            Op::ReadFrom { off, count: len },
            Op::ReadExactFrom { off, count: len },
            Op::SliceCopyFrom { ty: Ty::U8, off, len, m: len },
            Op::SliceCopyFrom { ty: Ty::U32, off, len: len / 4 * 4, m: len / 4 },
            Op::ArrCopyFrom { ty: Ty::U64, off, n: len / 8, m: len / 8 },
            Op::Read { off, len, mis: 0 },
            Op::WriteTo { off, count: len },
        ];
        for (k, op) in ops.iter().enumerate() {
            t += 1;
            let tag = (k as u8) * 3 + 5;
            placed.load(&init);
            bm.reset();
            let dirty_before = dirty_pages(&bm);
            let exp = model_op(&init, placed.ptr() as usize, op, tag);
            let describe = || (format!("{}/{}/{}", v.which, what, op.name()), format!("{:?}", op), json!({"root": what, "len": n, "page_size": p, "op": op.to_json()}));
            if crate::crash::guarded(v.ctx, &describe, || run_op(&vs, op, tag)).is_none() {
                continue;
            }
            let after = placed.contents();
            let dirty_after = dirty_pages(&bm);
            let cand = exp.mem.iter().position(|m| after == *m);
            let written: Option<Vec<(usize, usize)>> = cand.map(|x| exp.written[x].clone());
            let rp = || describe().2;
            v.judge(what, &format!("big/{}", op.name()), p, npages, 0, &init, &after, &dirty_before, &dirty_after, written.as_deref(), &[], &rp);
        }
    }
    t
}

fn part_a(v: &Verdicts, n: usize, p: usize, thorough: bool) -> u64 {
    let mut t = 0;
    let pz = NonZeroUsize::new(p).unwrap();
    let placed = Placed::new(n, 0, false);
    // plain RefSlice
    {
        let bm = tracked_bitmap(n, pz);
        // SAFETY: placed outlives vs
        let vs = unsafe { VolatileSlice::with_bitmap(placed.ptr(), n, bm.slice_at(0), None) };
        t += slice_root(v, "slice/RefSlice", &placed, &vs, &bm, 0, p, true, thorough, if thorough { 3 } else { 2 });
        t += histories(v, "slice/RefSlice", &placed, &vs, &bm, p, if thorough { 5 } else { 3 });
    }
    // the container is the tail of a larger region: nested base offset
    for k in [1usize, p, p + 1] {
        let bm = tracked_bitmap(n + k, pz);
        let vs = unsafe { VolatileSlice::with_bitmap(placed.ptr(), n, bm.slice_at(k), None) };
        t += slice_root(v, "slice/RefSlice-at-offset", &placed, &vs, &bm, k, p, true, false, if thorough { 2 } else { 1 });
        let nested = bm.slice_at(0).slice_at(k);
        let vs = unsafe { VolatileSlice::with_bitmap(placed.ptr(), n, nested, None) };
        if k == p {
            t += slice_root(v, "slice/nested-BaseSlice", &placed, &vs, &bm, k, p, true, false, if thorough { 2 } else { 1 });
        }
    }
    // ArcSlice
    {
        let bm = Arc::new(tracked_bitmap(n, pz));
        let vs = unsafe { VolatileSlice::with_bitmap(placed.ptr(), n, ArcSlice::new(bm.clone(), 0), None) };
        t += slice_root(v, "slice/ArcSlice", &placed, &vs, &bm, 0, p, true, false, if thorough { 2 } else { 1 });
    }
    // Option flavours
    {
        let some = Some(tracked_bitmap(n, pz));
        let vs = unsafe { VolatileSlice::with_bitmap(placed.ptr(), n, some.slice_at(0), None) };
        t += slice_root(v, "slice/Option-Some", &placed, &vs, some.as_ref().unwrap(), 0, p, true, false, if thorough { 2 } else { 1 });
        let none: Option<AtomicBitmap> = None;
        let dummy = AtomicBitmap::new(n, pz);
        let vs = unsafe { VolatileSlice::with_bitmap(placed.ptr(), n, none.slice_at(0), None) };
        if p == 1 || p == 4 {
            t += slice_root(v, "slice/Option-None", &placed, &vs, &dummy, 0, p, false, false, if thorough { 2 } else { 1 });
        }
    }
    t
}

// ---------------------------------------------------------------------------------------------
// Parts B and C: regions and guest memory (std build: MmapRegionBuilder allows any page size).

#[derive(Clone, Copy, Debug, PartialEq)]
enum FdScript {
    Full,
    Short(usize),
    FailAfter(usize),
    EintrThenShort(usize),
    /// first call returns this many bytes, every later call returns 0 (end of stream)
    ShortThenEof(usize),
}

#[cfg(not(feature = "xen"))]
fn build_mem(layout: &Layout, p: usize) -> GuestMemoryMmap<AtomicBitmap> {
    use vm_memory::mmap::MmapRegionBuilder;
    let regions: Vec<GuestRegionMmap<AtomicBitmap>> = layout
        .regs
        .iter()
        .map(|(s, n)| {
            let r = MmapRegionBuilder::new_with_bitmap(*n as usize, tracked_bitmap(*n as usize, NonZeroUsize::new(p).unwrap()))
                .with_mmap_prot(libc::PROT_READ | libc::PROT_WRITE)
                .with_mmap_flags(libc::MAP_ANONYMOUS | libc::MAP_PRIVATE)
                .build()
                .unwrap();
            GuestRegionMmap::new(r, GuestAddress(*s)).unwrap()
        })
        .collect();
    GuestMemoryMmap::from_regions(regions).unwrap()
}

#[cfg(not(feature = "xen"))]
fn part_bc(v: &Verdicts, layout: &Layout, p: usize, thorough: bool) -> u64 {
    let m = build_mem(layout, p);
    let what = if layout.regs.len() == 1 { "region" } else { "guest-memory" };
    let mut t = 0u64;
    let base = layout.regs[0].0;
    let span = (layout.regs.last().unwrap().0 + layout.regs.last().unwrap().1 - base) as usize;
    let set_state = |model: &c03::Model| {
        for (i, r) in m.iter().enumerate() {
            unsafe { std::ptr::copy_nonoverlapping(model.cells[i].as_ptr(), r.as_ptr(), model.cells[i].len()) };
        }
    };
    let dump = || -> Vec<Vec<u8>> { m.iter().map(|r| unsafe { std::slice::from_raw_parts(r.as_ptr(), r.len() as usize) }.to_vec()).collect() };
    let dirty = || -> Vec<BTreeSet<usize>> { m.iter().map(|r| dirty_pages(r.bitmap())).collect() };
    let prep = |st: Start| {
        for r in m.iter() {
            prepare(r.bitmap(), st)
        }
    };
    let init = c03::Model::labelled(layout);
    let judge_all = |opname: &str, before: &[Vec<u8>], after: &[Vec<u8>], db: &[BTreeSet<usize>], da: &[BTreeSet<usize>], written: Option<Vec<Vec<(usize, usize)>>>, extra: Vec<Vec<(usize, usize)>>, rp: &dyn Fn() -> Value| {
        for i in 0..before.len() {
            let np = m.iter().nth(i).unwrap().bitmap().len();
            v.judge(what, opname, p, np, 0, &before[i], &after[i], &db[i], &da[i], written.as_ref().map(|w| w[i].as_slice()), &extra[i], rp);
        }
    };
    // ranges (per region) of the addresses [a, a+n) that are mapped
    let split = |a: u64, n: usize| -> Vec<Vec<(usize, usize)>> {
        let mut out: Vec<Vec<(usize, usize)>> = vec![vec![]; layout.regs.len()];
        for j in 0..n as u64 {
            if let Some((i, o)) = layout.find(a + j) {
                out[i].push((o as usize, 1));
            }
        }
        out
    };
    let starts = [Start::Clean, Start::Checker];
    let mut devzero = std::fs::File::open("/dev/zero").unwrap();
    for d in 0..=(span as u64 + 1) {
        let a = base + d;
        let mut lens: BTreeSet<usize> = [1usize, 2, 3, p, p + 1, 8, span + 1].into_iter().collect();
        if thorough {
            lens.extend(1..=span + 1);
        }
        for &len in &lens {
            for (ri, route) in c03::ROUTES.iter().enumerate() {
                if !matches!(len, 1 | 2 | 3 | 4 | 5 | 8 | 16) && matches!(route, c03::Route::WriteObj | c03::Route::ReadObj) {
                    continue;
                }
                if !matches!(len, 1 | 2 | 4 | 8) && matches!(route, c03::Route::Store | c03::Route::Load) {
                    continue;
                }
                for st in starts {
                    let op = c03::Op { route: *route, addr: a, len, tag: ri as u8 + 1 };
                    set_state(&init);
                    prep(st);
                    let before = dump();
                    let db = dirty();
                    let aligned_ok = layout.find(a).map_or(false, |(i, o)| (m.iter().nth(i).unwrap().as_ptr() as usize + o as usize) % len.max(1) == 0);
                    let mut model = init.clone();
                    let _ = c03::expect(layout, &mut model, &op, aligned_ok);
                    let describe = || (format!("{}/{}/{:?}", v.which, what, op.route), format!("{:?}", op), json!({"layout": layout.regs, "page_size": p, "op": {"route": format!("{:?}", op.route), "addr": op.addr, "len": op.len}, "start": format!("{:?}", st)}));
                    t += 1;
                    if crate::crash::guarded(v.ctx, &describe, || c03::exec(&m, &op)).is_none() {
                        continue;
                    }
                    let after = dump();
                    let da = dirty();
                    // written = bytes the model changed (labels < 0x80, data >= 0x80)
                    let written: Vec<Vec<(usize, usize)>> = (0..before.len())
                        .map(|i| (0..before[i].len()).filter(|j| model.cells[i][*j] != init.cells[i][*j]).map(|j| (j, 1)).collect())
                        .collect();
                    let matches_model = after == model.cells;
                    let rp = || describe().2;
                    judge_all(&format!("{:?}", op.route), &before, &after, &db, &da, matches_model.then_some(written), vec![vec![]; before.len()], &rp);
                }
            }
            // descriptor reads into guest memory through the real raw-fd adapter
            for script in [FdScript::Full, FdScript::Short(1), FdScript::Short(len / 2 + 1), FdScript::FailAfter(0), FdScript::FailAfter(1), FdScript::FailAfter(len), FdScript::EintrThenShort(1), FdScript::ShortThenEof(1), FdScript::ShortThenEof(len / 2 + 1)] {
                // (through guest memory, through the region that owns the address, and through
                // that region's volatile slice: the exact forms of the three layers differ)
                for (exact, level) in [(false, 0usize), (true, 0), (false, 1), (true, 1), (false, 2), (true, 2)] {
                    if level > 0 && m.find_region(GuestAddress(a)).is_none() {
                        continue;
                    }
                    set_state(&init);
                    prep(Start::Clean);
                    let before = dump();
                    let db = dirty();
                    let f = &mut devzero;
                    let fd = f.as_raw_fd();
                    let calls = std::rc::Rc::new(std::cell::Cell::new(0usize));
                    let touched = std::rc::Rc::new(std::cell::RefCell::new(Vec::<(usize, usize)>::new()));
                    let failed = std::rc::Rc::new(std::cell::Cell::new(false));
                    let (c2, t2, f2) = (calls.clone(), touched.clone(), failed.clone());
                    let handler = Box::new(move |r: &IoReq| -> IoAnswer {
                        if r.fd != fd || !r.is_read {
                            return IoAnswer::Pass;
                        }
                        let k = c2.get();
                        c2.set(k + 1);
                        let fill = |n: usize| {
                            for i in 0..n.min(r.count) {
                                unsafe { *r.buf.add(i) = 0xF0 | (i as u8 & 0xf) };
                            }
                            t2.borrow_mut().push((r.buf as usize, n.min(r.count)));
                        };
                        match script {
                            FdScript::Full => {
                                fill(r.count);
                                IoAnswer::Ret(r.count)
                            }
                            FdScript::Short(n) => {
                                let n = if k == 0 { n.min(r.count) } else { r.count };
                                fill(n);
                                IoAnswer::Ret(n)
                            }
                            FdScript::FailAfter(n) => {
                                fill(n);
                                f2.set(true);
                                IoAnswer::Err(libc::EIO)
                            }
                            FdScript::ShortThenEof(n) => {
                                let n = if k == 0 { n.min(r.count) } else { 0 };
                                fill(n);
                                IoAnswer::Ret(n)
                            }
                            FdScript::EintrThenShort(n) => {
                                if k == 0 {
                                    f2.set(true);
                                    IoAnswer::Err(libc::EINTR)
                                } else {
                                    let n = n.min(r.count);
                                    fill(n);
                                    IoAnswer::Ret(n)
                                }
                            }
                        }
                    });
                    let describe = || (format!("{}/{}/fd-read", v.which, what), format!("addr {:#x} len {} {:?} exact={} level={}", a, len, script, exact, level), json!({"layout": layout.regs, "page_size": p, "addr": a, "count": len, "script": format!("{:?}", script), "exact": exact, "level": (["guest memory", "region", "region's volatile slice"][level])}));
                    t += 1;
                    let r = crate::crash::guarded(v.ctx, &describe, || {
                        with_io_handler(handler, || match level {
                            0 => {
                                if exact {
                                    m.read_exact_volatile_from(GuestAddress(a), f, len).is_ok()
                                } else {
                                    m.read_volatile_from(GuestAddress(a), f, len).is_ok()
                                }
                            }
                            _ => {
                                let reg = m.find_region(GuestAddress(a)).unwrap();
                                let ra = MemoryRegionAddress(a - reg.start_addr().0);
                                if level == 1 {
                                    if exact {
                                        reg.read_exact_volatile_from(ra, f, len).is_ok()
                                    } else {
                                        reg.read_volatile_from(ra, f, len).is_ok()
                                    }
                                } else {
                                    let vs = reg.as_volatile_slice().unwrap();
                                    if exact {
                                        vs.read_exact_volatile_from(ra.0 as usize, f, len).is_ok()
                                    } else {
                                        vs.read_volatile_from(ra.0 as usize, f, len).is_ok()
                                    }
                                }
                            }
                        })
                    });
                    if r.is_none() {
                        continue;
                    }
                    let after = dump();
                    let da = dirty();
                    // bytes the "kernel" stored, mapped back to region offsets
                    let mut written: Vec<Vec<(usize, usize)>> = vec![vec![]; before.len()];
                    for (ptr, n) in touched.borrow().iter() {
                        for (i, reg) in m.iter().enumerate() {
                            let rp = reg.as_ptr() as usize;
                            if *ptr >= rp && *ptr < rp + reg.len() as usize {
                                written[i].push((*ptr - rp, *n));
                            }
                        }
                    }
                    // a failing descriptor read may conservatively mark its whole target
                    let extra = if failed.get() { split(a, len) } else { vec![vec![]; before.len()] };
                    let rp = || describe().2;
                    judge_all("fd-read", &before, &after, &db, &da, Some(written), extra, &rp);
                }
            }
            // guest memory drained into a descriptor through the real raw-fd adapter: write(2)
            // full, short, failing at once or after a prefix, interrupted, accepting nothing.
            // Whatever the sink does, guest memory is only read: nothing changes, nothing is marked.
            for wscript in 0..6usize {
                for exact in [false, true] {
                    set_state(&init);
                    prep(Start::Clean);
                    let before = dump();
                    let db = dirty();
                    let mut sink = crate::layouts::tempfile().unwrap();
                    let fd = sink.as_raw_fd();
                    let calls = std::rc::Rc::new(std::cell::Cell::new(0usize));
                    let c2 = calls.clone();
                    let handler = Box::new(move |r: &IoReq| -> IoAnswer {
                        if r.fd != fd || r.is_read {
                            return IoAnswer::Pass;
                        }
                        let k = c2.get();
                        c2.set(k + 1);
                        match (wscript, k) {
                            (0, _) => IoAnswer::Ret(r.count),
                            (1, 0) => IoAnswer::Ret(1.min(r.count)),
                            (1, _) => IoAnswer::Ret(r.count),
                            (2, _) => IoAnswer::Err(libc::EIO),
                            (3, 0) => IoAnswer::Ret(1.min(r.count)),
                            (3, _) => IoAnswer::Err(libc::ENOSPC),
                            (4, 0) => IoAnswer::Err(libc::EINTR),
                            (4, _) => IoAnswer::Ret(r.count),
                            _ => IoAnswer::Ret(0),
                        }
                    });
                    let names = ["full", "short then the rest", "EIO at once", "one byte then ENOSPC", "EINTR then full", "accepts nothing"];
                    let describe = || (format!("{}/{}/fd-write", v.which, what), format!("addr {:#x} len {} sink: {} exact={}", a, len, names[wscript], exact), json!({"layout": layout.regs, "page_size": p, "addr": a, "count": len, "sink": names[wscript], "exact": exact}));
                    t += 1;
                    let r = crate::crash::guarded(v.ctx, &describe, || {
                        with_io_handler(handler, || {
                            if exact {
                                m.write_all_volatile_to(GuestAddress(a), &mut sink, len).is_ok()
                            } else {
                                m.write_volatile_to(GuestAddress(a), &mut sink, len).is_ok()
                            }
                        })
                    });
                    if r.is_none() {
                        continue;
                    }
                    let after = dump();
                    let da = dirty();
                    let rp = || describe().2;
                    judge_all("fd-write", &before, &after, &db, &da, Some(vec![vec![]; before.len()]), vec![vec![]; before.len()], &rp);
                }
            }
        }
    }
    // accessors derived through the region / memory API, then written through
    for (i, reg) in m.iter().enumerate() {
        let n = reg.len() as usize;
        for o in boundary(n, p, thorough) {
            for c in [1usize, 2, p, n - o] {
                if c == 0 || o + c > n {
                    continue;
                }
                for how in 0..5 {
                    set_state(&init);
                    prep(Start::Clean);
                    let before = dump();
                    let db = dirty();
                    let describe = || (format!("{}/{}/derived-slice-write", v.which, what), format!("region {} offset {} count {} via {}", i, o, c, how), json!({"layout": layout.regs, "page_size": p, "region": i, "offset": o, "count": c, "how": how}));
                    t += 1;
                    let data = vec![0xABu8; c];
                    let r = crate::crash::guarded(v.ctx, &describe, || -> Option<Vec<(usize, usize)>> {
                        match how {
                            0 => reg.get_slice(MemoryRegionAddress(o as u64), c).ok().map(|s| {
                                s.write(&data, 0).unwrap();
                                vec![(o, c)]
                            }),
                            1 => m.get_slice(GuestAddress(reg.start_addr().0 + o as u64), c).ok().map(|s| {
                                s.write(&data, 0).unwrap();
                                vec![(o, c)]
                            }),
                            2 => {
                                // VolatileMemory for MmapRegion (Deref target of the guest region)
                                let mr: &vm_memory::MmapRegion<AtomicBitmap> = reg;
                                VolatileMemory::get_slice(mr, o, c).ok().map(|s| {
                                    s.write(&data, 0).unwrap();
                                    vec![(o, c)]
                                })
                            }
                            3 => {
                                let mr: &vm_memory::MmapRegion<AtomicBitmap> = reg;
                                if c >= 2 {
                                    mr.get_ref::<u16>(o).ok().map(|r| {
                                        r.store(0xABAB);
                                        vec![(o, 2)]
                                    })
                                } else {
                                    None
                                }
                            }
                            _ => {
                                let mr: &vm_memory::MmapRegion<AtomicBitmap> = reg;
                                let k = c / 2;
                                if k >= 1 {
                                    mr.get_array_ref::<u16>(o, k).ok().map(|a| {
                                        a.store(k - 1, 0xABAB);
                                        vec![(o + 2 * (k - 1), 2)]
                                    })
                                } else {
                                    None
                                }
                            }
                        }
                    });
                    if let Some(Some(w)) = r {
                        let after = dump();
                        let da = dirty();
                        let mut written: Vec<Vec<(usize, usize)>> = vec![vec![]; before.len()];
                        written[i] = w;
                        let rp = || describe().2;
                        judge_all("derived-slice-write", &before, &after, &db, &da, Some(written), vec![vec![]; before.len()], &rp);
                    }
                }
            }
        }
    }
    // histories: write; harvest/reset; write
    let w1 = c03::Op { route: c03::Route::Write, addr: base + 1, len: p + 1, tag: 3 };
    let w2 = c03::Op { route: c03::Route::WriteObj, addr: base + p as u64, len: 4, tag: 5 };
    for reset_kind in 0..3 {
        set_state(&init);
        prep(Start::Clean);
        let _ = c03::exec(&m, &w1);
        for r in m.iter() {
            match reset_kind {
                0 => r.bitmap().reset(),
                1 => {
                    let _ = r.bitmap().get_and_reset();
                }
                _ => r.bitmap().reset_addr_range(0, p + 1),
            }
        }
        let before = dump();
        let db = dirty();
        let _ = c03::exec(&m, &w2);
        let after = dump();
        let da = dirty();
        let written = split(w2.addr, w2.len.min(layout.run(w2.addr, 4) as usize));
        let rp = || json!({"layout": layout.regs, "page_size": p, "history": ["write", format!("reset kind {}", reset_kind), "write_obj u32"]});
        t += 1;
        judge_all("write;reset;write", &before, &after, &db, &da, Some(written), vec![vec![]; before.len()], &rp);
    }
    t
}

/// Soundness under concurrency (E3): a consumer that harvests the bitmap and copies the pages it
/// was told about must end up with the same bytes as guest memory, for every interleaving of the
/// writer's and the harvester's hooked steps (bitmap RMWs and primitive volatile accesses).
#[cfg(not(feature = "xen"))]
fn migration(ctx: &Ctx) -> (u64, u64) {
    use crate::explore::explore_seq;
    use crate::sched::{run_threads, ThreadBody};
    use std::sync::Mutex;
    use vm_memory::mmap::MmapRegionBuilder;
    let mut schedules = 0u64;
    let mut nodes = 0u64;
    for (kind, off, len) in [("write", 0usize, 8usize), ("write", 4, 4), ("write", 2, 4), ("write", 6, 8), ("write_obj-u64", 8, 8), ("store-u32", 4, 4), ("ref-store-u32", 6, 4), ("array-copy_from-u16", 2, 6), ("read_volatile_from", 3, 5),
        ("write_slice", 3, 6), ("read_exact_volatile_from", 2, 7), ("slice-copy_from-u8", 1, 7), ("slice-copy_from-u32", 4, 8), ("array-store-u16", 6, 2),
        ("copy_to_volatile_slice", 2, 10), ("array-copy_to_volatile_slice-u16", 2, 8),
        // descriptor reads: the kernel stores the bytes inside read(2), which is a scheduling point
        ("fd-read_volatile_from", 3, 6), ("fd-read_exact_volatile_from", 5, 8), ("fd-slice-read_volatile_from", 0, 4), ("fd-two-reads", 2, 9)] {
      // the second thread: a fetch-and-clear consumer, or a thread that clears ANOTHER page of the
      // same bitmap word (by number, or by address range) while the write marks its own
      for second in 0..3usize {
        if second != 0 && off + len > 12 {
            continue;
        }
        let stats = explore_seq(None, |ex| {
            let p = 4usize;
            let region = MmapRegionBuilder::new_with_bitmap(16, AtomicBitmap::new(16, NonZeroUsize::new(p).unwrap()))
                .with_mmap_prot(libc::PROT_READ | libc::PROT_WRITE)
                .with_mmap_flags(libc::MAP_ANONYMOUS | libc::MAP_PRIVATE)
                .build()
                .unwrap();
            let region = Arc::new(GuestRegionMmap::new(region, GuestAddress(0x1000)).unwrap());
            let init: Vec<u8> = (0..16).map(|i| 0x10 + i as u8).collect();
            unsafe { std::ptr::copy_nonoverlapping(init.as_ptr(), region.as_ptr(), 16) };
            let image = Arc::new(Mutex::new(init.clone()));
            let (r1, r2, im2) = (region.clone(), region.clone(), image.clone());
            let data: Vec<u8> = (0..len).map(|i| 0xA0 + i as u8).collect();
            let writer: ThreadBody = Box::new(move || {
                let a = MemoryRegionAddress(off as u64);
                match kind {
                    "write" => {
                        r1.write(&data, a).unwrap();
                    }
                    "write_obj-u64" => r1.write_obj(0xA7A6_A5A4_A3A2_A1A0u64, a).unwrap(),
                    "store-u32" => r1.store(0xA3A2_A1A0u32, a, std::sync::atomic::Ordering::SeqCst).unwrap(),
                    "ref-store-u32" => r1.as_volatile_slice().unwrap().get_ref::<u32>(off).unwrap().store(0xA3A2_A1A0),
                    "array-copy_from-u16" => r1.as_volatile_slice().unwrap().get_array_ref::<u16>(off, 3).unwrap().copy_from(&[0xA1A0, 0xA3A2, 0xA5A4]),
                    "write_slice" => r1.write_slice(&data, a).unwrap(),
                    "read_exact_volatile_from" => {
                        let mut src: &[u8] = &data;
                        r1.read_exact_volatile_from(a, &mut src, len).unwrap();
                    }
                    "slice-copy_from-u8" => r1.as_volatile_slice().unwrap().subslice(off, len).unwrap().copy_from(&data),
                    "slice-copy_from-u32" => r1.as_volatile_slice().unwrap().subslice(off, len).unwrap().copy_from(&[0xA3A2_A1A0u32, 0xA7A6_A5A4]),
                    "array-store-u16" => r1.as_volatile_slice().unwrap().get_array_ref::<u16>(off, 1).unwrap().store(0, 0xA1A0),
                    "copy_to_volatile_slice" | "array-copy_to_volatile_slice-u16" => {
                        // the source is ordinary (untracked) memory, the destination the tracked region
                        let mut foreign = data.clone();
                        // SAFETY: foreign outlives the slice
                        let src = unsafe { VolatileSlice::new(foreign.as_mut_ptr(), len) };
                        let dst = r1.as_volatile_slice().unwrap().subslice(off, len).unwrap();
                        if kind == "copy_to_volatile_slice" {
                            src.copy_to_volatile_slice(dst);
                        } else {
                            src.get_array_ref::<u16>(0, len / 2).unwrap().copy_to_volatile_slice(dst);
                        }
                    }
                    k if k.starts_with("fd-") => {
                        use std::io::{Seek, SeekFrom, Write};
                        use std::os::fd::AsRawFd;
                        let mut f = crate::layouts::tempfile().unwrap();
                        f.write_all(&data).unwrap();
                        f.seek(SeekFrom::Start(0)).unwrap();
                        let fd = f.as_raw_fd();
                        crate::interpose::with_io_handler(
                            Box::new(move |q: &crate::interpose::IoReq| {
                                if q.fd == fd && q.is_read {
                                    crate::sched::step("read(2)");
                                }
                                crate::interpose::IoAnswer::Pass
                            }),
                            || match k {
                                "fd-read_volatile_from" => {
                                    assert_eq!(r1.read_volatile_from(a, &mut f, len).unwrap(), len);
                                }
                                "fd-read_exact_volatile_from" => r1.read_exact_volatile_from(a, &mut f, len).unwrap(),
                                "fd-slice-read_volatile_from" => {
                                    use vm_memory::ReadVolatile;
                                    let mut s = r1.as_volatile_slice().unwrap().subslice(off, len).unwrap();
                                    assert_eq!(f.read_volatile(&mut s).unwrap(), len);
                                }
                                _ => {
                                    // two transfers from one descriptor into neighbouring ranges
                                    assert_eq!(r1.read_volatile_from(a, &mut f, 4).unwrap(), 4);
                                    r1.read_exact_volatile_from(MemoryRegionAddress(off as u64 + 4), &mut f, len - 4).unwrap();
                                }
                            },
                        );
                    }
                    _ => {
                        let mut src: &[u8] = &data;
                        r1.read_volatile_from(a, &mut src, len).unwrap();
                    }
                }
            });
            let harvest = move |r: &GuestRegionMmap<AtomicBitmap>, im: &Mutex<Vec<u8>>| {
                let words = r.bitmap().get_and_reset();
                let mut g = im.lock().unwrap();
                for pg in 0..4usize {
                    if words[0] & (1 << pg) != 0 {
                        for i in pg * 4..pg * 4 + 4 {
                            // SAFETY: inside the 16-byte region
                            g[i] = unsafe { std::ptr::read_volatile(r.as_ptr().add(i)) };
                        }
                    }
                }
            };
            let h2 = harvest;
            if second != 0 {
                region.bitmap().set_bit(3);
            }
            let harvester: ThreadBody = match second {
                0 => Box::new(move || h2(&r2, &im2)),
                1 => Box::new(move || r2.bitmap().reset_bit(3)),
                _ => Box::new(move || r2.bitmap().reset_addr_range(12, 4)),
            };
            let res = run_threads(ex, vec![writer, harvester], 1000);
            if !res.ok() {
                ctx.fail(&format!("C05/migration/{}/no-progress-or-panic", kind), &format!("{:?}", res.panics), json!({"kind": kind, "schedule": ex.current_choices()}));
                return false;
            }
            // final pass after the write has returned
            harvest(&region, &image);
            let mem = unsafe { std::slice::from_raw_parts(region.as_ptr(), 16) }.to_vec();
            let img = image.lock().unwrap().clone();
            if img != mem {
                let key = format!("C05/migration/{}/changed-byte-never-reported-after-the-change{}", kind, ["", " (another page of the word cleared by number meanwhile)", " (another page of the word cleared by range meanwhile)"][second]);
                let rp = if ctx.has_failed(&key) { Value::Null } else { json!({"kind": kind, "offset": off, "len": len, "page_size": 4, "second_thread": (["fetch-and-clear consumer", "reset_bit(3)", "reset_addr_range(12, 4)"][second]), "schedule": ex.current_choices(), "trace": res.normalized()}) };
                ctx.fail(&key, &format!("{} of {} bytes at {}: a consumer that copies every page reported by fetch-and-clear (once during, once after the write) holds {} but guest memory is {}", kind, len, off, hex(&img), hex(&mem)), rp);
                return false;
            }
            true
        });
        schedules += stats.executions;
        nodes += stats.nodes;
      }
    }
    (schedules, nodes)
}

pub fn run(prop: &'static str, tier: Tier, replay: Option<String>) -> i32 {
    let ctx = crate::new_ctx(prop, tier, "model_checking", &replay);
    let thorough = tier.thorough();
    ctx.set_rule("E1, one enumeration judged by two oracles. (A) tracked VolatileSlices (their bitmaps made directly or grown to size by enlarge, in turn; plain RefSlice, RefSlice at a base offset, nested BaseSlice, ArcSlice, Option Some/None) of 16 and 24 bytes x page sizes {1,2,3,4,5,8,16,N+5} x every derivation chain of up to 2 (thorough 3) links (subslice, offset, split_at either half, get_slice, get_ref->to_slice, get_array_ref->to_slice / ref_at->to_slice; arguments from the boundary alphabet of the page size) x every write and read path of the container alphabet through the derived accessor x start bitmaps clean / checkerboard / all dirty; (B) one mmap region and (C) guest memory with two adjacent regions and a hole, page sizes as above: every route of the byte-access interface at every (address, length), descriptor reads through the real raw-fd adapter over interposed read(2) (full, short, failing after touching a prefix, EINTR), descriptor writes out of guest memory over interposed write(2) (full, short, EIO at once, ENOSPC after a prefix, EINTR, accepting nothing: nothing may be marked), accessors derived through the region/memory API, and write;reset;write histories; all histories of 3 (thorough 5) steps over an alphabet of 18 memory / reset / harvest / reset-range / reset-bit operations with memory and bitmap carried over (also on containers of 136 / 200 / 528 bytes whose bitmaps span two or three 64-page words, with writes and resets straddling the word boundary); single transfers of 64 KiB .. 128 KiB+1 through nine routes into a tracked container of 256 KiB with 4096- and 1000-byte pages. C05: every byte that differs from the pre-operation snapshot must be dirty in the owning region's bitmap at the region's own offset, and over a history a page that was written stays dirty until an operation that names it clears it; plus (E3) all interleavings of one tracked write (20 write paths, incl. the typed and the slice-to-slice copies and reads from a real descriptor with read(2) as a scheduling point) with one fetch-and-clear consumer that copies the reported pages, or with a thread that clears another (pre-marked) page of the same bitmap word by number or by range - after a final pass the consumer's image must equal guest memory. C16: dirty-after == dirty-before U pages overlapping the bytes the reference model says were written, and in the histories a reset / reset-range / fetch-and-clear leaves exactly the other pages dirty and reports exactly what was dirty (a failing descriptor read may additionally mark its whole target). State = (memory contents, dirty set); every transition runs on the real objects.");
    ctx.assume("raw-pointer writes are exempt as documented; marks through a bare BaseSlice with wrapping offsets are outside both oracles");
    if ctx.replay_of.is_some() {
        println!("replay: the enumeration is deterministic; re-running the quick tier and reporting whether the recorded key fails again");
    }
    let v = Verdicts { ctx: &ctx, which: prop, states: (0..64).map(|_| std::sync::Mutex::new(std::collections::HashSet::new())).collect() };
    let total = std::sync::atomic::AtomicU64::new(0);
    std::thread::scope(|s| {
        let v = &v;
        let total = &total;
        for n in [16usize, 24] {
            for p in [1usize, 2, 3, 4, 5, 8, 16, n + 5] {
                if !thorough && n == 24 && !(p == 4 || p == 5) {
                    continue;
                }
                s.spawn(move || {
                    let t0 = std::time::Instant::now();
                    let t = part_a(v, n, p, thorough);
                    if std::env::var("VERIF_TIMING").is_ok() { eprintln!("part_a n={} p={} t={} {:.1}s", n, p, t, t0.elapsed().as_secs_f64()); }
                    total.fetch_add(t, std::sync::atomic::Ordering::Relaxed);
                });
            }
        }
        for p in [4096usize, 1000] {
            s.spawn(move || {
                let t = big_writes(v, p);
                total.fetch_add(t, std::sync::atomic::Ordering::Relaxed);
            });
        }
        for (n, p) in [(136usize, 1usize), (200, 3), (66 * 8, 8)] {
            s.spawn(move || {
                let t = part_large(v, n, p, if thorough { 4 } else { 3 });
                total.fetch_add(t, std::sync::atomic::Ordering::Relaxed);
            });
        }
        #[cfg(not(feature = "xen"))]
        for p in [1usize, 2, 3, 4, 5, 8, 16, 29] {
            s.spawn(move || {
                let l1 = Layout { regs: vec![(0x1000, 13)] };
                let l2 = Layout { regs: vec![(0x1000, 12), (0x100c, 11), (0x1018, 3)] };
                let t0 = std::time::Instant::now();
                let t = part_bc(v, &l1, p, true) + part_bc(v, &l2, p, true);
                if std::env::var("VERIF_TIMING").is_ok() { eprintln!("part_bc p={} t={} {:.1}s", p, t, t0.elapsed().as_secs_f64()); }
                total.fetch_add(t, std::sync::atomic::Ordering::Relaxed);
            });
        }
    });
    #[cfg(not(feature = "xen"))]
    if prop == "C05" {
        let (schedules, nodes) = migration(&ctx);
        ctx.add_traces(schedules);
        ctx.add_states(nodes);
        ctx.add_transitions(nodes);
        ctx.extra("migration_schedules", json!(schedules));
    }
    let t = total.load(std::sync::atomic::Ordering::Relaxed);
    ctx.add_transitions(t);
    ctx.add_traces(t);
    ctx.add_states(v.states.iter().map(|s| s.lock().unwrap().len() as u64).sum());
    ctx.sample(json!({"root": "slice/RefSlice N=24 page 4", "chain": "[Offset(3), SplitRight(5)]", "op": "RefStore { ty: U32, off: 3 }", "expected": "bytes 11..15 change; C05: pages 2,3 dirty; C16: exactly pages 2,3 added"}));
    ctx.sample(json!({"root": "guest-memory [0x1000,+12) [0x100c,+11) [0x1018,+3) page 5", "op": "fd-read addr 0x100a count 8, read(2) fails with EIO after storing 1 byte", "expected": "C05: the changed byte is dirty; C16: at most the pages of the 8-byte target are added"}));
    let _ = hex(&[]);
    ctx.set_exhaustive(true);
    ctx.finish()
}
