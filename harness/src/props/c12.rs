//! C12 — a mapping lives exactly as long as something can still reach it (E1 + interposed mmap log).
//! (The compile-fail grid for the "programs" half of the property is tools/cfail.py.)

use crate::interpose::{start_recording, stop_recording, take_log, MapEvent};
use crate::report::{Ctx, Tier};
use serde_json::json;
use std::collections::{HashSet, VecDeque};
use std::sync::Arc;
use vm_memory::{GuestAddress, GuestAddressSpace, GuestMemory, GuestMemoryAtomic, GuestMemoryLoadGuard, GuestMemoryMmap, GuestMemoryRegion, GuestRegionMmap};

type Reg = GuestRegionMmap<()>;
type Mem = GuestMemoryMmap<()>;

const SIZE: usize = 8192;

/// Region size per slot: a page multiple, a non-multiple and less than a page.
fn size_of_slot(slot: usize) -> usize {
    [SIZE, 0x1800, 100][slot % 3]
}

#[derive(Clone, Copy, Debug, PartialEq, Eq, Hash, PartialOrd, Ord)]
pub enum Kind {
    OwnedAnon,
    OwnedFile,
    ExternalRaw,
    ExternalRawFile,
    XenUnix,
    XenGrant,
    XenForeign,
}

impl Kind {
    fn owned(self) -> bool {
        !matches!(self, Kind::ExternalRaw | Kind::ExternalRawFile)
    }
}

#[derive(Clone, Debug, PartialEq, Eq, Hash)]
pub enum Op {
    Create(Kind),
    /// build a map from the stand-alone region handles with these indices
    Build(Vec<usize>),
    Insert { map: usize, region: usize },
    Remove { map: usize, slot: usize },
    CloneMap(usize),
    /// overwrite the map `dst` with the contents of the map `src` through Clone::clone_from
    CloneFrom { dst: usize, src: usize },
    MakeAtomic(usize),
    Snapshot(usize),
    CloneHandle(usize),
    /// publish a (clone of a) map through a replaceable memory: the map published before loses
    /// one owner
    Replace { atomic: usize, map: usize },
    Drop(usize),
}

enum Handle {
    Region(Arc<Reg>, usize),
    Map(Mem),
    Atomic(GuestMemoryAtomic<Mem>),
    Snap(GuestMemoryLoadGuard<Mem>),
}

struct Inst {
    kind: Kind,
    /// length of the mapping the library made for this region
    map_len: usize,
    ptr: usize,
    /// the mmap log entries [log_start, born) were made while the library created this region
    log_start: usize,
    born: usize,
    tag: u8,
    /// external mappings are owned by the harness
    external: Option<(usize, usize)>,
    #[cfg(feature = "xen")]
    grant_index: Option<(u64, u32, usize)>, // device index, pages, position in the device log
}

struct World {
    handles: Vec<Handle>,
    insts: Vec<Inst>, // slot = index
    log: Vec<MapEvent>,
    /// region size used instead of the per-slot default (size sweep)
    size_override: Option<usize>,
    #[cfg(feature = "xen")]
    emu: crate::xen_emu::Emu,
    #[cfg(feature = "xen")]
    devlog: Vec<crate::xen_emu::DevEvent>,
}

fn slots_of_map(m: &Mem) -> Vec<usize> {
    m.iter().map(|r| (r.start_addr().0 / 0x10_0000) as usize - 1).collect()
}

impl World {
    fn new() -> World {
        // the library's mappings are placed in the reserved arena (see interpose.rs): a munmap
        // that is too long hits reserved pages, not the neighbours the kernel would have chosen
        crate::interpose::place_in_arena(true);
        World {
            handles: Vec::new(),
            insts: Vec::new(),
            log: Vec::new(),
            size_override: None,
            #[cfg(feature = "xen")]
            emu: crate::xen_emu::Emu::new(0x500),
            #[cfg(feature = "xen")]
            devlog: Vec::new(),
        }
    }

    fn sync_log(&mut self) {
        self.log.extend(take_log());
        #[cfg(feature = "xen")]
        {
            let l = self.emu.take_log();
            self.devlog.extend(l);
        }
    }

    fn slots(&self, h: &Handle) -> Vec<usize> {
        match h {
            Handle::Region(_, s) => vec![*s],
            Handle::Map(m) => slots_of_map(m),
            Handle::Atomic(a) => slots_of_map(&a.memory()),
            Handle::Snap(s) => slots_of_map(s),
        }
    }

    fn create(&mut self, kind: Kind) -> Result<(), String> {
        let slot = self.insts.len();
        let size = self.size_override.unwrap_or_else(|| size_of_slot(slot));
        let base = GuestAddress(0x10_0000 * (slot as u64 + 1));
        let tag = 0x40 + slot as u8;
        self.sync_log();
        let log_start = self.log.len();
        let mut external = None;
        #[cfg(feature = "xen")]
        let mut grant_index = None;
        let region: Reg = match kind {
            #[cfg(not(feature = "xen"))]
            Kind::OwnedAnon => {
                if slot % 2 == 0 {
                    GuestRegionMmap::from_range(base, size, None).map_err(|e| format!("{:?}", e))?
                } else {
                    // (every other anonymous region: the hint cleared, or set and cleared again,
                    // on the finished region)
                    let mut r = vm_memory::MmapRegion::new(size).map_err(|e| format!("{:?}", e))?;
                    if slot % 4 == 3 {
                        r.set_hugetlbfs(true);
                    }
                    r.set_hugetlbfs(false);
                    GuestRegionMmap::new(r, base).map_err(|e| format!("{:?}", e))?
                }
            }
            #[cfg(not(feature = "xen"))]
            Kind::OwnedFile => {
                let f = crate::layouts::tempfile().unwrap();
                f.set_len(SIZE.max(size) as u64).unwrap();
                let fo = vm_memory::FileOffset::new(f, 0);
                // the construction route rotates with the slot: the convenience constructor, the
                // builder with the hugetlbfs hint, and the hint set on the finished region (a
                // hint does not change what was mapped, so not what has to be unmapped either)
                match (slot + self.size_override.map_or(0, |s| s % 5)) % 5 {
                    0 => GuestRegionMmap::from_range(base, size, Some(fo)).map_err(|e| format!("{:?}", e))?,
                    1 => {
                        let r = vm_memory::mmap::MmapRegionBuilder::new(size)
                            .with_file_offset(fo)
                            .with_mmap_prot(libc::PROT_READ | libc::PROT_WRITE)
                            .with_mmap_flags(libc::MAP_SHARED | libc::MAP_NORESERVE)
                            .with_hugetlbfs(true)
                            .build()
                            .map_err(|e| format!("{:?}", e))?;
                        GuestRegionMmap::new(r, base).map_err(|e| format!("{:?}", e))?
                    }
                    2 => {
                        let mut r = vm_memory::MmapRegion::from_file(fo, size).map_err(|e| format!("{:?}", e))?;
                        r.set_hugetlbfs(true);
                        GuestRegionMmap::new(r, base).map_err(|e| format!("{:?}", e))?
                    }
                    3 => {
                        let mut r = vm_memory::MmapRegion::from_file(fo, size).map_err(|e| format!("{:?}", e))?;
                        r.set_hugetlbfs(false);
                        GuestRegionMmap::new(r, base).map_err(|e| format!("{:?}", e))?
                    }
                    _ => {
                        let mut r = vm_memory::mmap::MmapRegionBuilder::new(size)
                            .with_file_offset(fo)
                            .with_mmap_prot(libc::PROT_READ | libc::PROT_WRITE)
                            .with_mmap_flags(libc::MAP_SHARED | libc::MAP_NORESERVE)
                            .with_hugetlbfs(false)
                            .build()
                            .map_err(|e| format!("{:?}", e))?;
                        r.set_hugetlbfs(true);
                        r.set_hugetlbfs(false);
                        GuestRegionMmap::new(r, base).map_err(|e| format!("{:?}", e))?
                    }
                }
            }
            #[cfg(not(feature = "xen"))]
            Kind::ExternalRaw | Kind::ExternalRawFile => {
                use std::os::fd::AsRawFd;
                use vm_memory::mmap::MmapRegionBuilder;
                let file = (kind == Kind::ExternalRawFile).then(|| {
                    let f = crate::layouts::tempfile().unwrap();
                    f.set_len(SIZE as u64).unwrap();
                    f
                });
                // the harness owns this mapping; it is created while recording is paused
                let log_before = stop_recording();
                self.log.extend(log_before);
                // SAFETY: plain mmap
                let p = unsafe {
                    match &file {
                        Some(f) => libc::mmap(std::ptr::null_mut(), SIZE, libc::PROT_READ | libc::PROT_WRITE, libc::MAP_SHARED, f.as_raw_fd(), 0),
                        None => libc::mmap(std::ptr::null_mut(), SIZE, libc::PROT_READ | libc::PROT_WRITE, libc::MAP_PRIVATE | libc::MAP_ANONYMOUS, -1, 0),
                    }
                };
                assert!(p != libc::MAP_FAILED);
                start_recording_keep();
                external = Some((p as usize, SIZE));
                let mut b = MmapRegionBuilder::new(size).with_mmap_prot(libc::PROT_READ | libc::PROT_WRITE).with_mmap_flags(if file.is_some() { libc::MAP_SHARED } else { libc::MAP_PRIVATE | libc::MAP_ANONYMOUS });
                if let Some(f) = file {
                    b = b.with_file_offset(vm_memory::FileOffset::new(f, 0));
                }
                // SAFETY: p is a valid mapping of SIZE bytes that outlives the region
                let mut r = unsafe { b.with_raw_mmap_pointer(p as *mut u8) }.build().map_err(|e| format!("{:?}", e))?;
                // (the hint set or cleared afterwards makes an external mapping no more the
                // library's own than it was)
                if slot % 3 != 0 {
                    r.set_hugetlbfs(slot % 3 == 1);
                }
                GuestRegionMmap::new(r, base).map_err(|e| format!("{:?}", e))?
            }
            #[cfg(feature = "xen")]
            Kind::XenUnix => GuestRegionMmap::from_range(base, size, None).map_err(|e| format!("{:?}", e))?,
            #[cfg(feature = "xen")]
            Kind::XenGrant => {
                let first_page = 0x100 * (slot as u64 + 1); // guest address 0x10_0000 * (slot + 1)
                // the guest address of a grant region decides its grant references
                self.emu.take_log();
                let r = self.emu.grant_region(first_page, SIZE, false)?;
                // the device chose the index of the window
                let evs = self.emu.take_log();
                self.devlog.extend(evs.iter().cloned());
                let made: Vec<u64> = evs.iter().filter_map(|e| match e {
                    crate::xen_emu::DevEvent::MapGrant { index, first_ref, count: 2, ok: true } if *first_ref as u64 == first_page => Some(*index),
                    _ => None,
                }).collect();
                if made.len() != 1 {
                    return Err(format!("grant region creation made {} map requests", made.len()));
                }
                grant_index = Some((made[0], 2, self.devlog.len()));
                // re-base to the slot's guest address is not possible for grant regions; keep the device address
                let _ = base;
                r
            }
            #[cfg(feature = "xen")]
            Kind::XenForeign => self.emu.foreign_region(base.0, SIZE)?,
            #[allow(unreachable_patterns)]
            _ => return Err("kind not available in this build".into()),
        };
        // SAFETY: region is mapped
        unsafe { std::ptr::write_volatile(region.as_ptr(), tag) };
        self.sync_log();
        let born = self.log.len();
        self.insts.push(Inst {
            kind,
            // grant / foreign mappings are made in whole pages and are created with SIZE bytes here
            map_len: if matches!(kind, Kind::XenGrant | Kind::XenForeign) { SIZE } else { size },
            ptr: region.as_ptr() as usize,
            log_start,
            born,
            tag,
            external,
            #[cfg(feature = "xen")]
            grant_index,
        });
        self.handles.push(Handle::Region(Arc::new(region), slot));
        Ok(())
    }

    fn region_arc(&self, slot: usize) -> Option<Arc<Reg>> {
        for h in &self.handles {
            match h {
                Handle::Region(a, s) if *s == slot => return Some(a.clone()),
                _ => {}
            }
        }
        None
    }

    /// Applies `op`; Ok(false) = not applicable in this state.
    fn apply(&mut self, op: &Op) -> Result<bool, String> {
        match op {
            Op::Create(k) => {
                if self.insts.len() >= 3 {
                    return Ok(false);
                }
                self.create(*k)?;
            }
            Op::Build(idx) => {
                let mut regs: Vec<(u64, Arc<Reg>)> = Vec::new();
                for i in idx {
                    match self.handles.get(*i) {
                        Some(Handle::Region(a, _)) => regs.push((a.start_addr().0, a.clone())),
                        _ => return Ok(false),
                    }
                }
                if regs.is_empty() {
                    return Ok(false);
                }
                regs.sort_by_key(|r| r.0);
                let m = GuestMemoryMmap::from_arc_regions(regs.into_iter().map(|r| r.1).collect()).map_err(|e| format!("{:?}", e))?;
                self.handles.push(Handle::Map(m));
            }
            Op::Insert { map, region } => {
                let r = match self.handles.get(*region) {
                    Some(Handle::Region(a, _)) => a.clone(),
                    _ => return Ok(false),
                };
                let new = match self.handles.get(*map) {
                    Some(Handle::Map(m)) => {
                        if m.iter().any(|x| x.start_addr() == r.start_addr()) {
                            return Ok(false);
                        }
                        m.insert_region(r).map_err(|e| format!("{:?}", e))?
                    }
                    _ => return Ok(false),
                };
                self.handles.push(Handle::Map(new));
            }
            Op::Remove { map, slot } => {
                let (new, removed) = match self.handles.get(*map) {
                    Some(Handle::Map(m)) => {
                        let r = match m.iter().find(|r| slots_of_start(r.start_addr().0) == *slot) {
                            Some(r) => (r.start_addr(), r.len()),
                            None => return Ok(false),
                        };
                        m.remove_region(r.0, r.1).map_err(|e| format!("{:?}", e))?
                    }
                    _ => return Ok(false),
                };
                self.handles.push(Handle::Map(new));
                self.handles.push(Handle::Region(removed, *slot));
            }
            Op::CloneMap(i) => match self.handles.get(*i) {
                Some(Handle::Map(m)) => {
                    let c = m.clone();
                    self.handles.push(Handle::Map(c));
                }
                _ => return Ok(false),
            },
            Op::CloneFrom { dst, src } => {
                let from = match self.handles.get(*src) {
                    Some(Handle::Map(m)) => m.clone(),
                    _ => return Ok(false),
                };
                match self.handles.get_mut(*dst) {
                    Some(Handle::Map(d)) if dst != src => d.clone_from(&from),
                    _ => return Ok(false),
                }
            }
            Op::MakeAtomic(i) => match self.handles.get(*i) {
                Some(Handle::Map(m)) => {
                    if m.num_regions() == 0 {
                        return Ok(false);
                    }
                    let a = GuestMemoryAtomic::new(m.clone());
                    self.handles.push(Handle::Atomic(a));
                }
                _ => return Ok(false),
            },
            Op::Snapshot(i) => match self.handles.get(*i) {
                Some(Handle::Atomic(a)) => {
                    let s = a.memory();
                    self.handles.push(Handle::Snap(s));
                }
                _ => return Ok(false),
            },
            Op::Replace { atomic, map } => {
                let m = match self.handles.get(*map) {
                    Some(Handle::Map(m)) if m.num_regions() > 0 => m.clone(),
                    _ => return Ok(false),
                };
                match self.handles.get(*atomic) {
                    Some(Handle::Atomic(a)) => a.lock().map_err(|e| format!("{:?}", e))?.replace(m),
                    _ => return Ok(false),
                }
            }
            Op::CloneHandle(i) => match self.handles.get(*i) {
                Some(Handle::Atomic(a)) => {
                    let c = a.clone();
                    self.handles.push(Handle::Atomic(c));
                }
                Some(Handle::Snap(s)) => {
                    let c = s.clone();
                    self.handles.push(Handle::Snap(c));
                }
                Some(Handle::Region(a, s)) => {
                    let c = (a.clone(), *s);
                    self.handles.push(Handle::Region(c.0, c.1));
                }
                _ => return Ok(false),
            },
            Op::Drop(i) => {
                if *i >= self.handles.len() {
                    return Ok(false);
                }
                // every other drop happens while a (caught) panic unwinds: an owner that dies
                // that way releases its mapping like any other
                let unwinding = (*i + self.handles.len() + self.insts.len()) % 2 == 1;
                // before a region handle goes away it is offered once more to every map that
                // already holds this very region: the insertion is refused (the region overlaps
                // itself), and a refused insertion leaves every owner's share as it was
                if let Handle::Region(a, _) = &self.handles[*i] {
                    for h in &self.handles {
                        if let Handle::Map(m) = h {
                            if m.iter().any(|x| std::ptr::eq(x as *const Reg, Arc::as_ptr(a))) {
                                if let Ok(mm) = m.insert_region(a.clone()) {
                                    drop(mm);
                                    return Err("a map accepted a region it already holds".to_string());
                                }
                            }
                        }
                    }
                }
                let h = self.handles.remove(*i);
                drop_handle(h, unwinding);
            }
        }
        let _ = self.region_arc(0);
        Ok(true)
    }

    /// The invariant: mapped iff an owner is alive; released exactly once with the right extent.
    fn check(&mut self) -> Result<(), (String, String)> {
        // every owner can still read the region through the library (not only through the raw
        // pointer): a non-empty access through each live handle
        {
            use vm_memory::Bytes;
            // a map reaches exactly the regions it holds: the guest range of every region it does
            // NOT hold (removed from it, never inserted, or gone altogether) resolves to nothing.
            // Asked before anything else is looked up through the map.
            for h in &self.handles {
                let (held, stray): (Vec<u64>, Vec<(u64, bool)>) = {
                    let probe = |m: &Mem| -> (Vec<u64>, Vec<(u64, bool)>) {
                        let held: Vec<u64> = m.iter().map(|r| r.start_addr().0).collect();
                        let mut stray = Vec::new();
                        for slot in 0..self.insts.len() {
                            let base = 0x10_0000 * (slot as u64 + 1);
                            if !held.contains(&base) {
                                for d in [8u64, 0] {
                                    stray.push((base + d, m.find_region(GuestAddress(base + d)).is_some() || m.read_obj::<u8>(GuestAddress(base + d)).is_ok()));
                                }
                            }
                        }
                        (held, stray)
                    };
                    match h {
                        Handle::Map(m) => probe(m),
                        Handle::Atomic(a) => probe(&a.memory()),
                        Handle::Snap(m) => probe(m),
                        _ => (vec![], vec![]),
                    }
                };
                let _ = held;
                if let Some((a, _)) = stray.iter().find(|x| x.1) {
                    return Err(("map-resolves-a-region-it-does-not-hold".to_string(), format!("guest address {:#x} resolves through a map that does not hold the region there", a)));
                }
            }
            for h in &self.handles {
                let reads: Vec<(u64, Result<u8, String>)> = match h {
                    Handle::Region(r, _) => vec![(r.start_addr().0, r.read_obj::<u8>(vm_memory::MemoryRegionAddress(0)).map_err(|e| format!("{:?}", e)))],
                    Handle::Map(m) => m.iter().map(|r| (r.start_addr().0, m.read_obj::<u8>(r.start_addr()).map_err(|e| format!("{:?}", e)))).collect(),
                    Handle::Atomic(a) => {
                        let m = a.memory();
                        m.iter().map(|r| (r.start_addr().0, m.read_obj::<u8>(r.start_addr()).map_err(|e| format!("{:?}", e)))).collect()
                    }
                    Handle::Snap(m) => m.iter().map(|r| (r.start_addr().0, m.read_obj::<u8>(r.start_addr()).map_err(|e| format!("{:?}", e)))).collect(),
                };
                for (start, r) in reads {
                    let slot = slots_of_start(start);
                    let inst = &self.insts[slot];
                    match r {
                        Ok(t) => {
                            if t != inst.tag && inst.kind != Kind::XenForeign {
                                return Err((format!("{:?}/read-through-owner-wrong", inst.kind), format!("slot {} read {:#x} through a live owner, expected {:#x}", slot, t, inst.tag)));
                            }
                        }
                        Err(e) => return Err((format!("{:?}/read-through-owner-failed", inst.kind), format!("slot {}: {}", slot, e))),
                    }
                }
            }
        }
        self.sync_log();
        let mut alive: HashSet<usize> = HashSet::new();
        for h in &self.handles {
            alive.extend(self.slots(h));
        }
        for (slot, inst) in self.insts.iter().enumerate() {
            // munmap calls for this instance: from its creation until the address is handed out
            // again by a later mmap (the kernel reuses addresses)
            let mut unmaps: Vec<&MapEvent> = Vec::new();
            for e in &self.log[inst.born..] {
                match e {
                    MapEvent::Unmap { addr, .. } if *addr == inst.ptr => unmaps.push(e),
                    MapEvent::Map { addr, ok: true, .. } if *addr == inst.ptr => break,
                    _ => {}
                }
            }
            let kind = format!("{:?}", inst.kind);
            if !inst.kind.owned() {
                if !unmaps.is_empty() {
                    return Err((format!("{}/external-mapping-unmapped-by-the-library", kind), format!("slot {}: {:?}", slot, unmaps)));
                }
                continue;
            }
            if alive.contains(&slot) {
                if !unmaps.is_empty() {
                    return Err((format!("{}/unmapped-while-an-owner-is-alive", kind), format!("slot {} still has owners but was passed to munmap: {:?}", slot, unmaps)));
                }
                // readable through the mapping
                let t = unsafe { std::ptr::read_volatile(inst.ptr as *const u8) };
                let t2 = unsafe { std::ptr::read_volatile((inst.ptr + inst.map_len - 1) as *const u8) };
                let _ = t2;
                // (emulated foreign mappings all alias offset 0 of the device file: tag not compared)
                if t != inst.tag && inst.kind != Kind::XenForeign {
                    return Err((format!("{}/memory-changed", kind), format!("slot {} reads {:#x}, expected {:#x}", slot, t, inst.tag)));
                }
            } else {
                if unmaps.len() != 1 {
                    return Err((format!("{}/not-released-exactly-once", kind), format!("slot {} has no owner left; it was passed to munmap {} time(s)", slot, unmaps.len())));
                }
                if let MapEvent::Unmap { len, ret, .. } = unmaps[0] {
                    if *len != inst.map_len || *ret != 0 {
                        return Err((format!("{}/released-with-wrong-extent", kind), format!("slot {}: munmap(len {}) returned {}, mapped length is {}", slot, len, ret, inst.map_len)));
                    }
                }
                #[cfg(feature = "xen")]
                if let Some((index, count, dev_born)) = inst.grant_index {
                    // (the device hands a released index out again)
                    let n = self.devlog[dev_born..].iter().take_while(|e| !matches!(e, crate::xen_emu::DevEvent::MapGrant { index: i, ok: true, .. } if *i == index)).filter(|e| matches!(e, crate::xen_emu::DevEvent::UnmapGrant { index: i, count: c, ok: true } if *i == index && *c == count)).count();
                    if n != 1 {
                        return Err((format!("{}/grant-not-released-exactly-once", kind), format!("slot {}: {} unmap-grant requests for index {:#x} count {}", slot, n, index, count)));
                    }
                }
            }
        }
        // address-space accounting: replay the whole mapping log; every page the library mapped
        // while creating a region belongs to that region, and once its last owner is gone none
        // of them may still be mapped (whatever the library mapped around the region counts)
        {
            let pg = |x: usize| (x + 4095) / 4096 * 4096;
            let mut space: Vec<(usize, usize, Option<usize>)> = Vec::new(); // [start, end) -> slot
            let cut = |space: &mut Vec<(usize, usize, Option<usize>)>, a: usize, b: usize| {
                let mut out = Vec::with_capacity(space.len() + 1);
                for &(s, e, o) in space.iter() {
                    if e <= a || b <= s {
                        out.push((s, e, o));
                    } else {
                        if s < a {
                            out.push((s, a, o));
                        }
                        if b < e {
                            out.push((b, e, o));
                        }
                    }
                }
                *space = out;
            };
            for (i, e) in self.log.iter().enumerate() {
                match e {
                    MapEvent::Map { addr, len, ok: true, .. } => {
                        let owner = self.insts.iter().position(|x| x.log_start <= i && i < x.born);
                        cut(&mut space, *addr, pg(*addr + *len));
                        space.push((*addr, pg(*addr + *len), owner));
                    }
                    MapEvent::Unmap { addr, len, ret: 0 } => cut(&mut space, *addr, pg(*addr + *len)),
                    _ => {}
                }
            }
            for (slot, inst) in self.insts.iter().enumerate() {
                if !inst.kind.owned() {
                    continue;
                }
                let mine: Vec<(usize, usize)> = space.iter().filter(|x| x.2 == Some(slot)).map(|x| (x.0, x.1)).collect();
                let bytes: usize = mine.iter().map(|x| x.1 - x.0).sum();
                if alive.contains(&slot) {
                    let want = (inst.ptr / 4096 * 4096, pg(inst.ptr + inst.map_len));
                    let covered: usize = mine.iter().map(|x| x.1.min(want.1).saturating_sub(x.0.max(want.0))).sum();
                    if covered != want.1 - want.0 {
                        return Err((format!("{:?}/partly-unmapped-while-an-owner-is-alive", inst.kind), format!("slot {}: only {:#x} of the {:#x} bytes of the region are still mapped", slot, covered, want.1 - want.0)));
                    }
                } else if bytes != 0 {
                    return Err((format!("{:?}/address-space-leaked", inst.kind), format!("slot {} (size {:#x}) has no owner left, but {:#x} bytes the library mapped while creating it are still mapped: {:x?}", slot, inst.map_len, bytes, mine)));
                }
            }
        }
        #[cfg(feature = "xen")]
        {
            let pe = std::mem::take(&mut self.emu.state.borrow_mut().protocol_errors);
            if !pe.is_empty() {
                return Err(("device-protocol".into(), format!("{:?}", pe)));
            }
        }
        Ok(())
    }

    fn key(&self) -> Vec<(u8, Vec<(usize, Kind)>)> {
        let mut k: Vec<(u8, Vec<(usize, Kind)>)> = self
            .handles
            .iter()
            .map(|h| {
                let t = match h {
                    Handle::Region(..) => 0u8,
                    Handle::Map(_) => 1,
                    Handle::Atomic(_) => 2,
                    Handle::Snap(_) => 3,
                };
                (t, self.slots(h).into_iter().map(|s| (s, self.insts[s].kind)).collect())
            })
            .collect();
        k.sort();
        // regions that exist but have no handle any more are part of the state as well
        k.push((9, self.insts.iter().enumerate().map(|(i, x)| (i, x.kind)).collect()));
        k
    }

    fn finish(mut self) -> Result<(), (String, String)> {
        // drop everything: nothing owned may stay mapped
        while let Some(h) = self.handles.pop() {
            let unwinding = (self.handles.len() + self.insts.len()) % 2 == 0;
            drop_handle(h, unwinding);
        }
        let r = self.check();
        let tail = stop_recording();
        self.log.extend(tail);
        for inst in &self.insts {
            if let Some((p, l)) = inst.external {
                // SAFETY: the harness' own mapping
                unsafe { libc::munmap(p as *mut _, l) };
            }
        }
        r
    }
}

/// Drops an owner, either normally or as a local of a frame that a panic unwinds (the panic is
/// caught right away and printed nowhere).
fn drop_handle(h: Handle, unwinding: bool) {
    if !unwinding {
        drop(h);
        return;
    }
    struct Probe;
    let _ = crate::crash::quiet_unwind(move || {
        let _dies_while_unwinding = h;
        std::panic::panic_any(Probe);
    });
}

fn slots_of_start(start: u64) -> usize {
    (start / 0x10_0000) as usize - 1
}

fn start_recording_keep() {
    // resume recording without clearing what is already collected
    crate::interpose::record_resume();
}

fn ops_for(w: &World, kinds: &[Kind]) -> Vec<Op> {
    let mut v = Vec::new();
    if w.insts.len() < 3 {
        for k in kinds {
            v.push(Op::Create(*k));
        }
    }
    let regions: Vec<usize> = w.handles.iter().enumerate().filter(|(_, h)| matches!(h, Handle::Region(..))).map(|(i, _)| i).collect();
    let maps: Vec<usize> = w.handles.iter().enumerate().filter(|(_, h)| matches!(h, Handle::Map(_))).map(|(i, _)| i).collect();
    // build from every non-empty subset of distinct-slot region handles (<= 3 regions)
    let n = regions.len().min(4);
    for mask in 1u32..(1 << n) {
        let idx: Vec<usize> = (0..n).filter(|b| mask & (1 << b) != 0).map(|b| regions[b]).collect();
        let mut slots: Vec<usize> = idx.iter().map(|i| if let Handle::Region(_, s) = &w.handles[*i] { *s } else { 0 }).collect();
        slots.sort();
        slots.dedup();
        if slots.len() == idx.len() {
            v.push(Op::Build(idx));
        }
    }
    for &m in &maps {
        for &r in &regions {
            v.push(Op::Insert { map: m, region: r });
        }
        for s in 0..w.insts.len() {
            v.push(Op::Remove { map: m, slot: s });
        }
        v.push(Op::CloneMap(m));
        v.push(Op::MakeAtomic(m));
    }
    for (i, h) in w.handles.iter().enumerate() {
        match h {
            Handle::Atomic(_) => {
                v.push(Op::Snapshot(i));
                v.push(Op::CloneHandle(i));
                for &m in &maps {
                    v.push(Op::Replace { atomic: i, map: m });
                }
            }
            Handle::Snap(_) => v.push(Op::CloneHandle(i)),
            _ => {}
        }
        v.push(Op::Drop(i));
    }
    v
}

fn explore(ctx: &Ctx, kinds: &[Kind], depth: usize, max_handles: usize) {
    let mut seen: HashSet<Vec<(u8, Vec<(usize, Kind)>)>> = HashSet::new();
    let mut frontier: VecDeque<Vec<Op>> = VecDeque::new();
    frontier.push_back(vec![]);
    let mut transitions = 0u64;
    let mut max_depth = 0;
    while let Some(hist) = frontier.pop_front() {
        start_recording();
        let mut w = World::new();
        let mut ok = true;
        let mut violated = false;
        let describe = || (format!("C12/history"), format!("{:?}", hist), json!({"history": format!("{:?}", hist)}));
        let r = crate::crash::guarded(ctx, &describe, || {
            for (i, op) in hist.iter().enumerate() {
                match w.apply(op) {
                    Ok(true) => {}
                    Ok(false) => {
                        ok = false;
                        break;
                    }
                    Err(e) => {
                        ctx.fail("C12/operation-refused", &format!("{:?} in {:?}: {}", op, hist, e), json!({"history": format!("{:?}", hist)}));
                        ok = false;
                        break;
                    }
                }
                // the invariant is checked after every step of the history
                if i + 1 == hist.len() {
                    if let Err((k, d)) = w.check() {
                        ctx.fail(&format!("C12/{}", k), &format!("after {:?}: {}", hist, d), json!({"history": format!("{:?}", hist)}));
                        violated = true;
                    }
                }
            }
        });
        if r.is_none() {
            stop_recording();
            continue;
        }
        if !ok || violated {
            let _ = crate::crash::guarded(ctx, &describe, || w.finish());
            continue;
        }
        transitions += 1;
        max_depth = max_depth.max(hist.len());
        let key = w.key();
        let expand = seen.insert(key) && hist.len() < depth && w.handles.len() <= max_handles;
        let next_ops = if expand { ops_for(&w, kinds) } else { vec![] };
        if ctx.sample_n() < 5 && hist.len() == depth.min(5) && w.handles.len() >= 2 {
            ctx.sample(json!({"history": format!("{:?}", hist), "handles_alive": w.handles.len()}));
        }
        // end of history: drop everything in the remaining order; nothing may stay mapped
        if let Some(Err((k, d))) = crate::crash::guarded(ctx, &describe, || w.finish()) {
            ctx.fail(&format!("C12/{}", k), &format!("after {:?} and dropping all handles: {}", hist, d), json!({"history": format!("{:?}", hist), "then": "drop all"}));
        }
        for op in next_ops {
            let mut h = hist.clone();
            h.push(op);
            frontier.push_back(h);
        }
        if ctx.n_findings() > 20 {
            break;
        }
    }
    ctx.add_states(seen.len() as u64);
    ctx.add_transitions(transitions);
    ctx.add_traces(transitions);
    ctx.extra("depth_bound", json!(depth));
    ctx.extra("max_depth_reached", json!(max_depth));
}

/// Size sweep: the same life cycles for region sizes from one byte to tens of MiB, page multiples
/// and not, around the 2 MiB huge-page size; all drop orders of the owners of one region.
fn size_sweep(ctx: &Ctx, kinds: &[Kind], thorough: bool) {
    const M: usize = 1 << 20;
    let mut sizes = vec![1usize, 4095, 4096, 4097, M + 1, 2 * M - 1, 2 * M, 2 * M + 1, 2 * M + 0x800, 3 * M + 0x800, 4 * M, 6 * M + 4095, 32 * M + 1, 1024 * M];
    if thorough {
        sizes.extend([2 * M - 4096, 2 * M + 4096, 4 * M - 1, 4 * M + 1, 8 * M + 0x1800, 64 * M + 0x800, 1024 * M + 1, 1024 * M - 4096, 2048 * M, 3072 * M, 4096 * M]);
    }
    // owners: region handle (h0), map (h1), clone (h2), atomic (h3), snapshot (h4), removed handle
    let prefix = |k: Kind| vec![Op::Create(k), Op::Build(vec![0]), Op::CloneMap(1), Op::MakeAtomic(1), Op::Snapshot(3)];
    let mut runs = 0u64;
    for &k in kinds {
        if !k.owned() || matches!(k, Kind::XenGrant | Kind::XenForeign) {
            continue;
        }
        for &size in &sizes {
            // every order of dropping the five owners: 5! = 120 (quick: 5 rotations + remove first)
            let mut orders: Vec<Vec<usize>> = Vec::new();
            let mut perm: Vec<usize> = (0..5).collect();
            fn heap(k: usize, a: &mut Vec<usize>, out: &mut Vec<Vec<usize>>) {
                if k == 1 {
                    out.push(a.clone());
                    return;
                }
                for i in 0..k {
                    heap(k - 1, a, out);
                    if k % 2 == 0 {
                        a.swap(i, k - 1);
                    } else {
                        a.swap(0, k - 1);
                    }
                }
            }
            heap(5, &mut perm, &mut orders);
            if !thorough {
                orders = orders.into_iter().step_by(17).collect();
            }
            for (oi, order) in orders.iter().enumerate() {
                let mut hist = prefix(k);
                if oi % 2 == 1 {
                    hist.push(Op::Remove { map: 1, slot: 0 }); // pushes a map without the region and the removed handle
                }
                // drop the five owners in this order (indices shift as handles are removed)
                let mut live: Vec<usize> = (0..5).collect();
                for &o in order {
                    let pos = live.iter().position(|x| *x == o).unwrap();
                    hist.push(Op::Drop(pos));
                    live.remove(pos);
                }
                runs += 1;
                ctx.case(true);
                start_recording();
                let mut w = World::new();
                w.size_override = Some(size);
                let describe = || ("C12/size-sweep".to_string(), format!("size {:#x} {:?}", size, hist), json!({"size": size, "history": format!("{:?}", hist)}));
                let mut failed = false;
                let r = crate::crash::guarded(ctx, &describe, || {
                    for op in hist.iter() {
                        match w.apply(op) {
                            Ok(_) => {}
                            Err(e) => {
                                // a size the OS refuses is not a violation
                                if !matches!(op, Op::Create(_)) {
                                    ctx.fail("C12/operation-refused", &format!("size {:#x}: {:?} in {:?}: {}", size, op, hist, e), json!({"size": size, "history": format!("{:?}", hist)}));
                                }
                                failed = true;
                                break;
                            }
                        }
                        if let Err((key, d)) = w.check() {
                            ctx.fail(&format!("C12/{}", key), &format!("size {:#x}, after {:?} of {:?}: {}", size, op, hist, d), json!({"size": size, "history": format!("{:?}", hist)}));
                            failed = true;
                            break;
                        }
                    }
                });
                if r.is_none() {
                    stop_recording();
                    continue;
                }
                if failed {
                    let _ = crate::crash::guarded(ctx, &describe, || w.finish());
                    continue;
                }
                if let Some(Err((key, d))) = crate::crash::guarded(ctx, &describe, || w.finish()) {
                    ctx.fail(&format!("C12/{}", key), &format!("size {:#x}, after {:?} and dropping all handles: {}", size, hist, d), json!({"size": size, "history": format!("{:?}", hist), "then": "drop all"}));
                }
            }
        }
    }
    ctx.add_transitions(runs);
    ctx.add_traces(runs);
    ctx.extra("size_sweep_histories", json!(runs));
    ctx.extra("size_sweep_sizes", json!(sizes));
}

/// Histories around a replaced map that are deeper than the breadth-first bound: a region that
/// only the *retired* map (and a snapshot of it) still holds must go away with its last real
/// owner, while the replaceable memory - now publishing a map without it - stays alive.
fn replace_histories(ctx: &Ctx, kinds: &[Kind]) {
    let mut runs = 0u64;
    for &k in kinds {
        if !k.owned() {
            continue;
        }
        for family in 0..4usize {
        // family 0 - handles: 0 R0, 1 R1, 2 map{R0,R1}, 3 map{R0} (after remove), 4 removed R1, 5 atomic(map 2), 6 snapshot;
        // every order of dropping the four other owners of R1 (indices shift as handles go).
        // family 1 - the replacement brings a region the snapshot never saw: 0 R0, 1 R1, 2 map{R0},
        // 3 map{R0,R1}, 4 atomic(map 2), 5 snapshot (of map{R0}), then map 3 is published; the
        // owners of R1 (its handle, map 3, the replaceable memory) go in every order while the old
        // snapshot stays: it keeps R0 alive and nothing else
        let (prefix, owners, nlive): (Vec<Op>, Vec<usize>, usize) = if family == 0 {
            (
                vec![Op::Create(k), Op::Create(k), Op::Build(vec![0, 1]), Op::Remove { map: 2, slot: 1 }, Op::MakeAtomic(2), Op::Snapshot(5), Op::Replace { atomic: 5, map: 3 }],
                vec![1usize, 2, 4, 6],
                7,
            )
        } else if family == 1 {
            (
                vec![Op::Create(k), Op::Create(k), Op::Build(vec![0]), Op::Build(vec![0, 1]), Op::MakeAtomic(2), Op::Snapshot(4), Op::Replace { atomic: 4, map: 3 }],
                vec![1usize, 3, 4],
                6,
            )
        } else if family == 2 {
            // family 2 - a cached copy of a map is brought up to date with clone_from after a
            // region was removed: 0 R0, 1 R1, 2 map{R0,R1}, 3 copy of 2, 4 map{R0} (after remove),
            // 5 removed R1; the copy takes over map 4 and stops owning R1; R1's other owners go
            // in every order
            (
                vec![Op::Create(k), Op::Create(k), Op::Build(vec![0, 1]), Op::CloneMap(2), Op::Remove { map: 2, slot: 1 }, Op::CloneFrom { dst: 3, src: 4 }],
                vec![1usize, 2, 5],
                6,
            )
        } else {
            // family 3 - clone_from the other way: a copy of the small map takes over the large one
            // and becomes an owner of R1: 0 R0, 1 R1, 2 map{R0}, 3 copy of 2, 4 map{R0,R1};
            // R1's owners (1, 3, 4) go in every order
            (
                vec![Op::Create(k), Op::Create(k), Op::Build(vec![0]), Op::CloneMap(2), Op::Build(vec![0, 1]), Op::CloneFrom { dst: 3, src: 4 }],
                vec![1usize, 3, 4],
                5,
            )
        };
        let mut orders: Vec<Vec<usize>> = Vec::new();
        {
            // all permutations of the owners
            fn perms(rest: &[usize], cur: &mut Vec<usize>, out: &mut Vec<Vec<usize>>) {
                if rest.is_empty() {
                    out.push(cur.clone());
                }
                for i in 0..rest.len() {
                    let mut r = rest.to_vec();
                    let x = r.remove(i);
                    cur.push(x);
                    perms(&r, cur, out);
                    cur.pop();
                }
            }
            perms(&owners, &mut Vec::new(), &mut orders);
        }
        for order in orders {
            let mut hist = prefix.clone();
            let mut live: Vec<usize> = (0..nlive).collect();
            for o in &order {
                let pos = live.iter().position(|x| x == o).unwrap();
                hist.push(Op::Drop(pos));
                live.remove(pos);
            }
            runs += 1;
            ctx.case(true);
            start_recording();
            let mut w = World::new();
            let describe = || ("C12/replace-history".to_string(), format!("{:?}", hist), json!({"history": format!("{:?}", hist)}));
            let mut failed = false;
            let r = crate::crash::guarded(ctx, &describe, || {
                for op in hist.iter() {
                    match w.apply(op) {
                        Ok(true) => {}
                        Ok(false) => {
                            failed = true;
                            break;
                        }
                        Err(e) => {
                            ctx.fail("C12/operation-refused", &format!("{:?} in {:?}: {}", op, hist, e), json!({"history": format!("{:?}", hist)}));
                            failed = true;
                            break;
                        }
                    }
                    if let Err((key, d)) = w.check() {
                        ctx.fail(&format!("C12/{}", key), &format!("after {:?} of {:?}: {}", op, hist, d), json!({"history": format!("{:?}", hist)}));
                        failed = true;
                        break;
                    }
                }
            });
            if r.is_none() {
                stop_recording();
                continue;
            }
            if failed {
                let _ = crate::crash::guarded(ctx, &describe, || w.finish());
                continue;
            }
            if let Some(Err((key, d))) = crate::crash::guarded(ctx, &describe, || w.finish()) {
                ctx.fail(&format!("C12/{}", key), &format!("after {:?} and dropping all handles: {}", hist, d), json!({"history": format!("{:?}", hist), "then": "drop all"}));
            }
        }
        }
    }
    ctx.add_transitions(runs);
    ctx.add_traces(runs);
    ctx.extra("replace_histories", json!(runs));
}

/// Creations that fail half-way (deviation bound 1 on the environment: one mmap call fails, or
/// one query of the backing file's length fails / reports a shrunken file): whoever asked owns
/// nothing afterwards, so nothing the library mapped on the way may remain.
#[cfg(not(feature = "xen"))]
fn failed_creations(ctx: &Ctx) {
    use crate::interpose::{fail_fd_mmap_in, fail_mmap_in, net_mapped, record_maps, with_seek_handler, SeekAnswer};
    use vm_memory::FileOffset;
    if let Err(e) = crate::interpose::selftest_seek() {
        ctx.machinery(&e);
        return;
    }
    let mut runs = 0u64;
    for size in [100usize, 4096, 0x1800, 8192, (2 << 20) + 0x800] {
        for route in 0..4usize {
            let file_backed = route != 0;
            let make = |f: &std::fs::File| -> Result<(), String> {
                let fo = || FileOffset::new(f.try_clone().unwrap(), 0);
                match route {
                    0 => GuestRegionMmap::<()>::from_range(GuestAddress(0x10_0000), size, None).map(drop).map_err(|e| format!("{:?}", e)),
                    1 => GuestRegionMmap::<()>::from_range(GuestAddress(0x10_0000), size, Some(fo())).map(drop).map_err(|e| format!("{:?}", e)),
                    2 => vm_memory::MmapRegion::<()>::from_file(fo(), size).map(drop).map_err(|e| format!("{:?}", e)),
                    _ => GuestMemoryMmap::<()>::from_ranges_with_files(&[(GuestAddress(0x10_0000), size, Some(fo())), (GuestAddress(0x80_0000), size, Some(fo()))]).map(drop).map_err(|e| format!("{:?}", e)),
                }
            };
            let f = crate::layouts::tempfile().unwrap();
            f.set_len(SIZE.max(size) as u64 * 2).unwrap();
            // count the environment calls of a successful creation
            let nseek = std::rc::Rc::new(std::cell::Cell::new(0usize));
            let ns = nseek.clone();
            let (res, log) = record_maps(|| with_seek_handler(Box::new(move |_, _, _| { ns.set(ns.get() + 1); SeekAnswer::Pass }), || make(&f)));
            if let Err(e) = res {
                ctx.fail("C12/failed-creation/valid-creation-refused", &format!("route {} size {:#x}: {}", route, size, e), json!({"route": route, "size": size}));
                continue;
            }
            let nmap = log.iter().filter(|e| matches!(e, MapEvent::Map { fd, .. } if !file_backed || *fd >= 0)).count();
            if !net_mapped(&log).is_empty() {
                ctx.fail("C12/failed-creation/address-space-leaked", &format!("route {} size {:#x}: created and dropped, still mapped {:x?}", route, size, net_mapped(&log)), json!({"route": route, "size": size}));
            }
            let mut faults: Vec<(&str, usize, usize)> = Vec::new(); // (what, nth, variant)
            for k in 0..nmap {
                faults.push(("mmap", k, 0));
            }
            for k in 0..nseek.get() {
                faults.push(("lseek fails", k, 0));
                faults.push(("lseek reports an empty file", k, 1));
            }
            for (what, k, variant) in faults {
                runs += 1;
                ctx.case(true);
                let describe = || ("C12/failed-creation".to_string(), format!("route {} size {:#x}: {} #{}", route, size, what, k), json!({"route": route, "size": size, "fault": what, "nth": k}));
                let r = crate::crash::guarded(ctx, &describe, || {
                    record_maps(|| {
                        if what == "mmap" {
                            if file_backed {
                                fail_fd_mmap_in(k as i64);
                            } else {
                                fail_mmap_in(k as i64);
                            }
                            let r = make(&f);
                            fail_mmap_in(-1);
                            r
                        } else {
                            let i = std::rc::Rc::new(std::cell::Cell::new(0usize));
                            with_seek_handler(
                                Box::new(move |_, _, whence| {
                                    let me = i.get();
                                    i.set(me + 1);
                                    if me != k {
                                        SeekAnswer::Pass
                                    } else if variant == 0 {
                                        SeekAnswer::Err(libc::EIO)
                                    } else if whence == libc::SEEK_END {
                                        SeekAnswer::Ret(0)
                                    } else {
                                        SeekAnswer::Pass
                                    }
                                }),
                                || make(&f),
                            )
                        }
                    })
                });
                if let Some((res, log)) = r {
                    let left = net_mapped(&log);
                    if !left.is_empty() {
                        ctx.fail("C12/failed-creation/address-space-leaked", &format!("route {} size {:#x}, {} #{}: the creation {} and {:x?} is still mapped with no owner", route, size, what, k, if res.is_ok() { "succeeded, the region was dropped" } else { "failed" }, left), describe().2);
                    }
                }
            }
        }
    }
    ctx.add_transitions(runs);
    ctx.add_traces(runs);
    ctx.extra("failed_creation_runs", json!(runs));
}

/// Builder sweep (std build): every combination of protection, mapping flags, size and backing
/// the builder accepts or refuses. While the region exists exactly its range is mapped; after a
/// refused build, and after the drop of a built region, nothing the library mapped remains.
/// Auxiliary calls on the fresh mapping (mlock / madvise / mprotect, if the library makes any)
/// are failed one at a time as well.
#[cfg(not(feature = "xen"))]
fn builder_sweep(ctx: &Ctx, thorough: bool) {
    use crate::interpose::{fail_aux_in, net_mapped, record_maps, take_aux_calls};
    use vm_memory::mmap::MmapRegionBuilder;
    use vm_memory::FileOffset;
    let prots = [libc::PROT_NONE, libc::PROT_READ, libc::PROT_READ | libc::PROT_WRITE, libc::PROT_WRITE, libc::PROT_READ | libc::PROT_EXEC];
    let pa = libc::MAP_PRIVATE | libc::MAP_ANONYMOUS;
    let sa = libc::MAP_SHARED | libc::MAP_ANONYMOUS;
    let mut flagsets = vec![
        pa,
        pa | libc::MAP_NORESERVE,
        pa | libc::MAP_LOCKED,
        pa | libc::MAP_POPULATE,
        pa | libc::MAP_LOCKED | libc::MAP_POPULATE,
        sa,
        sa | libc::MAP_LOCKED,
        sa | libc::MAP_NORESERVE,
        pa | libc::MAP_FIXED,
        pa | libc::MAP_HUGETLB,
        pa | libc::MAP_STACK,
        pa | libc::MAP_GROWSDOWN,
        libc::MAP_PRIVATE,
        libc::MAP_SHARED,
        libc::MAP_ANONYMOUS,
        0,
    ];
    if thorough {
        flagsets.extend([pa | libc::MAP_NONBLOCK | libc::MAP_POPULATE, sa | libc::MAP_POPULATE, pa | libc::MAP_32BIT, pa | libc::MAP_LOCKED | libc::MAP_NORESERVE, sa | libc::MAP_LOCKED | libc::MAP_POPULATE, pa | libc::MAP_FIXED_NOREPLACE, libc::MAP_SHARED_VALIDATE | libc::MAP_ANONYMOUS, libc::MAP_PRIVATE | libc::MAP_LOCKED, libc::MAP_SHARED | libc::MAP_LOCKED | libc::MAP_NORESERVE]);
    }
    let sizes: Vec<usize> = if thorough { vec![1, 4096, 0x1800, 0x25000, (2 << 20) + 0x800, (4 << 20) + 4096] } else { vec![4096, 0x1800, 0x25000, (2 << 20) + 0x800] };
    let f = crate::layouts::tempfile().unwrap();
    f.set_len(16 << 20).unwrap();
    let mut runs = 0u64;
    let mut built = 0u64;
    let mut refused = 0u64;
    let mut aux_runs = 0u64;
    for &prot in &prots {
        for &flags in &flagsets {
            for &size in &sizes {
                for backing in 0..3usize {
                    // 0: none, 1: file at offset 0, 2: file at a page-aligned offset
                    let make = || {
                        let mut b = MmapRegionBuilder::<()>::new(size).with_mmap_prot(prot).with_mmap_flags(flags);
                        if backing > 0 {
                            b = b.with_file_offset(FileOffset::new(f.try_clone().unwrap(), if backing == 1 { 0 } else { 0x3000 }));
                        }
                        b.build()
                    };
                    let rp = || json!({"prot": prot, "flags": flags, "size": size, "backing": backing});
                    let describe = || ("C12/builder-sweep".to_string(), format!("prot {:#x} flags {:#x} size {:#x} backing {}", prot, flags, size, backing), rp());
                    let judge = |res: Option<(Option<(usize, Vec<(usize, usize)>)>, Vec<MapEvent>)>, fault: &str| {
                        let Some((alive, log)) = res else { return None };
                        let left = net_mapped(&log);
                        if let Some((ptr, during)) = &alive {
                            let pg = |x: usize| (x + 4095) / 4096 * 4096;
                            if !during.iter().any(|(s, e)| *s <= *ptr && pg(ptr + size) <= *e) {
                                ctx.fail("C12/builder-sweep/region-not-mapped-while-alive", &format!("prot {:#x} flags {:#x} size {:#x} backing {}{}: the region at {:#x} is not inside what the library left mapped {:x?}", prot, flags, size, backing, fault, ptr, during), rp());
                            } else if during.iter().map(|(s, e)| e - s).sum::<usize>() != pg(size) {
                                ctx.fail("C12/builder-sweep/more-than-the-region-mapped", &format!("prot {:#x} flags {:#x} size {:#x} backing {}{}: {:x?} mapped for a region of {:#x} bytes", prot, flags, size, backing, fault, during, size), rp());
                            }
                        }
                        if !left.is_empty() {
                            ctx.fail("C12/builder-sweep/address-space-leaked", &format!("prot {:#x} flags {:#x} size {:#x} backing {}{}: the build {} and {:x?} is still mapped with no owner", prot, flags, size, backing, fault, if alive.is_some() { "succeeded, the region was dropped" } else { "was refused" }, left), rp());
                        }
                        Some(alive.is_some())
                    };
                    runs += 1;
                    ctx.case(true);
                    take_aux_calls();
                    take_log();
                    let r = crate::crash::guarded(ctx, &describe, || {
                        record_maps(|| match make() {
                            Ok(reg) => {
                                let during = net_mapped(&crate::interpose::peek_log());
                                let ptr = reg.as_ptr() as usize;
                                drop(reg);
                                Some((ptr, during))
                            }
                            Err(_) => None,
                        })
                    });
                    let naux = take_aux_calls();
                    match judge(r, "") {
                        Some(true) => built += 1,
                        Some(false) => refused += 1,
                        None => {}
                    }
                    for k in 0..naux {
                        aux_runs += 1;
                        ctx.case(true);
                        take_log();
                        let r = crate::crash::guarded(ctx, &describe, || {
                            record_maps(|| {
                                fail_aux_in(k as i64);
                                let res = make();
                                fail_aux_in(-1);
                                match res {
                                    Ok(reg) => {
                                        let during = net_mapped(&crate::interpose::peek_log());
                                        let ptr = reg.as_ptr() as usize;
                                        drop(reg);
                                        Some((ptr, during))
                                    }
                                    Err(_) => None,
                                }
                            })
                        });
                        take_aux_calls();
                        judge(r, &format!(", auxiliary call #{} failing", k));
                    }
                }
            }
        }
    }
    ctx.add_transitions(runs + aux_runs);
    ctx.add_traces(runs + aux_runs);
    ctx.extra("builder_sweep", json!({"builds": runs, "built": built, "refused": refused, "auxiliary_call_fault_runs": aux_runs}));
}

pub fn run(tier: Tier, replay: Option<String>) -> i32 {
    let ctx = crate::new_ctx("C12", tier, "model_checking", &replay);
    ctx.set_rule("E1: BFS over all histories up to the depth bound of {create region (owned anonymous / owned file-backed - through from_range, the builder with the hugetlbfs hint true or false, or with the hint set, cleared or toggled on the finished region, rotating with the slot; anonymous and external regions with the hint changed afterwards too - / external raw / external raw file-backed; Xen build: UNIX, grant in advance, foreign on the emulated devices), build a map from any subset of region handles, insert, remove (yields a removed-region handle), clone map, wrap in GuestMemoryAtomic, snapshot, replace the published map, clone handle, drop ANY live handle (every other drop happens while a caught panic unwinds; a region handle is first offered once more to every map that already holds that region - refused, and nobody's share changes)}; state = owner graph (which handle keeps which region alive), each frontier state is rebuilt by replaying its history on the real objects with mmap/munmap (and the grant ioctls) recorded through link-time interposition. After every step: no map resolves the guest range of a region it does not hold (asked first, before any other lookup through that map); a region with an owner has not been passed to munmap and is readable; a region whose last owner went away was munmap'ed exactly once with exactly its mapped length (grant: plus exactly one matching unmap ioctl); external mappings are never unmapped; at the end of every history all remaining handles are dropped and the same invariant is checked. Address-space accounting: the whole mapping log is replayed after every step; every page the library mapped while creating a region is attributed to it, all pages of a region with an owner must still be mapped, and none of the pages attributed to a region without owners may remain. Size sweep: the life cycle {create, build, clone, atomic, snapshot, optional remove} followed by the drop orders of the five owners for owned regions of 1 byte .. 1 GiB (thorough: .. 4 GiB; page multiples and not, around the 2 MiB huge-page size, exact multiples of 1 GiB), same invariants. Replace histories: create two regions, build, remove, wrap, snapshot, replace the published map by the one without the second region, then drop its four other owners in all 24 orders while the replaceable memory stays alive. And the mirror image: a snapshot of map{R0}, then map{R0,R1} is published, and R1's three owners (handle, map, replaceable memory) are dropped in all 6 orders while the old snapshot stays. Two more families bring a copy of a map up to date with clone_from (towards a map with a region less, and with a region more) before the owners go. Failed creations (std build): anonymous and file-backed regions and a two-region map created through four routes with exactly one mmap call failing, or one query of the file length failing or reporting an empty file: nothing the library mapped on the way may remain. Builder sweep (std build): MmapRegionBuilder::build for 5 protections x 16 (thorough 25) flag words (private/shared, anonymous or not, NORESERVE, LOCKED, POPULATE, FIXED, HUGETLB, STACK, GROWSDOWN, ...) x 4 (6) sizes x {no file, file at offset 0, file at a page offset}: while a built region is alive exactly its pages are mapped, after its drop or after a refused build nothing remains; every mlock/madvise/mprotect call the library makes on the way (interposed too) is failed once.");
    ctx.assume("the 'programs' half of the property (accessors cannot outlive their parent) is decided by the compile-fail grid in tools/cfail.py and rests on Rust's borrow checker");
    if ctx.replay_of.is_some() {
        println!("replay: deterministic search; re-running it");
    }
    if let Err(e) = crate::interpose::selftest() {
        ctx.machinery(&format!("interposition self-test failed: {}", e));
        return ctx.finish();
    }
    let thorough = tier.thorough();
    #[cfg(not(feature = "xen"))]
    let kinds = [Kind::OwnedAnon, Kind::OwnedFile, Kind::ExternalRaw, Kind::ExternalRawFile];
    #[cfg(feature = "xen")]
    let kinds = [Kind::XenUnix, Kind::XenGrant, Kind::XenForeign];
    explore(&ctx, &kinds, if thorough { 8 } else { 6 }, if thorough { 7 } else { 5 });
    size_sweep(&ctx, &kinds, thorough);
    replace_histories(&ctx, &kinds);
    #[cfg(not(feature = "xen"))]
    failed_creations(&ctx);
    #[cfg(not(feature = "xen"))]
    builder_sweep(&ctx, thorough);
    ctx.set_exhaustive(true);
    ctx.finish()
}
