//! C09 — the page bitmap behaves as a set of page numbers under every operation sequence (E1).

use crate::report::{Ctx, Tier};
use serde_json::{json, Value};
use std::collections::{BTreeSet, HashMap, VecDeque};
use std::num::NonZeroUsize;
use std::sync::Arc;
use vm_memory::bitmap::{ArcSlice, AtomicBitmap, Bitmap, RefSlice};

const IMAX: usize = isize::MAX as usize;
const EXT: [usize; 5] = [IMAX - 1, IMAX, IMAX + 1, usize::MAX - 1, usize::MAX];

#[derive(Clone, Debug, PartialEq, Eq, Hash)]
pub enum Op {
    SetRange(usize, usize),
    ResetRange(usize, usize),
    SetBit(usize),
    ResetBit(usize),
    GetAndReset,
    Reset,
    Enlarge(usize),
    /// mark through slice_at(o): mark_dirty(x, l)
    SliceMark(usize, usize, usize),
    /// mark through slice_at(o).slice_at(o2): mark_dirty(x, l)
    Slice2Mark(usize, usize, usize, usize),
    /// mark through an ArcSlice at o
    ArcSliceMark(usize, usize, usize),
    /// mark through Some(bitmap) (Option flavour) at (x, l)
    OptionMark(usize, usize),
    /// clone, then mutate clone and original and compare (state preserving)
    CloneCheck,
    /// the bitmap is copied with `clone_from` into another bitmap that is this many pages larger
    /// and completely dirty, and the copy takes its place (state preserving)
    CloneInto(usize),
}

impl Op {
    fn to_json(&self) -> Value {
        json!(format!("{:?}", self))
    }
    fn parse(s: &str) -> Option<Op> {
        let (name, rest) = match s.find('(') {
            Some(i) => (&s[..i], s[i + 1..].trim_end_matches(')')),
            None => (s, ""),
        };
        let a: Vec<usize> = rest
            .split(',')
            .filter(|x| !x.trim().is_empty())
            .filter_map(|x| x.trim().parse().ok())
            .collect();
        Some(match (name, a.len()) {
            ("SetRange", 2) => Op::SetRange(a[0], a[1]),
            ("ResetRange", 2) => Op::ResetRange(a[0], a[1]),
            ("SetBit", 1) => Op::SetBit(a[0]),
            ("ResetBit", 1) => Op::ResetBit(a[0]),
            ("GetAndReset", 0) => Op::GetAndReset,
            ("Reset", 0) => Op::Reset,
            ("Enlarge", 1) => Op::Enlarge(a[0]),
            ("SliceMark", 3) => Op::SliceMark(a[0], a[1], a[2]),
            ("Slice2Mark", 4) => Op::Slice2Mark(a[0], a[1], a[2], a[3]),
            ("ArcSliceMark", 3) => Op::ArcSliceMark(a[0], a[1], a[2]),
            ("OptionMark", 2) => Op::OptionMark(a[0], a[1]),
            ("CloneCheck", 0) => Op::CloneCheck,
            ("CloneInto", 1) => Op::CloneInto(a[0]),
            _ => return None,
        })
    }
}

#[derive(Clone, Debug, PartialEq, Eq, Hash)]
pub struct Model {
    pub byte_size: usize,
    pub page: usize,
    pub set: BTreeSet<usize>,
}

impl Model {
    fn npages(&self) -> usize {
        self.byte_size.div_ceil(self.page)
    }
    fn pages(&self, start: usize, len: usize) -> BTreeSet<usize> {
        let mut s = BTreeSet::new();
        if len == 0 {
            return s;
        }
        let first = start / self.page;
        let last = start.saturating_add(len - 1) / self.page;
        let n = self.npages();
        let mut i = first;
        while i <= last && i < n {
            s.insert(i);
            i += 1;
        }
        s
    }
    /// Applies `op`; returns the expected get_and_reset result if the op yields one.
    fn apply(&mut self, op: &Op) -> Option<BTreeSet<usize>> {
        match op {
            Op::SetRange(s, l) | Op::OptionMark(s, l) => {
                let p = self.pages(*s, *l);
                self.set.extend(p);
            }
            Op::ResetRange(s, l) => {
                for p in self.pages(*s, *l) {
                    self.set.remove(&p);
                }
            }
            Op::SetBit(i) => {
                if *i < self.npages() {
                    self.set.insert(*i);
                }
            }
            Op::ResetBit(i) => {
                self.set.remove(i);
            }
            Op::GetAndReset => {
                let r = self.set.clone();
                self.set.clear();
                return Some(r);
            }
            Op::Reset => self.set.clear(),
            Op::Enlarge(k) => self.byte_size += k,
            Op::SliceMark(o, x, l) | Op::ArcSliceMark(o, x, l) => {
                let p = self.pages(o + x, *l);
                self.set.extend(p);
            }
            Op::Slice2Mark(o, o2, x, l) => {
                // offsets add modulo 2^64: a slice whose base lies "before 0" comes back into range
                let p = self.pages(o.wrapping_add(*o2).wrapping_add(*x), *l);
                self.set.extend(p);
            }
            Op::CloneCheck | Op::CloneInto(_) => {}
        }
        None
    }
}

fn words_to_set(w: &[u64]) -> BTreeSet<usize> {
    let mut s = BTreeSet::new();
    for (i, v) in w.iter().enumerate() {
        for b in 0..64 {
            if v & (1u64 << b) != 0 {
                s.insert(i * 64 + b);
            }
        }
    }
    s
}

/// Applies `op` to the real bitmap. Returns Err(description) on an oracle violation that is
/// local to the operation (result of get_and_reset, clone independence).
fn apply_real(bm: &mut AtomicBitmap, op: &Op, model_before: &Model) -> Result<(), (String, String)> {
    match op {
        Op::SetRange(s, l) => bm.set_addr_range(*s, *l),
        Op::ResetRange(s, l) => bm.reset_addr_range(*s, *l),
        Op::SetBit(i) => bm.set_bit(*i),
        Op::ResetBit(i) => bm.reset_bit(*i),
        Op::GetAndReset => {
            let w = bm.get_and_reset();
            let got = words_to_set(&w);
            let n = model_before.npages();
            if w.len() != n.div_ceil(64) {
                return Err((
                    "get_and_reset/word-count".into(),
                    format!("{} words for {} pages", w.len(), n),
                ));
            }
            if let Some(p) = got.iter().find(|p| **p >= n) {
                return Err((
                    "get_and_reset/index-beyond-page-count".into(),
                    format!("page {} reported, page count is {}", p, n),
                ));
            }
            if got != model_before.set {
                return Err((
                    "get_and_reset/wrong-set".into(),
                    format!("returned {:?}, expected {:?}", got, model_before.set),
                ));
            }
        }
        Op::Reset => bm.reset(),
        Op::Enlarge(k) => bm.enlarge(*k),
        Op::SliceMark(o, x, l) => {
            let s: RefSlice<AtomicBitmap> = bm.slice_at(*o);
            s.mark_dirty(*x, *l);
        }
        Op::Slice2Mark(o, o2, x, l) => {
            let s = bm.slice_at(*o).slice_at(*o2);
            s.mark_dirty(*x, *l);
        }
        Op::ArcSliceMark(o, x, l) => {
            // move the bitmap into an Arc for the duration of the operation
            let taken = std::mem::replace(bm, AtomicBitmap::new(0, NonZeroUsize::new(1).unwrap()));
            let arc = Arc::new(taken);
            {
                let s = ArcSlice::new(arc.clone(), *o);
                s.mark_dirty(*x, *l);
                let s2 = s.slice_at(0);
                if s2.dirty_at(*x) != s.dirty_at(*x) {
                    return Err(("arcslice/slice_at(0)-differs".into(), "".into()));
                }
            }
            *bm = Arc::try_unwrap(arc).map_err(|_| ("arcslice/leaked".to_string(), "".to_string()))?;
        }
        Op::OptionMark(x, l) => {
            let taken = std::mem::replace(bm, AtomicBitmap::new(0, NonZeroUsize::new(1).unwrap()));
            let some = Some(taken);
            some.mark_dirty(*x, *l);
            let none: Option<AtomicBitmap> = None;
            none.mark_dirty(*x, *l);
            if none.dirty_at(*x) || none.slice_at(*x).is_some() {
                return Err(("option/none-not-clean".into(), "".into()));
            }
            ().mark_dirty(*x, *l);
            if ().dirty_at(*x) {
                return Err(("unit/not-clean".into(), "".into()));
            }
            *bm = some.unwrap();
        }
        Op::CloneInto(k) => {
            let (bs, psz) = (model_before.byte_size, model_before.page);
            let page = NonZeroUsize::new(psz).unwrap();
            let mut dest = AtomicBitmap::new(bs + k * psz, page);
            dest.set_addr_range(0, (bs + k * psz).max(1));
            dest.clone_from(&*bm);
            *bm = dest;
        }
        Op::CloneCheck => {
            let c = bm.clone();
            let n = model_before.npages();
            if c.len() != bm.len() || c.byte_size() != bm.byte_size() {
                return Err(("clone/geometry".into(), format!("clone len {} byte_size {}", c.len(), c.byte_size())));
            }
            for i in 0..n + 66 {
                if c.is_bit_set(i) != model_before.set.contains(&i) {
                    return Err(("clone/content".into(), format!("clone bit {} = {}", i, c.is_bit_set(i))));
                }
            }
            // independence both ways
            if n > 0 {
                let probe = (0..n).find(|i| !model_before.set.contains(i));
                if let Some(p) = probe {
                    c.set_bit(p);
                    if bm.is_bit_set(p) {
                        return Err(("clone/aliases-original".into(), format!("set_bit({}) on the clone is visible in the original", p)));
                    }
                    c.reset_bit(p);
                    bm.set_bit(p);
                    if c.is_bit_set(p) {
                        return Err(("clone/aliases-original".into(), format!("set_bit({}) on the original is visible in the clone", p)));
                    }
                    bm.reset_bit(p);
                }
                if let Some(p) = model_before.set.iter().next() {
                    c.reset_bit(*p);
                    if !bm.is_bit_set(*p) {
                        return Err(("clone/aliases-original".into(), format!("reset_bit({}) on the clone cleared the original", p)));
                    }
                }
            }
        }
    }
    Ok(())
}

/// Compares every observable of `bm` with the model.
fn observe(bm: &AtomicBitmap, m: &Model) -> Result<(), (String, String)> {
    let n = m.npages();
    if bm.len() != n {
        return Err(("len".into(), format!("len() = {}, expected {} (byte_size {}, page {})", bm.len(), n, m.byte_size, m.page)));
    }
    if bm.byte_size() != m.byte_size {
        return Err(("byte_size".into(), format!("byte_size() = {}, expected {}", bm.byte_size(), m.byte_size)));
    }
    for i in (0..n + 130).chain(EXT.iter().cloned()) {
        let want = i < n && m.set.contains(&i);
        if bm.is_bit_set(i) != want {
            return Err(("is_bit_set".into(), format!("is_bit_set({}) = {}, expected {} (pages {}, set {:?})", i, !want, want, n, m.set)));
        }
    }
    let top = m.byte_size + 2 * m.page + 2;
    let addrs: Vec<usize> = if top <= 600 {
        (0..top).collect()
    } else {
        (0..n + 2)
            .flat_map(|i| [(i * m.page).saturating_sub(1), i * m.page, i * m.page + 1])
            .collect()
    };
    for a in addrs.into_iter().chain(EXT.iter().cloned()) {
        let want = m.set.contains(&(a / m.page));
        if bm.is_addr_set(a) != want {
            return Err(("is_addr_set".into(), format!("is_addr_set({}) = {}, expected {}", a, !want, want)));
        }
        if bm.dirty_at(a) != want {
            return Err(("dirty_at".into(), format!("dirty_at({}) = {}, expected {}", a, !want, want)));
        }
    }
    // slices and slices of slices are the same set seen through shifted addresses
    for o in [0usize, 1, m.page, m.page + 1, m.byte_size / 2, m.byte_size] {
        let s = bm.slice_at(o);
        for x in 0..(m.byte_size + m.page + 1).saturating_sub(o).min(12) {
            let want = m.set.contains(&((o + x) / m.page));
            if s.dirty_at(x) != want {
                return Err(("slice/dirty_at".into(), format!("slice_at({}).dirty_at({}) = {}, expected {}", o, x, !want, want)));
            }
            let s2 = s.slice_at(x);
            let want2 = m.set.contains(&((o + x + 1) / m.page));
            if s2.dirty_at(1) != want2 {
                return Err(("slice/nested-dirty_at".into(), format!("slice_at({}).slice_at({}).dirty_at(1) = {}, expected {}", o, x, !want2, want2)));
            }
        }
    }
    // raw words through a clone: no index at or beyond the page count ever appears
    let w = bm.clone().get_and_reset();
    let got = words_to_set(&w);
    if got != m.set {
        return Err(("words".into(), format!("raw words decode to {:?}, expected {:?} ({} pages)", got, m.set, n)));
    }
    Ok(())
}

fn build(init: (usize, usize), hist: &[Op]) -> AtomicBitmap {
    let mut bm = AtomicBitmap::new(init.0, NonZeroUsize::new(init.1).unwrap());
    let mut m = Model {
        byte_size: init.0,
        page: init.1,
        set: BTreeSet::new(),
    };
    for op in hist {
        let _ = apply_real(&mut bm, op, &m);
        m.apply(op);
    }
    bm
}

fn alphabet(m: &Model, full: bool) -> Vec<Op> {
    let p = m.page;
    let b = m.byte_size;
    let mut v = Vec::new();
    let mut vals: Vec<usize> = (0..=b + 2 * p).collect();
    vals.extend_from_slice(&EXT);
    for &s in &vals {
        for &l in &vals {
            v.push(Op::SetRange(s, l));
            if full || l <= b + 1 || l >= IMAX - 1 {
                v.push(Op::ResetRange(s, l));
            }
        }
    }
    let n = m.npages();
    for i in (0..=n + 2).chain([63, 64, 65]).chain(EXT.iter().cloned()) {
        v.push(Op::SetBit(i));
        v.push(Op::ResetBit(i));
    }
    v.push(Op::GetAndReset);
    v.push(Op::Reset);
    v.push(Op::CloneCheck);
    v.push(Op::CloneInto(0));
    v.push(Op::CloneInto(2));
    v.push(Op::CloneInto(70));
    for k in [0, 1, p.saturating_sub(1), p, p + 1, 64 * p, 64 * p + 1] {
        v.push(Op::Enlarge(k));
    }
    for o in 0..=b + 1 {
        for x in [0, 1, p, b.saturating_sub(o)] {
            for l in [0, 1, p, p + 1] {
                v.push(Op::SliceMark(o, x, l));
                if o <= p + 1 {
                    v.push(Op::ArcSliceMark(o, x, l));
                }
            }
        }
        for o2 in [0, 1, p] {
            v.push(Op::Slice2Mark(o, o2, 0, 1));
            v.push(Op::Slice2Mark(o, o2, 1, p));
        }
    }
    // nested slices whose first base is close to usize::MAX and whose second offset brings the
    // sum back into range (the offsets of slices of slices add up, modulo the address width)
    for a in [0usize, 0xff] {
        for t in [0usize, 1, p, b.saturating_sub(1)] {
            v.push(Op::Slice2Mark(usize::MAX - a, a + 1 + t, 0, 1));
            v.push(Op::Slice2Mark(usize::MAX - a, a + 1 + t, 1, p));
        }
    }
    for x in [0, 1, p, b] {
        for l in [0, 1, p + 1] {
            v.push(Op::OptionMark(x, l));
        }
    }
    v.sort_by_key(|o| format!("{:?}", o).len());
    v.dedup();
    v
}

fn replay_json(init: (usize, usize), hist: &[Op], op: &Op) -> Value {
    json!({"byte_size": init.0, "page_size": init.1,
           "history": hist.iter().map(|o| o.to_json()).collect::<Vec<_>>(), "op": op.to_json()})
}

/// One transition from the state reached by `hist`: runs `op` on the real bitmap and compares.
fn step(ctx: &Ctx, init: (usize, usize), hist: &[Op], m: &Model, op: &Op) -> Option<Model> {
    let mut bm = build(init, hist);
    let mut m2 = m.clone();
    m2.apply(op);
    let opname = format!("{:?}", op);
    let opname = opname.split('(').next().unwrap().to_string();
    let describe = || (format!("C09/{}", opname), format!("{:?} on (byte_size {}, page {}, set {:?})", op, m.byte_size, m.page, m.set), replay_json(init, hist, op));
    let r = crate::crash::guarded(ctx, &describe, || apply_real(&mut bm, op, m).and_then(|_| observe(&bm, &m2)))?;
    if let Err((k, d)) = r {
        let key = format!("C09/{}/{}", opname, k);
        let rp = if ctx.has_failed(&key) { Value::Null } else { replay_json(init, hist, op) };
        ctx.fail(&key, &format!("after {:?} on (byte_size {}, page {}, set {:?}): {}", op, m.byte_size, m.page, m.set, d), rp);
        return None;
    }
    Some(m2)
}

/// All histories up to `depth` over a reduced alphabet WITHOUT merging states: two histories that
/// reach the same observable state (for instance a mark beyond the end, which changes nothing)
/// are both continued, so state the bitmap may keep beside its bits (caches, memos, counters)
/// cannot hide behind the state key of the closure.
fn unmerged_histories(ctx: &Ctx, init: (usize, usize), depth: usize) {
    fn reduced(m: &Model) -> Vec<Op> {
        let p = m.page;
        let n = m.npages();
        let mut v = Vec::new();
        for k in 0..n + 3 {
            v.push(Op::SetRange(k * p, 1));
            v.push(Op::SetBit(k));
        }
        v.push(Op::SetRange(n.saturating_sub(1) * p, 3 * p));
        v.push(Op::SetRange(0, p + 1));
        for k in [0, n, n + 1] {
            v.push(Op::SliceMark(0, k * p, 1));
            v.push(Op::SliceMark(p, k * p, 1));
        }
        v.push(Op::Enlarge(p));
        v.push(Op::Enlarge(2 * p + 1));
        v.push(Op::GetAndReset);
        v.push(Op::Reset);
        v.push(Op::ResetRange(0, p));
        v.push(Op::ResetBit(n.saturating_sub(1)));
        v.push(Op::CloneCheck);
        v.push(Op::CloneInto(0));
        v.push(Op::CloneInto(1));
        v.push(Op::CloneInto(130));
        v
    }
    fn rec(ctx: &Ctx, init: (usize, usize), hist: &mut Vec<Op>, m: &Model, left: usize, t: &mut u64) {
        for op in reduced(m) {
            *t += 1;
            if let Some(m2) = step(ctx, init, hist, m, &op) {
                if left > 1 && m2.npages() <= 9 {
                    hist.push(op);
                    rec(ctx, init, hist, &m2, left - 1, t);
                    hist.pop();
                }
            }
            if ctx.n_findings() > 40 {
                return;
            }
        }
    }
    let m0 = Model { byte_size: init.0, page: init.1, set: BTreeSet::new() };
    let mut t = 0u64;
    rec(ctx, init, &mut Vec::new(), &m0, depth, &mut t);
    ctx.add_transitions(t);
    ctx.add_traces(t);
    ctx.extra_add("unmerged_history_transitions", t);
}

/// Geometries at the top of the size range: byte sizes within a page of usize::MAX with huge
/// page sizes (a handful of pages), created directly and grown into by enlarge. Page count,
/// marks on the first and last page, harvest and clone are compared with exact (128-bit)
/// arithmetic.
fn huge_geometries(ctx: &Ctx) {
    let top = usize::MAX;
    let cases: Vec<(usize, usize)> = vec![
        (top - 5, 1 << 60),
        (top, 1 << 60),
        (top, 1 << 63),
        (top, top),
        (top - 1, top),
        (1, top),
        ((1 << 63) + 7, (1 << 62) + 1),
        (top - (1 << 59), 1 << 60),
        (top - (1 << 60) + 1, 1 << 60),
        (top - (1 << 60) + 2, 1 << 60),
        (top, (1 << 44) + 3),
    ];
    let mut t = 0u64;
    for (b, p) in cases {
        let want_pages = ((b as u128 + p as u128 - 1) / p as u128) as usize;
        for route in 0..3usize {
            t += 1;
            ctx.case(true);
            let rp = || json!({"byte_size": format!("{:#x}", b), "page_size": format!("{:#x}", p), "route": (["new", "new(1 page) + enlarge", "new(0) + enlarge + enlarge"][route])});
            let describe = || ("C09/huge-geometry".to_string(), format!("byte_size {:#x} page {:#x} route {}", b, p, route), rp());
            let r = crate::crash::guarded(ctx, &describe, || {
                crate::crash::quiet_unwind(|| {
                    let pz = NonZeroUsize::new(p).unwrap();
                    let mut early: Option<usize> = None;
                    let bm = match route {
                        0 => AtomicBitmap::new(b, pz),
                        1 => {
                            let first = p.min(b);
                            let mut bm = AtomicBitmap::new(first, pz);
                            bm.set_bit(0);
                            early = Some(0);
                            bm.enlarge(b - first);
                            bm
                        }
                        _ => {
                            let mut bm = AtomicBitmap::new(0, pz);
                            bm.enlarge(b / 2);
                            if bm.len() > 0 {
                                bm.set_bit(bm.len() - 1);
                                early = Some(bm.len() - 1);
                            }
                            bm.enlarge(b - b / 2);
                            bm
                        }
                    };
                    let mut errs: Vec<String> = Vec::new();
                    if bm.len() != want_pages || bm.byte_size() != b {
                        errs.push(format!("len() = {}, byte_size() = {:#x}; expected {} pages", bm.len(), bm.byte_size(), want_pages));
                    } else {
                        let mut want: BTreeSet<usize> = early.into_iter().collect();
                        // page numbers at and beyond the page count - also those whose first byte
                        // address does not fit in a usize - name no page: marking them changes
                        // nothing (the last page is still clean here unless the route marked it)
                        let beyond = [want_pages, want_pages + 1, top / p + 1, (top / p).saturating_mul(2), 1 << 60, 1 << 63, top - 1, top];
                        for &i in &beyond {
                            if i >= want_pages {
                                bm.set_bit(i);
                            }
                        }
                        for k in 0..want_pages.min(70) {
                            if bm.is_bit_set(k) != want.contains(&k) {
                                errs.push(format!("page {} set = {} after marking page numbers beyond the page count ({:?}), expected {}", k, bm.is_bit_set(k), beyond, want.contains(&k)));
                            }
                        }
                        // the last byte lies in the last page, the first byte in page 0
                        bm.set_addr_range(b - 1, 1);
                        want.insert(want_pages - 1);
                        bm.mark_dirty(0, 1);
                        want.insert(0);
                        // the very last address, directly and through slices whose base and
                        // offset add up to it in every way
                        if top / p < want_pages {
                            bm.reset_addr_range(top, 1);
                            want.remove(&(top / p));
                            let variant = (b % 7 + route) % 5;
                            match variant {
                                0 => bm.set_addr_range(top, 1),
                                1 => bm.slice_at(0).mark_dirty(top, 1),
                                2 => bm.slice_at(top).mark_dirty(0, 1),
                                3 => bm.slice_at(1 << 63).mark_dirty(top - (1 << 63), 5),
                                _ => bm.slice_at(top - 1).slice_at(1).mark_dirty(0, usize::MAX),
                            }
                            want.insert(top / p);
                            if !bm.is_addr_set(top) {
                                errs.push(format!("the page of address usize::MAX is clean after a mark of that address (variant {})", variant));
                            }
                        }
                        // ... and clearing them clears nothing
                        for &i in &beyond {
                            if i >= want_pages {
                                bm.reset_bit(i);
                            }
                        }
                        for k in 0..want_pages.min(70) {
                            if bm.is_bit_set(k) != want.contains(&k) {
                                errs.push(format!("page {} set = {}, expected {}", k, bm.is_bit_set(k), want.contains(&k)));
                            }
                        }
                        if bm.is_bit_set(want_pages) || !bm.is_addr_set(b - 1) {
                            errs.push("pages at or beyond the page count read as dirty, or the last byte as clean".into());
                        }
                        let c = bm.clone();
                        let got = words_to_set(&bm.get_and_reset());
                        if got != want {
                            errs.push(format!("fetch-and-clear reported {:?}, expected {:?}", got, want));
                        }
                        if words_to_set(&c.get_and_reset()) != want || (0..want_pages.min(70)).any(|k| bm.is_bit_set(k)) {
                            errs.push("clone differs, or the bitmap is not empty after fetch-and-clear".into());
                        }
                    }
                    errs
                })
            });
            match r {
                Some(Ok(errs)) => {
                    for e in errs {
                        ctx.fail("C09/huge-geometry/wrong-state", &format!("byte_size {:#x}, page size {:#x}, built by {}: {}", b, p, ["new", "new + enlarge", "new(0) + two enlarges"][route], e), rp());
                    }
                }
                Some(Err(_)) => ctx.fail("C09/huge-geometry/panic", &format!("byte_size {:#x}, page size {:#x}, built by {}: an operation panicked", b, p, ["new", "new + enlarge", "new(0) + two enlarges"][route]), rp()),
                None => {}
            }
        }
    }
    // a view is consistent with itself whatever its base: what was marked through a slice at an
    // offset reads dirty through that slice at that offset exactly when the mark landed on a
    // page - also for bases so close to usize::MAX that base + offset leaves the address space
    // (whichever way that sum is understood, marking and looking up must understand it alike)
    for (b, p) in [(1024usize, 128usize), (5, 2), (4096, 4096), (200, 7), (top, 1 << 60)] {
        for o in [top - 99, top - 1, top, 1 << 63, top - b / 2] {
            for target in [0usize, 100 % b, b - 1, b / 2] {
                for nested in [false, true] {
                    t += 1;
                    ctx.case(true);
                    let x = target.wrapping_sub(o);
                    let bm = AtomicBitmap::new(b, NonZeroUsize::new(p).unwrap());
                    let s = if nested { bm.slice_at(o.wrapping_sub(5)).slice_at(5) } else { bm.slice_at(o) };
                    s.mark_dirty(x, 1);
                    let landed = (0..bm.len().min(4096)).any(|k| bm.is_bit_set(k)) || bm.is_addr_set(b - 1);
                    let seen = s.dirty_at(x);
                    let arc = std::sync::Arc::new(AtomicBitmap::new(b, NonZeroUsize::new(p).unwrap()));
                    let sa: ArcSlice<AtomicBitmap> = if nested { ArcSlice::new(arc.clone(), o.wrapping_sub(5)).slice_at(5) } else { ArcSlice::new(arc.clone(), o) };
                    sa.mark_dirty(x, 1);
                    let landed_a = (0..arc.len().min(4096)).any(|k| arc.is_bit_set(k)) || arc.is_addr_set(b - 1);
                    let seen_a = sa.dirty_at(x);
                    if seen != landed || seen_a != landed_a {
                        ctx.fail(
                            "C09/slice-view/mark-and-lookup-disagree",
                            &format!("bitmap of {:#x} bytes, pages of {:#x}: slice at base {:#x}{}: mark_dirty({:#x}, 1) {} a page, dirty_at({:#x}) through the same slice = {} (RefSlice) / {} a page, {} (ArcSlice)", b, p, o, if nested { " (reached in two steps)" } else { "" }, x, if landed { "marked" } else { "did not mark" }, x, seen, if landed_a { "marked" } else { "did not mark" }, seen_a),
                            json!({"byte_size": format!("{:#x}", b), "page_size": format!("{:#x}", p), "base": format!("{:#x}", o), "offset": format!("{:#x}", x), "nested": nested}),
                        );
                    }
                }
            }
        }
    }
    ctx.add_transitions(t);
    ctx.add_traces(t);
}

fn closure(ctx: &Ctx, init: (usize, usize), max_pages: usize, full: bool) {
    let m0 = Model {
        byte_size: init.0,
        page: init.1,
        set: BTreeSet::new(),
    };
    let bm0 = build(init, &[]);
    if let Err((k, d)) = observe(&bm0, &m0) {
        ctx.fail(&format!("C09/new/{}", k), &d, replay_json(init, &[], &Op::CloneCheck));
        return;
    }
    let mut seen: HashMap<Model, Vec<Op>> = HashMap::new();
    let mut frontier: VecDeque<Model> = VecDeque::new();
    seen.insert(m0.clone(), vec![]);
    frontier.push_back(m0);
    let mut transitions = 0u64;
    let mut cut = 0u64;
    let mut max_depth = 0;
    while let Some(m) = frontier.pop_front() {
        let hist = seen[&m].clone();
        max_depth = max_depth.max(hist.len());
        for op in alphabet(&m, full) {
            transitions += 1;
            if let Some(m2) = step(ctx, init, &hist, &m, &op) {
                if !seen.contains_key(&m2) {
                    if m2.npages() <= max_pages {
                        let mut h = hist.clone();
                        h.push(op.clone());
                        if ctx.sample_n() < 6 && h.len() >= 2 && !m2.set.is_empty() {
                            ctx.sample(json!({"config": {"byte_size": init.0, "page_size": init.1}, "history": h.iter().map(|o| o.to_json()).collect::<Vec<_>>(), "state": {"byte_size": m2.byte_size, "set": m2.set}}));
                        }
                        seen.insert(m2.clone(), h);
                        frontier.push_back(m2);
                    } else {
                        cut += 1;
                    }
                }
            }
        }
        if ctx.n_findings() > 40 {
            break;
        }
    }
    ctx.add_states(seen.len() as u64);
    ctx.add_transitions(transitions);
    ctx.add_traces(transitions);
    ctx.extra_add("closure_configs", 1);
    ctx.extra_add("closure_successors_not_expanded_beyond_page_limit", cut);
    let prev = 0;
    let _ = prev;
    ctx.extra_add("closure_max_depth_sum", max_depth as u64);
}

/// Boundary configurations, depth 1..2 on a reduced alphabet.
fn boundary(ctx: &Ctx, pages: usize, page: usize, slack: usize, depth2: bool) {
    let byte_size = (pages * page).saturating_sub(slack);
    let init = (byte_size, page);
    let m0 = Model {
        byte_size,
        page,
        set: BTreeSet::new(),
    };
    let n = m0.npages();
    let mut vals: BTreeSet<usize> = BTreeSet::new();
    for base in [0usize, page, 62 * page, 63 * page, 64 * page, 65 * page, 127 * page, 128 * page, 129 * page, byte_size, n * page] {
        for d in [-2i64, -1, 0, 1, 2] {
            let v = base as i64 + d;
            if v >= 0 {
                vals.insert(v as usize);
            }
        }
    }
    for e in EXT {
        vals.insert(e);
    }
    let lens: BTreeSet<usize> = vals
        .iter()
        .cloned()
        .filter(|v| *v <= byte_size + 2 * page + 2 || *v >= IMAX - 1)
        .chain([page - 1, page, page + 1, 64 * page, 64 * page + 1])
        .collect();
    // starting states: clean, all dirty, checkerboard
    let starts: Vec<Vec<Op>> = vec![
        vec![],
        vec![Op::SetRange(0, byte_size.max(1))],
        (0..n).step_by(2).map(Op::SetBit).collect(),
    ];
    let mut transitions = 0u64;
    let mut states: BTreeSet<(usize, BTreeSet<usize>)> = BTreeSet::new();
    for st in &starts {
        let mut m = m0.clone();
        for op in st {
            m.apply(op);
        }
        states.insert((m.byte_size, m.set.clone()));
        let mut ops: Vec<Op> = Vec::new();
        for &s in &vals {
            for &l in &lens {
                ops.push(Op::SetRange(s, l));
                ops.push(Op::ResetRange(s, l));
            }
            ops.push(Op::SetBit(s));
            ops.push(Op::ResetBit(s));
        }
        ops.push(Op::GetAndReset);
        ops.push(Op::CloneCheck);
        for k in [1, page, 64 * page] {
            ops.push(Op::Enlarge(k));
        }
        for o in [0, 1, page, 63 * page, 64 * page] {
            ops.push(Op::SliceMark(o, page - 1, 2));
            ops.push(Op::Slice2Mark(o, page, 0, page + 1));
        }
        for op in &ops {
            transitions += 1;
            if let Some(m2) = step(ctx, init, st, &m, op) {
                states.insert((m2.byte_size, m2.set.clone()));
                if depth2 {
                    // depth 2: follow with the operations most likely to expose hidden state
                    let mut h = st.clone();
                    h.push(op.clone());
                    for op2 in [Op::GetAndReset, Op::Enlarge(64 * page), Op::Enlarge(1), Op::CloneCheck, Op::SetRange(64 * page - 1, 2)] {
                        transitions += 1;
                        if let Some(m3) = step(ctx, init, &h, &m2, &op2) {
                            if let Op::Enlarge(_) = op2 {
                                // after enlarging: the new pages must be clean and harvestable
                                let mut h3 = h.clone();
                                h3.push(op2.clone());
                                transitions += 1;
                                step(ctx, init, &h3, &m3, &Op::GetAndReset);
                            }
                        }
                    }
                }
            }
            if ctx.n_findings() > 40 {
                return;
            }
        }
    }
    if ctx.sample_n() < 10 {
        ctx.sample(json!({"boundary_config": {"pages": n, "page_size": page, "byte_size": byte_size}, "example_op": "SetRange(63*page-1, 2) from checkerboard"}));
    }
    ctx.add_states(states.len() as u64);
    ctx.add_transitions(transitions);
    ctx.add_traces(transitions);
    ctx.extra_add("boundary_configs", 1);
}

pub fn run(tier: Tier, replay: Option<String>) -> i32 {
    let ctx = crate::new_ctx("C09", tier, "model_checking", &replay);
    ctx.set_rule("E1: BFS to an empty frontier over every public operation (full argument ranges 0..=bytes+2p plus values around isize::MAX/usize::MAX) on tiny AtomicBitmaps (<= 6 pages, page size 1..3, byte sizes +-1 around page multiples); state = complete concrete state (byte_size, page_size, set of dirty pages as decoded from the raw words); every transition is executed on the real bitmap, rebuilt by replaying the shortest history, and every observable (len, byte_size, is_bit_set, is_addr_set, dirty_at, slices, nested slices, raw words) is compared with a BTreeSet model. Plus all histories of 3 (thorough 4) operations over a reduced alphabet (single-page and past-the-end marks, enlarge, harvest, resets, clone, clone_from into larger dirty bitmaps) WITHOUT merging states, so that state kept beside the bits cannot hide behind the state key. Plus geometries at the top of the size range (byte sizes within a page of usize::MAX, page sizes up to usize::MAX; built directly and by enlarge) against 128-bit arithmetic. On these geometries page numbers at and beyond the page count, including those whose first byte address does not fit in a usize, are marked and cleared and must change nothing. Slices at bases within 100 bytes of usize::MAX, at 2^63 and reached in two steps (RefSlice and ArcSlice): a mark through the slice at an offset whose sum with the base leaves the address space and a lookup through the same slice at the same offset agree. Plus depth-1/2 sweeps on word-boundary configurations (63..129 pages, page sizes 1,3,5,7,4096,4097).");
    ctx.assume("successors with more than 6 pages (after enlarge) are checked but not expanded further in the closure; the boundary sweeps cover large bitmaps");
    if let Some(r) = ctx.replay_of.clone() {
        let c = &r["case"];
        let init = (c["byte_size"].as_u64().unwrap_or(0) as usize, c["page_size"].as_u64().unwrap_or(1) as usize);
        let hist: Vec<Op> = c["history"].as_array().map(|a| a.iter().filter_map(|x| x.as_str().and_then(Op::parse)).collect()).unwrap_or_default();
        let op = c["op"].as_str().and_then(Op::parse);
        let op = match op {
            Some(o) => o,
            None => {
                eprintln!("MACHINERY: bad replay file");
                return 2;
            }
        };
        let mut m = Model { byte_size: init.0, page: init.1, set: BTreeSet::new() };
        for o in &hist {
            m.apply(o);
        }
        println!("replaying history {:?} then {:?} from model state {:?}", hist, op, m);
        step(&ctx, init, &hist, &m, &op);
        return ctx.finish();
    }
    let mut configs: Vec<(usize, usize)> = Vec::new();
    let pages_list: Vec<usize> = if tier.thorough() { (0..=6).collect() } else { vec![0, 1, 2, 4] };
    for page in [1usize, 2, 3] {
        for pages in &pages_list {
            for delta in [-1i64, 0, 1] {
                let b = (*pages * page) as i64 + delta;
                if b >= 0 && (b as usize).div_ceil(page) <= 7 {
                    configs.push((b as usize, page));
                }
            }
        }
    }
    configs.sort();
    configs.dedup();
    let max_pages = if tier.thorough() { 7 } else { 5 };
    std::thread::scope(|s| {
        let ctx = &ctx;
        let chunks: Vec<Vec<(usize, usize)>> = (0..14).map(|i| configs.iter().cloned().skip(i).step_by(14).collect()).collect();
        for ch in chunks {
            s.spawn(move || {
                for c in ch {
                    closure(ctx, c, max_pages, tier.thorough());
                }
            });
        }
        let mut bcfg: Vec<(usize, usize, usize)> = Vec::new();
        for pages in [63usize, 64, 65, 127, 128, 129] {
            for page in [1usize, 3, 4096] {
                bcfg.push((pages, page, 0));
            }
        }
        for page in [5usize, 7, 4097] {
            bcfg.push((65, page, 1));
            bcfg.push((64, page, page - 1));
        }
        // many words: 4096 pages +- 1 (a multiple of 64 words), and a few hundred large pages
        if tier.thorough() {
            bcfg.push((4095, 1, 0));
            bcfg.push((4096, 1, 0));
            bcfg.push((4097, 1, 0));
        }
        bcfg.push((260, 4096, 5));
        bcfg.push((1, 4096, 4000)); // page size larger than the byte size
        bcfg.push((1, 7, 6));
        for b in bcfg {
            s.spawn(move || boundary(ctx, b.0, b.1, b.2, true));
        }
        s.spawn(move || huge_geometries(ctx));
        let depth = if tier.thorough() { 4 } else { 3 };
        for init in [(2usize, 1usize), (5, 2), (6, 3), (63, 1), (4096 * 2 - 1, 4096)] {
            s.spawn(move || unmerged_histories(ctx, init, depth));
        }
    });
    ctx.set_exhaustive(true);
    ctx.finish()
}
