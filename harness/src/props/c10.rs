//! C10 — adding or removing a region yields a new valid map and leaves the old one intact (E1).

use crate::report::{Ctx, Tier};
use serde_json::{json, Value};
use std::collections::{HashMap, VecDeque};
use std::rc::Rc;
use std::sync::Arc;
use vm_memory::mmap::Error as MmapError;
use vm_memory::{GuestAddress, GuestMemory, GuestMemoryMmap, GuestMemoryRegion, GuestRegionMmap};

type Iv = (u64, u64); // (start, len) absolute

#[derive(Clone)]
struct Expect {
    /// sorted (start, len, host pointer, tag)
    regs: Vec<(u64, u64, usize, u8)>,
}

struct Live {
    /// the region handles of the map, parallel to expect.regs (kept to hand the same handle to
    /// other maps later)
    arcs: Vec<Arc<GuestRegionMmap<()>>>,
    map: GuestMemoryMmap<()>,
    expect: Expect,
    parent: Option<Rc<Live>>,
    how: String,
}

fn tag_region(r: &GuestRegionMmap<()>, tag: u8) {
    // SAFETY: region of r.len() bytes
    unsafe { std::ptr::write_bytes(r.as_ptr(), tag, r.len() as usize) };
}

fn new_region(iv: Iv, serial: &mut u8) -> Arc<GuestRegionMmap<()>> {
    let r = GuestRegionMmap::<()>::from_range(GuestAddress(iv.0), iv.1 as usize, None).expect("mmap");
    *serial = serial.wrapping_add(1);
    if *serial == 0 {
        *serial = 1;
    }
    tag_region(&r, *serial);
    Arc::new(r)
}

fn describe_map(m: &GuestMemoryMmap<()>) -> Vec<(u64, u64, usize)> {
    m.iter().map(|r| (r.start_addr().0, r.len(), r.as_ptr() as usize)).collect()
}

/// Checks that `live` and all its ancestors still describe and reach the same memory.
fn check_lineage(ctx: &Ctx, live: &Rc<Live>, after: &str) -> bool {
    let mut cur = Some(live.clone());
    let mut gen = 0;
    while let Some(l) = cur {
        let got = describe_map(&l.map);
        let want: Vec<(u64, u64, usize)> = l.expect.regs.iter().map(|r| (r.0, r.1, r.2)).collect();
        if got != want || l.map.num_regions() != want.len() {
            ctx.fail("C10/earlier-map-changed/regions", &format!("after {}: a map {} generation(s) back (built by {}) now lists {:?}, expected {:?}", after, gen, l.how, got, want), json!({"after": after, "generations_back": gen, "built_by": l.how}));
            return false;
        }
        // the summary queries of the map agree with its regions (also right after the update that
        // produced a later map)
        let want_last = want.last().map(|r| r.0 + (r.1 - 1)).unwrap_or(0);
        if l.map.last_addr().0 != want_last || want.iter().any(|r| l.map.find_region(GuestAddress(r.0)).map(|x| x.as_ptr() as usize) != Some(r.2)) {
            ctx.fail("C10/earlier-map-changed/queries", &format!("after {}: a map {} generation(s) back (built by {}) with regions {:?} answers last_addr() = {:#x}", after, gen, l.how, want, l.map.last_addr().0), json!({"after": after, "generations_back": gen, "built_by": l.how}));
            return false;
        }
        for (i, r) in l.map.iter().enumerate() {
            let tag = l.expect.regs[i].3;
            // SAFETY: mapped for as long as the map is alive (that is the property)
            let first = unsafe { std::ptr::read_volatile(r.as_ptr()) };
            let last = unsafe { std::ptr::read_volatile(r.as_ptr().add(r.len() as usize - 1)) };
            if first != tag || last != tag {
                ctx.fail("C10/earlier-map-changed/memory", &format!("after {}: region [{:#x},+{}) of a map {} generation(s) back reads {:#x}, expected its tag {:#x}", after, r.start_addr().0, r.len(), gen, first, tag), json!({"after": after, "generations_back": gen}));
                return false;
            }
        }
        // sorted and pairwise disjoint
        for w in want.windows(2) {
            if w[0].0 + w[0].1 > w[1].0 {
                ctx.fail("C10/map-not-sorted-disjoint", &format!("after {}: {:?}", after, want), json!({"after": after}));
                return false;
            }
        }
        cur = l.parent.clone();
        gen += 1;
    }
    true
}

fn err_name(e: &MmapError) -> &'static str {
    match e {
        MmapError::InvalidGuestRegion => "InvalidGuestRegion",
        MmapError::MmapRegion(_) => "MmapRegion",
        MmapError::NoMemoryRegion => "NoMemoryRegion",
        MmapError::MemoryRegionOverlap => "MemoryRegionOverlap",
        MmapError::UnsortedMemoryRegions => "UnsortedMemoryRegions",
    }
}

fn intersects(a: Iv, b: Iv) -> bool {
    a.0 < b.0 + b.1 && b.0 < a.0 + a.1
}

fn intervals(base: u64, u: usize) -> Vec<Iv> {
    let mut v = Vec::new();
    for s in 0..u {
        for l in 1..=(u - s) {
            v.push((base + s as u64, l as u64));
        }
    }
    v
}

fn explore(ctx: &Ctx, base: u64, u: usize) {
    let ivs = intervals(base, u);
    let mut serial = 0u8;
    // state -> shortest history; the frontier keeps the real map and its whole lineage alive
    let mut seen: HashMap<Vec<Iv>, usize> = HashMap::new();
    let mut frontier: VecDeque<Rc<Live>> = VecDeque::new();
    let mut transitions = 0u64;
    let mut reuse = 0u64;
    // roots: every single-region map
    for &iv in &ivs {
        let r = new_region(iv, &mut serial);
        let tag = serial;
        let ptr = r.as_ptr() as usize;
        match GuestMemoryMmap::from_arc_regions(vec![r.clone()]) {
            Ok(map) => {
                let live = Rc::new(Live { arcs: vec![r.clone()], map, expect: Expect { regs: vec![(iv.0, iv.1, ptr, tag)] }, parent: None, how: format!("from_arc_regions([{:?}])", iv) });
                check_lineage(ctx, &live, "from_arc_regions");
                seen.insert(vec![iv], 0);
                frontier.push_back(live);
            }
            Err(e) => ctx.fail("C10/from_arc_regions/single", &format!("{:?} refused: {:?}", iv, e), json!({"interval": iv})),
        }
        transitions += 1;
    }
    // and the map without regions, as made by new()
    {
        let live = Rc::new(Live { arcs: vec![], map: GuestMemoryMmap::new(), expect: Expect { regs: vec![] }, parent: None, how: "GuestMemoryMmap::new()".to_string() });
        check_lineage(ctx, &live, "new");
        seen.insert(vec![], 0);
        frontier.push_back(live);
        transitions += 1;
    }
    let mut max_depth = 0;
    while let Some(live) = frontier.pop_front() {
        let state: Vec<Iv> = live.expect.regs.iter().map(|r| (r.0, r.1)).collect();
        let depth = seen[&state];
        max_depth = max_depth.max(depth);
        // clone: same regions, both stay valid
        {
            transitions += 1;
            let c = live.map.clone();
            if describe_map(&c) != describe_map(&live.map) {
                ctx.fail("C10/clone", "clone lists different regions", json!({"state": state}));
            }
        }
        // insert every interval
        for &iv in &ivs {
            transitions += 1;
            let r = new_region(iv, &mut serial);
            let tag = serial;
            let ptr = r.as_ptr() as usize;
            let overlap = state.iter().any(|s| intersects(*s, iv));
            let res = live.map.insert_region(r.clone());
            let how = format!("insert_region({:?}) into {:?}", iv, state);
            match (res, overlap) {
                (Ok(m2), false) => {
                    let mut regs = live.expect.regs.clone();
                    regs.push((iv.0, iv.1, ptr, tag));
                    regs.sort();
                    let mut arcs = live.arcs.clone();
                    arcs.push(r.clone());
                    arcs.sort_by_key(|a| a.start_addr().0);
                    let next = Rc::new(Live { arcs, map: m2, expect: Expect { regs }, parent: Some(live.clone()), how: how.clone() });
                    if check_lineage(ctx, &next, &how) {
                        let st: Vec<Iv> = next.expect.regs.iter().map(|r| (r.0, r.1)).collect();
                        if !seen.contains_key(&st) {
                            seen.insert(st, depth + 1);
                            frontier.push_back(next);
                        }
                    }
                }
                (Ok(m2), true) => {
                    ctx.fail("C10/insert_region/overlap-accepted", &format!("{}: accepted, new map {:?}", how, describe_map(&m2).iter().map(|r| (r.0, r.1)).collect::<Vec<_>>()), json!({"state": state, "insert": iv}));
                }
                (Err(e), false) => {
                    ctx.fail("C10/insert_region/valid-refused", &format!("{}: {:?}", how, e), json!({"state": state, "insert": iv}));
                }
                (Err(e), true) => {
                    if !matches!(e, MmapError::MemoryRegionOverlap) {
                        ctx.fail("C10/insert_region/wrong-error", &format!("{}: {} instead of MemoryRegionOverlap", how, err_name(&e)), json!({"state": state, "insert": iv}));
                    }
                    check_lineage(ctx, &live, &how);
                }
            }
        }
        // insert region handles that already exist: the ones this map holds (must be refused:
        // a region overlaps itself) and the ones any ancestor map holds (removed since, or added
        // on another branch); the outcome only depends on the ranges
        {
            let mut pool: Vec<(Arc<GuestRegionMmap<()>>, (u64, u64, usize, u8), usize)> = Vec::new();
            let mut cur = Some(live.clone());
            let mut gen = 0;
            while let Some(l) = cur {
                for (a, e) in l.arcs.iter().zip(&l.expect.regs) {
                    if !pool.iter().any(|p| Arc::ptr_eq(&p.0, a)) {
                        pool.push((a.clone(), *e, gen));
                    }
                }
                cur = l.parent.clone();
                gen += 1;
            }
            for (a, e, gen) in pool {
                transitions += 1;
                reuse += 1;
                let iv = (e.0, e.1);
                let overlap = state.iter().any(|s| intersects(*s, iv));
                let how = format!("insert_region(existing handle {:?} held by the map {} generation(s) back) into {:?}", iv, gen, state);
                match (live.map.insert_region(a.clone()), overlap) {
                    (Ok(m2), false) => {
                        let mut regs = live.expect.regs.clone();
                        regs.push(e);
                        regs.sort();
                        let mut arcs = live.arcs.clone();
                        arcs.push(a.clone());
                        arcs.sort_by_key(|a| a.start_addr().0);
                        let next = Rc::new(Live { arcs, map: m2, expect: Expect { regs }, parent: Some(live.clone()), how: how.clone() });
                        check_lineage(ctx, &next, &how);
                    }
                    (Ok(m2), true) => ctx.fail("C10/insert_region/existing-handle/overlap-accepted", &format!("{}: accepted, new map {:?}", how, describe_map(&m2).iter().map(|r| (r.0, r.1)).collect::<Vec<_>>()), json!({"state": state, "insert": iv, "generations_back": gen})),
                    (Err(err), false) => ctx.fail("C10/insert_region/existing-handle/valid-refused", &format!("{}: {:?}", how, err), json!({"state": state, "insert": iv, "generations_back": gen})),
                    (Err(err), true) => {
                        if !matches!(err, MmapError::MemoryRegionOverlap) {
                            ctx.fail("C10/insert_region/existing-handle/wrong-error", &format!("{}: {}", how, err_name(&err)), json!({"state": state, "insert": iv}));
                        }
                        check_lineage(ctx, &live, &how);
                    }
                }
            }
        }
        // remove with every (base, size), including wrong sizes and non-start addresses
        for b in 0..=u as u64 {
            for sz in 0..=(u as u64 + 1) {
                transitions += 1;
                let (rb, rs) = (base + b, sz);
                let idx = state.iter().position(|s| *s == (rb, rs));
                let how = format!("remove_region({:#x}, {}) from {:?}", rb, rs, state);
                match (live.map.remove_region(GuestAddress(rb), rs), idx) {
                    (Ok((m2, removed)), Some(i)) => {
                        let er = live.expect.regs[i];
                        if (removed.start_addr().0, removed.len(), removed.as_ptr() as usize) != (er.0, er.1, er.2) {
                            ctx.fail("C10/remove_region/wrong-handle", &format!("{}: returned region [{:#x},+{})", how, removed.start_addr().0, removed.len()), json!({"state": state, "remove": (rb, rs)}));
                        }
                        // the removed handle keeps reaching its memory
                        let first = unsafe { std::ptr::read_volatile(removed.as_ptr()) };
                        if first != er.3 {
                            ctx.fail("C10/remove_region/handle-memory", &format!("{}: removed region reads {:#x}, expected tag {:#x}", how, first, er.3), json!({"state": state}));
                        }
                        let mut regs = live.expect.regs.clone();
                        regs.remove(i);
                        let mut arcs = live.arcs.clone();
                        arcs.remove(i);
                        if regs.is_empty() {
                            // an empty map is a valid result, and a state like any other: every
                            // insertion into it must be accepted
                            if m2.num_regions() != 0 {
                                ctx.fail("C10/remove_region/not-removed", &how, json!({"state": state}));
                            }
                        }
                        let next = Rc::new(Live { arcs, map: m2, expect: Expect { regs }, parent: Some(live.clone()), how: how.clone() });
                        if check_lineage(ctx, &next, &how) {
                            let st: Vec<Iv> = next.expect.regs.iter().map(|r| (r.0, r.1)).collect();
                            if !seen.contains_key(&st) {
                                seen.insert(st, depth + 1);
                                frontier.push_back(next);
                            }
                        }
                    }
                    (Ok((m2, _)), None) => {
                        ctx.fail("C10/remove_region/no-exact-match-accepted", &format!("{}: accepted, new map {:?}", how, describe_map(&m2).iter().map(|r| (r.0, r.1)).collect::<Vec<_>>()), json!({"state": state, "remove": (rb, rs)}));
                    }
                    (Err(e), Some(_)) => ctx.fail("C10/remove_region/exact-match-refused", &format!("{}: {:?}", how, e), json!({"state": state, "remove": (rb, rs)})),
                    (Err(e), None) => {
                        if !matches!(e, MmapError::InvalidGuestRegion) {
                            ctx.fail("C10/remove_region/wrong-error", &format!("{}: {}", how, err_name(&e)), json!({"state": state}));
                        }
                    }
                }
            }
        }
        if ctx.n_findings() > 30 {
            break;
        }
    }
    ctx.add_states(seen.len() as u64);
    ctx.add_transitions(transitions);
    ctx.add_traces(transitions);
    ctx.extra_add("closures", 1);
    ctx.extra_add("existing_handle_insertions", reuse);
    ctx.extra_add("max_depth_sum", max_depth as u64);
    if ctx.sample_n() < 3 {
        ctx.sample(json!({"base": format!("{:#x}", base), "universe": u, "states": seen.len(), "transitions": transitions, "example": "from {[b,+2) [b+3,+1)}: insert_region([b+2,+1)) -> {[b,+2) [b+2,+1) [b+3,+1)}; insert_region([b+1,+2)) -> MemoryRegionOverlap; remove_region(b, 1) -> InvalidGuestRegion; every ancestor map re-read after each step"}));
    }
}

fn builds(ctx: &Ctx, base: u64, u: usize, max_len: usize) {
    let ivs = intervals(base, u);
    let mut serial = 100u8;
    let mut t = 0u64;
    let mut lists: Vec<Vec<Iv>> = vec![vec![]];
    let mut cur: Vec<Vec<Iv>> = vec![vec![]];
    for _ in 0..max_len {
        let mut next = Vec::new();
        for l in &cur {
            for &iv in &ivs {
                let mut l2 = l.clone();
                l2.push(iv);
                next.push(l2);
            }
        }
        lists.extend(next.iter().cloned());
        cur = next;
    }
    for list in &lists {
        t += 1;
        let unsorted = (0..list.len()).any(|i| (i + 1..list.len()).any(|j| list[i].0 > list[j].0));
        let overlap = (0..list.len()).any(|i| (i + 1..list.len()).any(|j| intersects(list[i], list[j])));
        let regions: Vec<Arc<GuestRegionMmap<()>>> = list.iter().map(|iv| new_region(*iv, &mut serial)).collect();
        let ptrs: Vec<usize> = regions.iter().map(|r| r.as_ptr() as usize).collect();
        let res = if list.len() % 2 == 0 {
            GuestMemoryMmap::from_arc_regions(regions)
        } else {
            // from_regions takes the regions by value
            let owned: Vec<GuestRegionMmap<()>> = regions.into_iter().map(|a| Arc::try_unwrap(a).ok().unwrap()).collect();
            GuestMemoryMmap::from_regions(owned)
        };
        let rp = || json!({"list": list});
        match res {
            Ok(m) => {
                if list.is_empty() || unsorted || overlap {
                    ctx.fail("C10/from_regions/invalid-list-accepted", &format!("{:?} accepted", list), rp());
                } else {
                    let got: Vec<(u64, u64, usize)> = describe_map(&m);
                    let want: Vec<(u64, u64, usize)> = list.iter().zip(&ptrs).map(|(iv, p)| (iv.0, iv.1, *p)).collect();
                    if got != want {
                        ctx.fail("C10/from_regions/wrong-map", &format!("{:?} -> {:?}", list, got), rp());
                    }
                }
            }
            Err(e) => {
                let ok = match e {
                    MmapError::NoMemoryRegion => list.is_empty(),
                    MmapError::UnsortedMemoryRegions => unsorted,
                    MmapError::MemoryRegionOverlap => overlap,
                    _ => false,
                };
                if !ok {
                    ctx.fail("C10/from_regions/wrong-error", &format!("{:?}: {} (unsorted={}, overlap={})", list, err_name(&e), unsorted, overlap), rp());
                }
            }
        }
    }
    // the constructors that make the regions themselves: anonymous ranges, and ranges backed by
    // one shared file whose windows are disjoint, identical (one page mirrored at several guest
    // addresses) or overlapping - what backs a region has no say in whether the guest ranges
    // form a valid map
    #[cfg(not(feature = "xen"))]
    {
        use vm_memory::FileOffset;
        let file = Arc::new(crate::layouts::tempfile().unwrap());
        file.set_len(1 << 16).unwrap();
        for list in lists.iter().filter(|l| l.len() <= 2 || l.len() == 3 && l[0].0 < l[1].0 && l[1].0 < l[2].0) {
            let unsorted = (0..list.len()).any(|i| (i + 1..list.len()).any(|j| list[i].0 > list[j].0));
            let overlap = (0..list.len()).any(|i| (i + 1..list.len()).any(|j| intersects(list[i], list[j])));
            for backing in 0..4usize {
                t += 1;
                let res = if backing == 0 {
                    GuestMemoryMmap::<()>::from_ranges(&list.iter().map(|iv| (GuestAddress(iv.0), iv.1 as usize)).collect::<Vec<_>>())
                } else {
                    let ranges: Vec<(GuestAddress, usize, Option<FileOffset>)> = list
                        .iter()
                        .enumerate()
                        .map(|(i, iv)| {
                            let off = match backing {
                                1 => i as u64 * 4096,            // disjoint windows
                                2 => 0,                          // the same window every time
                                _ => (i as u64 % 2) * 4096,      // first and third window identical
                            };
                            (GuestAddress(iv.0), iv.1 as usize, Some(FileOffset::from_arc(file.clone(), off)))
                        })
                        .collect();
                    GuestMemoryMmap::<()>::from_ranges_with_files(&ranges)
                };
                let api = if backing == 0 { "from_ranges" } else { "from_ranges_with_files" };
                let rp = || json!({"list": list, "constructor": api, "file_windows": (["none", "disjoint", "identical", "first and third identical"][backing])});
                match res {
                    Ok(m) => {
                        let got: Vec<(u64, u64)> = describe_map(&m).iter().map(|r| (r.0, r.1)).collect();
                        if list.is_empty() || unsorted || overlap {
                            ctx.fail(&format!("C10/{}/invalid-list-accepted", api), &format!("{:?} accepted", list), rp());
                        } else if got != list.iter().map(|iv| (iv.0, iv.1)).collect::<Vec<_>>() {
                            ctx.fail(&format!("C10/{}/wrong-map", api), &format!("{:?} -> {:?}", list, got), rp());
                        }
                    }
                    Err(e) => {
                        let ok = match e {
                            MmapError::NoMemoryRegion => list.is_empty(),
                            MmapError::UnsortedMemoryRegions => unsorted,
                            MmapError::MemoryRegionOverlap => overlap,
                            _ => false,
                        };
                        if !ok {
                            ctx.fail(&format!("C10/{}/wrong-error", api), &format!("{:?}: {} (unsorted={}, overlap={})", list, err_name(&e), unsorted, overlap), rp());
                        }
                    }
                }
            }
        }
    }
    // lists that name the same region handle more than once (a region overlaps itself)
    let pool: Vec<Arc<GuestRegionMmap<()>>> = ivs.iter().map(|iv| new_region(*iv, &mut serial)).collect();
    let np = pool.len();
    let mut idx_lists: Vec<Vec<usize>> = Vec::new();
    for a in 0..np {
        idx_lists.push(vec![a, a]);
        for b in 0..np {
            if b != a {
                idx_lists.extend([vec![a, a, b], vec![a, b, a], vec![b, a, a]]);
            }
        }
        idx_lists.push(vec![a, a, a]);
    }
    for il in &idx_lists {
        t += 1;
        let list: Vec<Iv> = il.iter().map(|i| ivs[*i]).collect();
        let unsorted = (0..list.len()).any(|i| (i + 1..list.len()).any(|j| list[i].0 > list[j].0));
        match GuestMemoryMmap::from_arc_regions(il.iter().map(|i| pool[*i].clone()).collect()) {
            Ok(m) => ctx.fail("C10/from_arc_regions/repeated-handle-accepted", &format!("{:?} (handles {:?}) accepted: {:?}", list, il, describe_map(&m).iter().map(|r| (r.0, r.1)).collect::<Vec<_>>()), json!({"list": list, "handles": il})),
            Err(MmapError::MemoryRegionOverlap) => {}
            Err(MmapError::UnsortedMemoryRegions) if unsorted => {}
            Err(e) => ctx.fail("C10/from_arc_regions/repeated-handle-wrong-error", &format!("{:?}: {}", list, err_name(&e)), json!({"list": list, "handles": il})),
        }
    }
    ctx.add_transitions(t);
    ctx.add_traces(t);
}

/// Maps with many regions: insert at every position (gaps, adjacent, overlapping, enclosing) and
/// remove every region, with the parent map re-checked after each step.
fn many_regions(ctx: &Ctx, n: usize) {
    let mut serial = 0u8;
    let base = 0x10_0000u64;
    // regions of 2 bytes at base + 4*i  (holes of 2 bytes between them)
    let mut regs: Vec<(u64, u64, usize, u8)> = Vec::new();
    let mut arcs = Vec::new();
    for i in 0..n {
        let iv = (base + 4 * i as u64, 2u64);
        let r = new_region(iv, &mut serial);
        regs.push((iv.0, iv.1, r.as_ptr() as usize, serial));
        arcs.push(r);
    }
    let map = match GuestMemoryMmap::from_arc_regions(arcs.clone()) {
        Ok(m) => m,
        Err(e) => {
            ctx.fail("C10/many-regions/build", &format!("{} regions: {:?}", n, e), json!({"n": n}));
            return;
        }
    };
    let live = Rc::new(Live { arcs: arcs.clone(), map, expect: Expect { regs: regs.clone() }, parent: None, how: format!("from_arc_regions of {} regions", n) });
    check_lineage(ctx, &live, "build");
    let state: Vec<Iv> = regs.iter().map(|r| (r.0, r.1)).collect();
    let mut t = 0u64;
    for pos in 0..(4 * n as u64 + 2) {
        for len in [1u64, 2, 3, 6] {
            let iv = (base - 1 + pos, len);
            let overlap = state.iter().any(|s| intersects(*s, iv));
            let r = new_region(iv, &mut serial);
            let (ptr, tag) = (r.as_ptr() as usize, serial);
            let how = format!("insert_region({:?}) into a map of {} regions", iv, n);
            t += 1;
            match (live.map.insert_region(r), overlap) {
                (Ok(m2), false) => {
                    let mut e = regs.clone();
                    e.push((iv.0, iv.1, ptr, tag));
                    e.sort();
                    let next = Rc::new(Live { arcs: Vec::new(), map: m2, expect: Expect { regs: e }, parent: Some(live.clone()), how: how.clone() });
                    check_lineage(ctx, &next, &how);
                }
                (Ok(_), true) => ctx.fail("C10/many-regions/insert_region/overlap-accepted", &how, json!({"n": n, "insert": iv})),
                (Err(e), false) => ctx.fail("C10/many-regions/insert_region/valid-refused", &format!("{}: {:?}", how, e), json!({"n": n, "insert": iv})),
                (Err(_), true) => {}
            }
        }
    }
    for i in 0..n {
        for (b, sz) in [(regs[i].0, 2u64), (regs[i].0, 1), (regs[i].0 + 1, 2), (regs[i].0 + 1, 1)] {
            let how = format!("remove_region({:#x}, {}) from a map of {} regions", b, sz, n);
            t += 1;
            match (live.map.remove_region(GuestAddress(b), sz), (b, sz) == (regs[i].0, 2)) {
                (Ok((m2, removed)), true) => {
                    if removed.start_addr().0 != regs[i].0 || removed.as_ptr() as usize != regs[i].2 {
                        ctx.fail("C10/many-regions/remove_region/wrong-handle", &how, json!({"n": n, "remove": (b, sz)}));
                    }
                    let mut e = regs.clone();
                    e.remove(i);
                    let next = Rc::new(Live { arcs: Vec::new(), map: m2, expect: Expect { regs: e }, parent: Some(live.clone()), how: how.clone() });
                    check_lineage(ctx, &next, &how);
                    // the removed handle goes back into the map it was taken from (refused) and
                    // into the map without it (accepted, same regions as before)
                    t += 2;
                    if live.map.insert_region(removed.clone()).is_ok() {
                        ctx.fail("C10/many-regions/insert_region/existing-handle/overlap-accepted", &format!("{}; then the removed handle was accepted by the map that still holds it", how), json!({"n": n, "region": i}));
                    }
                    match next.map.insert_region(removed.clone()) {
                        Ok(m3) => {
                            let back = Rc::new(Live { arcs: Vec::new(), map: m3, expect: Expect { regs: regs.clone() }, parent: Some(next.clone()), how: format!("{} and insert_region(removed handle)", how) });
                            check_lineage(ctx, &back, &back.how);
                        }
                        Err(e) => ctx.fail("C10/many-regions/insert_region/existing-handle/valid-refused", &format!("{}; re-inserting the removed handle: {:?}", how, e), json!({"n": n, "region": i})),
                    }
                }
                (Ok(_), false) => ctx.fail("C10/many-regions/remove_region/no-exact-match-accepted", &how, json!({"n": n, "remove": (b, sz)})),
                (Err(e), true) => ctx.fail("C10/many-regions/remove_region/exact-match-refused", &format!("{}: {:?}", how, e), json!({"n": n})),
                (Err(_), false) => {}
            }
        }
    }
    ctx.add_transitions(t);
    ctx.add_traces(t);
    ctx.add_states(1);
}

#[cfg(not(feature = "xen"))]
fn top_of_address_space(ctx: &Ctx) {
    use vm_memory::MmapRegion;
    let arena = crate::arena::Arena::new(1);
    let mut t = 0;
    for size in [1u64, 2, 4096, 1 << 32, 1 << 62] {
        for d in -3i64..=3 {
            // base + size = 2^64 + d
            let base = (0u64.wrapping_sub(size)).wrapping_add(d as u64);
            // SAFETY: never dereferenced
            let r = unsafe { MmapRegion::<()>::build_raw(arena.ptr(), size as usize, libc::PROT_READ, libc::MAP_PRIVATE | libc::MAP_ANONYMOUS) }.unwrap();
            let end = base as u128 + size as u128;
            let res = GuestRegionMmap::new(r, GuestAddress(base));
            t += 1;
            if end > (1u128 << 64) && res.is_ok() {
                ctx.fail("C10/GuestRegionMmap::new/end-beyond-address-space-accepted", &format!("base {:#x} size {:#x}", base, size), json!({"base": base, "size": size}));
            }
            if end < (1u128 << 64) && res.is_err() {
                ctx.fail("C10/GuestRegionMmap::new/valid-refused", &format!("base {:#x} size {:#x}", base, size), json!({"base": base, "size": size}));
            }
            // end == 2^64 (last byte at 2^64-1): whether that "exceeds the address space" is not
            // judged, but every way of creating the region must give the same answer
            if size <= 4096 {
                t += 1;
                let by_range = GuestRegionMmap::<()>::from_range(GuestAddress(base), size as usize, None).is_ok();
                // SAFETY: never dereferenced
                let r2 = unsafe { MmapRegion::<()>::build_raw(arena.ptr(), size as usize, libc::PROT_READ, libc::MAP_PRIVATE | libc::MAP_ANONYMOUS) }.unwrap();
                let by_new = GuestRegionMmap::new(r2, GuestAddress(base)).is_ok();
                let by_ranges = GuestMemoryMmap::<()>::from_ranges(&[(GuestAddress(base), size as usize)]).is_ok();
                // the same request backed by a file: what backs the region has no say either
                let file = crate::layouts::tempfile().unwrap();
                file.set_len(8192).unwrap();
                let fo = || Some(vm_memory::FileOffset::new(file.try_clone().unwrap(), 0));
                let by_range_file = GuestRegionMmap::<()>::from_range(GuestAddress(base), size as usize, fo()).is_ok();
                let by_ranges_file = GuestMemoryMmap::<()>::from_ranges_with_files(&[(GuestAddress(base), size as usize, fo())]).is_ok();
                if end > (1u128 << 64) && (by_range_file || by_ranges_file) {
                    ctx.fail("C10/from_range(file)/end-beyond-address-space-accepted", &format!("base {:#x} size {:#x}: from_range with a file accepts={}, from_ranges_with_files accepts={}", base, size, by_range_file, by_ranges_file), json!({"base": base, "size": size}));
                }
                if by_range != by_new || by_range != by_ranges || by_range != by_range_file || by_range != by_ranges_file {
                    ctx.fail("C10/region-creation/constructors-disagree", &format!("base {:#x} size {:#x} (end = 2^64{:+}): GuestRegionMmap::new accepts={}, from_range accepts={} (file-backed: {}), GuestMemoryMmap::from_ranges accepts={} (from_ranges_with_files: {})", base, size, d, by_new, by_range, by_range_file, by_ranges, by_ranges_file), json!({"base": base, "size": size}));
                }
            }
        }
    }
    ctx.add_transitions(t);
    ctx.add_traces(t);
}

pub fn run(tier: Tier, replay: Option<String>) -> i32 {
    let ctx = crate::new_ctx("C10", tier, "model_checking", &replay);
    ctx.set_rule("E1 to an empty frontier: state = sorted list of (start, length) of a GuestMemoryMmap over U one-byte cells (roots: every single-region map and the map without regions made by new(); a map emptied by removals is a state like any other); from every reachable map: insert_region for every interval of the universe (valid, adjacent, overlapping by one byte, duplicate start), remove_region for every (base, size) incl. wrong size and non-start address, clone, and insert_region of every region handle that already exists in the map or in any of its ancestors (held by the map: refused; removed earlier or added on another branch: decided by the ranges alone); from_regions / from_arc_regions for every ordered list of up to 3 intervals (unsorted, overlapping, empty) and for every list of 2..3 handles in which one handle is repeated; from_ranges and from_ranges_with_files (one shared file with disjoint, identical and overlapping windows) for the same lists: what backs a region has no say in the answer. Regions are real mmaps filled with a unique tag; the frontier keeps every map together with all its ancestors alive, and after every transition the whole lineage is re-read (same regions, same host pointers, same tags). GuestRegionMmap::new over raw regions with base+size within +-3 of 2^64; for mappable sizes GuestRegionMmap::new, from_range (anonymous and file-backed), GuestMemoryMmap::from_ranges and from_ranges_with_files must agree on acceptance.");
    ctx.assume("whether base + size == 2^64 'exceeds the address space' is not judged, only that all constructors agree; where a list is both unsorted and overlapping either documented error is accepted");
    if ctx.replay_of.is_some() {
        println!("replay: deterministic search; re-running it");
    }
    let u = if tier.thorough() { 11 } else { 6 };
    for base in [0u64, 0x1_0000_0000 - 3, u64::MAX - u as u64] {
        explore(&ctx, base, u);
        builds(&ctx, base, u.min(5), 3);
    }
    for n in [9usize, 16, 17, 33, 65] {
        many_regions(&ctx, n);
    }
    #[cfg(not(feature = "xen"))]
    top_of_address_space(&ctx);
    let _: Option<Value> = None;
    ctx.set_exhaustive(true);
    ctx.finish()
}
